#!/bin/bash
# MANIFEST.setup_cmd — offline release build of the harness workspace.
set -e
ROOT="$(cd "$(dirname "$0")" && pwd)"
export CARGO_NET_OFFLINE=true
cd "$ROOT/harness"
cargo build --release --offline
echo "setup ok"
