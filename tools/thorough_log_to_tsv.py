#!/usr/bin/env python3
"""tools/thorough_log_to_tsv.py <log>... "<description>"  - extracts the summary lines of thorough runs
('Cxx thorough: evaluations=.. states=.. transitions=.. .. violations=.. known=.. wall=..s') from run logs into
thorough_results.tsv (id, evaluations, states, transitions, wall_s, violations, known)."""
import re, sys, os
root = os.path.dirname(os.path.dirname(os.path.abspath(__file__)))
*logs, desc = sys.argv[1:]
rows = {}
for lg in logs:
    for l in open(lg, errors="replace"):
        m = re.match(r"(C\d\d) thorough: evaluations=(\d+) states=(\d+) transitions=(\d+) .*violations=(\d+) known=(\d+) wall=([\d.]+)s", l)
        if m:
            rows[m.group(1)] = [m.group(1), m.group(2), m.group(3), m.group(4), m.group(7), m.group(5), m.group(6)]
with open(root + "/thorough_results.tsv", "w") as f:
    f.write("# " + desc + "\n")
    for k in sorted(rows):
        f.write("\t".join(rows[k]) + "\n")
print(len(rows), "rows")
