#!/bin/bash
# tools/seed_all.sh [tier] — runs every seeded change under /verif/seeded against the check of its property and writes
# seeded/<id>/detection.json and seeded/RESULTS.md. /repo must be clean; it is restored after every change.
ROOT="$(cd "$(dirname "$0")/.." && pwd)"; TIER="${1:-quick}"
OUT="$ROOT/seeded/RESULTS.md"
echo "| seeded change | property | tier | detected | violation keys |" > "$OUT.tmp"; echo "|---|---|---|---|---|" >> "$OUT.tmp"
for D in "$ROOT"/seeded/C*-m*; do
  n=$(basename "$D")
  if [ -f "$D/superseded" ]; then
    echo "| $n | - | - | n/a | $(head -c 400 "$D/superseded" | tr '\n' ' ') |" >> "$OUT.tmp"; echo "$n: superseded"; continue
  fi
  if ! git -C /repo apply --check "$D/patch.diff" 2>/dev/null; then
    # the patch rewrites lines that a later fix: commit changed; keep the detection recorded when it still applied
    prev=$(python3 -c "import json;d=json.load(open('$D/detection.json'));print('yes' if d.get('detected') else 'NO')" 2>/dev/null || echo unknown)
    echo "| $n | - | - | $prev (recorded earlier; patch no longer applies to the current tree) | |" >> "$OUT.tmp"; echo "$n: no longer applies (recorded: $prev)"; continue
  fi
  line=$("$ROOT/tools/seed_check.sh" "$D" "$TIER" 2>&1 | grep " $TIER: exit=" | tail -1)
  rc=$(echo "$line" | sed 's/.*exit=\([0-9]*\).*/\1/'); keys=$(echo "$line" | sed 's/.*keys=//')
  prop=$(python3 -c "import json;print(json.load(open('$D/meta.json'))['property'])")
  # a change filed under one property may be a violation of a neighbouring one (e.g. cross-call state is C03's business):
  # seeded/<id>/also_check names further checks to try when the property's own check stays silent
  by="$prop"
  if [ "$rc" != "1" ] && [ -f "$D/also_check" ]; then
    for P in $(cat "$D/also_check"); do
      line2=$("$ROOT/tools/seed_check.sh" "$D" "$TIER" "$P" 2>&1 | grep " $TIER: exit=" | tail -1)
      rc2=$(echo "$line2" | sed 's/.*exit=\([0-9]*\).*/\1/')
      if [ "$rc2" = "1" ]; then rc=1; keys=$(echo "$line2" | sed 's/.*keys=//'); by="$P (the check of $prop stays silent)"; break; fi
    done
  fi
  python3 - "$D" "$prop" "$TIER" "$rc" "$keys" "$(git -C /repo rev-parse --short HEAD)" "$(git -C "$ROOT" rev-parse --short HEAD)" "$by" <<'PY'
import json,sys
d,prop,tier,rc,keys,rh,vh,by=sys.argv[1:]
json.dump({"check":f"./run {by.split()[0]} {tier}","detected_by":by,"exit":int(rc) if rc.isdigit() else None,"detected":rc=="1","violation_keys":keys,"repo_head":rh,"verif_head":vh,"cmd":"tools/seed_check.sh (git -C /repo apply patch.diff; ./run; git -C /repo checkout -- .)"},open(d+"/detection.json","w"),indent=1)
PY
  echo "| $n | $by | $TIER | $([ "$rc" = "1" ] && echo yes || echo NO) | \`$(echo $keys | cut -c1-160)\` |" >> "$OUT.tmp"
  echo "$n: exit=$rc"
done
mv "$OUT.tmp" "$OUT"
