#!/bin/bash
# tools/seed_all.sh [tier] — runs every seeded change under /verif/seeded against the check of its property and writes
# seeded/<id>/detection.json and seeded/RESULTS.md. /repo must be clean; it is restored after every change.
ROOT="$(cd "$(dirname "$0")/.." && pwd)"; TIER="${1:-quick}"
OUT="$ROOT/seeded/RESULTS.md"
echo "| seeded change | property | tier | detected | violation keys |" > "$OUT.tmp"; echo "|---|---|---|---|---|" >> "$OUT.tmp"
# SEED_ONLY="C*-m9 C*-m10": restrict the run to matching directories (RESULTS.md is always rebuilt from every detection.json)
SEL=(); for pat in ${SEED_ONLY:-C*-m*}; do for d in "$ROOT"/seeded/$pat; do [ -d "$d" ] && SEL+=("$d"); done; done
for D in "${SEL[@]}"; do
  n=$(basename "$D")
  if [ -f "$D/superseded" ]; then
    echo "| $n | - | - | n/a | $(head -c 400 "$D/superseded" | tr '\n' ' ') |" >> "$OUT.tmp"; echo "$n: superseded"; continue
  fi
  if ! git -C /repo apply --check "$D/patch.diff" 2>/dev/null; then
    # the patch rewrites lines that a later fix: commit changed; keep the detection recorded when it still applied
    prev=$(python3 -c "import json;d=json.load(open('$D/detection.json'));print('yes' if d.get('detected') else 'NO')" 2>/dev/null || echo unknown)
    echo "| $n | - | - | $prev (recorded earlier; patch no longer applies to the current tree) | |" >> "$OUT.tmp"; echo "$n: no longer applies (recorded: $prev)"; continue
  fi
  line=$("$ROOT/tools/seed_check.sh" "$D" "$TIER" 2>&1 | grep " $TIER: exit=" | tail -1)
  rc=$(echo "$line" | sed 's/.*exit=\([0-9]*\).*/\1/'); keys=$(echo "$line" | sed 's/.*keys=//')
  prop=$(python3 -c "import json;print(json.load(open('$D/meta.json'))['property'])")
  # a change filed under one property may be a violation of a neighbouring one (e.g. cross-call state is C03's business):
  # seeded/<id>/also_check names further checks to try when the property's own check stays silent
  by="$prop"
  if [ "$rc" != "1" ] && [ -f "$D/also_check" ]; then
    for P in $(cat "$D/also_check"); do
      line2=$("$ROOT/tools/seed_check.sh" "$D" "$TIER" "$P" 2>&1 | grep " $TIER: exit=" | tail -1)
      rc2=$(echo "$line2" | sed 's/.*exit=\([0-9]*\).*/\1/')
      if [ "$rc2" = "1" ]; then rc=1; keys=$(echo "$line2" | sed 's/.*keys=//'); by="$P (the check of $prop stays silent)"; break; fi
    done
  fi
  python3 - "$D" "$prop" "$TIER" "$rc" "$keys" "$(git -C /repo rev-parse --short HEAD)" "$(git -C "$ROOT" rev-parse --short HEAD)" "$by" <<'PY'
import json,sys
d,prop,tier,rc,keys,rh,vh,by=sys.argv[1:]
json.dump({"check":f"./run {by.split()[0]} {tier}","detected_by":by,"exit":int(rc) if rc.isdigit() else None,"detected":rc=="1","violation_keys":keys,"repo_head":rh,"verif_head":vh,"cmd":"tools/seed_check.sh (git -C /repo apply patch.diff; ./run; git -C /repo checkout -- .)"},open(d+"/detection.json","w"),indent=1)
PY
  echo "| $n | $by | $TIER | $([ "$rc" = "1" ] && echo yes || echo NO) | \`$(echo $keys | cut -c1-160)\` |" >> "$OUT.tmp"
  echo "$n: exit=$rc"
done
rm -f "$OUT.tmp"
python3 - "$ROOT" <<'PY'
import json,glob,os,sys,re
root=sys.argv[1]
rows=["| seeded change | detected by | tier | detected | violation keys / note |","|---|---|---|---|---|"]
def key(d):
    m=re.match(r".*/(C\d+)-m(\d+)$",d); return (m.group(1),int(m.group(2)))
for d in sorted(glob.glob(root+"/seeded/C*-m*"),key=key):
    n=os.path.basename(d)
    if os.path.exists(d+"/superseded"):
        rows.append(f"| {n} | - | - | n/a | {open(d+'/superseded').read().strip()[:400]} |"); continue
    try: det=json.load(open(d+"/detection.json"))
    except Exception:
        rows.append(f"| {n} | - | - | not run | |"); continue
    by=det.get("detected_by") or det.get("check","").replace("./run ","").split(" ")[0]
    tier=(det.get("check","").split(" ")+["",""])[-1]
    note=det.get("note","")
    keys=str(det.get("violation_keys",""))[:160]
    rows.append(f"| {n} | {by} | {tier} | {'yes' if det.get('detected') else 'NO'} | `{keys}`{(' ' + note) if note else ''} |")
open(root+"/seeded/RESULTS.md","w").write("\n".join(rows)+"\n")
print("RESULTS.md:",sum(1 for r in rows if "| yes |" in r),"detected of",len(rows)-2)
PY
