#!/usr/bin/env python3
"""Rewrites the table of DESIGN.md section 13 (between the TABLE13 markers) from the files the checks wrote:
quick figures from evidence/<id>.json (must be quick-tier evidence of the current tree), thorough figures from
thorough_results.tsv (filled from the log of the last full thorough run: tools/thorough_log_to_tsv.py). Only the
'space' column is hand-written, here."""
import json, os, re, sys

ROOT = os.path.dirname(os.path.dirname(os.path.abspath(__file__)))

SPACE = {
 "C01": "{seeds} seeds: 16 fixture seeds + synthetic seeds and their pair plans (cmap 0/2/6/10/12, kern 0/2, vhea/vmtx, post 2, name 0/1, TTC, fvar/avar/STAT, sbix dupe graphs, SVG plain/gzip, CBLC/CBDT and EBLC/EBDT with every index format 1-5 and image format 1/2/5-9/17-19, morx with all subtable types, AAT lookup formats 0-10 and multi-STORE ligature actions, C12 variable fonts incl. composite cycles and cvar, C18 CFF/CFF2 fonts incl. seac cycles and recursive subroutines); faults at the directory, the first 24-64 bytes of every boilerplate table and every position (first 1024 bytes) of the tables a synthetic seed was written for; all truncations / removals / re-tags / swaps; coupled pairs on 2 seeds [all ~300 fixtures, every position of seeds <= 8 KB, pairs on every small synthetic seed]",
 "C02": "13 scripts x 2-4 fonts x all strings <= 3 (core alphabet 4-5) x <= 1 configuration deviation (8 feature selections incl. FRAC and fina/ccmp custom sets, language, kerning, direction, vertical, unmapped script; 36 script tags on the Latin fonts) [<= 4-6, 2 deviations]; fraction family; every prefix/suffix of runs with attachments laid out on its own; character class sweep: 3 700 code points of the complex-script blocks x 5 contexts x 13 shapers; single faults over GSUB/GPOS/GDEF/kern/morx of the first font of every AOTS family [all 206], synthetic kern fonts, six complex-script GSUB fonts through their own shaper, four fonts with inert / malformed contextual format 3 rules, a deleting context rule, four fonts whose contextual / chaining lookups name themselves or each other, a FeatureVariations font shaped with and without a tuple",
 "C03": "BFS to fixpoint over the cache states of 22 [23] subject fonts (synthetic FeatureVariations font, two variation regions sharing an alternate feature, Devanagari, Arabic, sbix x2, EBLC-only x2 incl. the image filter as an argument, symbol, latn-only GSUB, a 'dflt' LangSysRecord, GPOS with a kern feature per script, a feature naming a lookup beyond the list, 5 with unparsable lazy tables, 2 [3] with GSUB subtables 64 KiB-16 MiB apart, custom features without mask bits, broken default LangSys under a complex script), 6-20 calls each; unmerged histories to depth 3 [4]; a chain of 64 calls with distinct cache keys probed at every length; 312 pure operations x3 in-process + a second process",
 "C04": "19 000 [25 800] GSUB programs (single, ctxflags, nest, reach, pair, shared, variations, misc) x encodings x strings <= 3-4 [4-5] x 3 seams; class frac: 38 [85] liga / ccmp / frac lookup lists x 12 297 [122 938] prefix x fraction x suffix texts x 3 masks x 2 seams",
 "C05": "7 860 GPOS programs (single, pair, pairskip, cursive, cursiveadjust, markbase/marklig/markmark, markadjust, context, combo, overflow) x 4 [7] encodings x strings <= 3-4 [4-5] x components x 6 tuples x 2 directions x 2 hmtx variants; kern tables (formats 0/2, coverage bits, several subtables) x strings",
 "C06": "cmap 0/2/4/6/10/12 structures (<= 2 [3] segments/groups, 4 terminator forms, lead-byte trail ranges), 3 seams, lookup <-> enumeration both ways, all ordered selections of <= 3 encoding records, symbol / Mac Roman / Big5 laws over all bytes, codes, characters; Big5 both ways against the independent index",
 "C07": "52 [55] sources: 29 small fonts with all ordered lists <= 4 [5] (fixtures in sfnt/WOFF/WOFF2 containers, -2 composites, synthetic cmap shapes incl. format 12 identity, Windows Big5, glyphIdArray holes under idDelta, Mac Roman mixes and aliased characters over a short hmtx, WOFF2 fixtures judged against their sfnt twins, a six-level composite chain, two CID fonts with mixed local subrs, sixteen CFF/CFF2 model fonts; two 8000-glyph cmap sources at the format 4 size limit); large fonts: [0,g], neighbours, ranges at 2/255/256/257/n, tail, one glyph per composite class, Font DICT boundaries, Mac Roman thresholds, character neighbourhoods with an astral/BMP glyph at every position; x subset / prince (4 cmap targets) / CID conversion; outlines through allsorts' visitors and, for CFF outputs, through the independent C18 reader + interpreter and the model paths, with the CFF's declared advances, DICT values, strings and glyph names; metrics of requested and appended glyphs",
 "C08": "same enumeration as C07; source and output cmap read by the independent reader (honours subtable lengths) and compared in character space; independent Mac Roman table and Big5 index; Symbol sources through usFirstCharIndex",
 "C09": "every successful output of the C07 enumeration + whole_font over all tag subsets of three fonts + instances of 5 variable fixtures at {{min, default, max, midpoints}}^axes and of ~900 C12 model fonts + WOFF2 reconstructions of 6 fixtures and 265 [724] C11 model files, through the independent validator and then the library itself",
 "C10": "tag subsets <= 3 [4] x length menu x 3 flavours x order deviations; TTC 1-2 [3] members x sharing patterns x 4 layouts x shared directories x 2 versions, member indices up to 2^63; WOFF with every stored/deflated assignment, metadata/private blocks, corrupt predecessors on the same thread; 3 072 files whose tables collide on length / checksum / bytes x query orders",
 "C11": "model fonts x encoder choices: every triplet row incl. 16-bit rows to 65535 and int16-wrapping steps, 255UInt16 forms, bbox bitmap, instruction-flag placements, hmtx transform flags, loca formats, collections with shared tables and absent-table probes, long glyf tables at the short-loca limit",
 "C12": "nine TrueType families (iup, regions1, regions2, invalid1, packing, metrics, extreme, nested, cvar) + the CFF2 family (incl. region-less ItemVariationData), vhea/vmtx/VVAR on half of the HVAR forms, each font instanced at every region start/peak/end +-1 unit, midpoints, thirds, 0, +-1 and beyond the axis range [all 32769 normalised values for 198 one-axis fonts]",
 "C13": "286 axis triples x 163 [~1400] avar maps incl. 21 fine-knot maps and 5 with to-coordinates outside [-1, 1] x landmark / knot / interior probes [every 2.14 grid value x 4 sub-unit offsets on unit axes]; three-axis fonts x empty/identity/non-trivial maps x HIDDEN_AXIS flags x 5 (axisSize, axesArrayOffset) layouts; 15 unparsable avar variants x 3 tuples through variations::instance; all F2Dot14 <-> Fixed <-> f32 conversions",
 "C14": "fixpoint over buffers of 0-9 [12] distinct bytes, ~160 operations per state with boundary arguments, every produced array queried completely, dependent arrays with undecodable elements [stateright cross-run on the same successor function]",
 "C15": "29 structure families, <= 2 [3] deviating fields; 94 fixture fonts x 16 table kinds parse-write-parse-write",
 "C16": "simple glyphs (every flag/repeat/short-vector encoding, 1-point and empty contours, long runs of 127-600 points) and composites (1-2 components, every transform and offset flag incl. both offset flags, nesting, cycles) through glyf and whole fonts",
 "C17": "23 script tags x alphabets of 12-16 x strings <= 5-6 [<= 7-8]; Arabic runs of 17-24 marks and all group patterns to 40 [64]; classification sweep of 2023 code points x 5 contexts x 9 scripts and all ordered pairs of 9 Indic blocks; map_glyphs agreement to length 3 [4]",
 "C18": "eighteen phases (forms, flex1-ties, numbers, hints, subrs, subrs-bias, subrs-nesting, cid, seac, seac-subrs, seac-moves, seac-nesting incl. cyclic cases in processes of their own, blend, blend-large, blend-zero-regions (+ fdselect), limits, otto), CFF and CFF2",
}

def sci(n):
    n = int(n)
    if n < 100000:
        return f"{n:,}".replace(",", " ")
    e = len(str(n)) - 1
    return f"{n / 10**e:.1f}·10^{e}"

def main():
    thorough = {}
    tsv = os.path.join(ROOT, "thorough_results.tsv")
    meta = ""
    if os.path.exists(tsv):
        for l in open(tsv):
            if l.startswith("#"):
                meta = l[1:].strip(); continue
            f = l.rstrip("\n").split("\t")
            if len(f) >= 5:
                thorough[f[0]] = f
    rows = ["| id | quick: evaluations / states / transitions / wall | thorough: evaluations / wall | space actually enumerated (quick; thorough in brackets) |",
            "|----|---------------------------|------------------------------|---------------------------------------------------------|"]
    for i in range(1, 19):
        pid = f"C{i:02d}"
        e = json.load(open(os.path.join(ROOT, "evidence", pid + ".json")))
        if e.get("tier") != "quick":
            print(f"warning: evidence/{pid}.json is not quick-tier evidence", file=sys.stderr)
        c = e["coverage"]
        q = f"{sci(c['evaluations'])} / {sci(c['states'])} / {sci(c['transitions'])} / {e['wall_s']:.1f} s"
        t = thorough.get(pid)
        tt = f"{sci(t[1])} / {float(t[4]):.0f} s" if t else "-"
        space = SPACE[pid].format(seeds=c.get("seeds", "?"))
        rows.append(f"| {pid} | {q} | {tt} | {space} |")
    block = "\n".join(rows)
    p = os.path.join(ROOT, "DESIGN.md")
    s = open(p).read()
    a, b = "<!-- TABLE13:BEGIN -->", "<!-- TABLE13:END -->"
    assert a in s and b in s, "markers missing in DESIGN.md"
    s = s[: s.index(a) + len(a)] + "\n" + (f"Thorough figures: {meta}\n\n" if meta else "") + block + "\n" + s[s.index(b):]
    open(p, "w").write(s)
    print("DESIGN.md table rewritten")

main()
