#!/bin/bash
# tools/seed_collect.sh <round-prefix e.g. seed4> <first index e.g. 7> Cxx...  : copy /tmp/<prefix>-cxx/out/m1,m2 to seeded/Cxx-m<first>,m<first+1>, remove the worktree
P=$1; K=$2; shift 2
for C in "$@"; do
  low=$(echo $C | tr A-Z a-z)
  W=/tmp/$P-$low
  for i in 1 2; do
    D=/verif/seeded/$C-m$((K+i-1))
    if [ -d $W/out/m$i ]; then mkdir -p $D; cp -r $W/out/m$i/. $D/; echo "$C m$i -> $D: $(ls $D | tr '\n' ' ')"; else echo "$C m$i MISSING"; fi
  done
  git -C /repo worktree remove --force $W 2>/dev/null; rm -rf $W
done
