#!/bin/bash
# tools/seed_par.sh <rigs> <seeded dir>...  — TRIAGE ONLY: runs the quick check of each seeded change's property in <rigs>
# parallel rigs. A rig is /tmp/par<k>/{repo,verif}: a scratch worktree of /repo HEAD and a copy of /verif's committed and
# uncommitted working files (without build output and seeded/), with vcheck's allsorts dependency pointed at the rig's
# worktree. /repo itself is not touched, so checks can be edited and run in /verif meanwhile. Prints one line per change:
#   <id> <Cxx>: exit=<rc> keys=[...]
# and writes nothing under /verif. The detection of record (seeded/<id>/detection.json) is still written by
# tools/seed_all.sh, which patches /repo in place as the brief prescribes.
# SEED_PAR_PROPS="Cxx Cyy": check these properties instead of the one in meta.json. SEED_PAR_KEEP=1: keep the rigs.
set -u
ROOT="$(cd "$(dirname "$0")/.." && pwd)"
N=$1; shift
DIRS=(); for a in "$@"; do DIRS+=("$(realpath "$a")"); done
setup_rig() {
  local R=/tmp/par$1
  if [ ! -d $R/repo ]; then mkdir -p $R; git -C /repo worktree add --detach $R/repo HEAD -q || return 2; fi
  git -C $R/repo checkout -q --detach "$(git -C /repo rev-parse HEAD)"; git -C $R/repo checkout -q -- .
  mkdir -p $R/verif
  rsync -a --delete --exclude .git --exclude 'harness/target*' --exclude seeded --exclude demos "$ROOT/" $R/verif/
  # registry dependencies are reused from /verif's build output on first setup (allsorts and vcheck rebuild anyway)
  [ -d $R/verif/harness/target ] || cp -r "$ROOT/harness/target" $R/verif/harness/target 2>/dev/null
  sed -i "s#path = \"/repo\"#path = \"$R/repo\"#" $R/verif/harness/vcheck/Cargo.toml
}
run_rig() {
  local k=$1; shift
  local R=/tmp/par$k
  for D in "$@"; do
    n=$(basename "$D")
    git -C $R/repo checkout -q -- .
    if ! git -C $R/repo apply "$D/patch.diff" 2>/dev/null; then echo "$n: PATCH DOES NOT APPLY"; continue; fi
    props=${SEED_PAR_PROPS:-$(python3 -c "import json;print(json.load(open('$D/meta.json'))['property'])") $(cat "$D/also_check" 2>/dev/null)}
    for P in $props; do
      out=$(cd $R/verif && ./run "$P" quick 2>&1); rc=$?
      keys=$(python3 -c "import json;print(sorted(set(v['key'] for v in json.load(open('$R/verif/evidence/$P.json')).get('violation_list',[])))[:6])" 2>/dev/null)
      echo "$n $P: exit=$rc keys=$keys"
      [ $rc -ge 2 ] && echo "$out" | tail -5
    done
    git -C $R/repo checkout -q -- .
  done
}
for k in $(seq 1 $N); do setup_rig $k || exit 2; done
pids=()
for k in $(seq 1 $N); do
  mine=(); i=0
  for D in "${DIRS[@]}"; do [ $(( i % N + 1 )) -eq $k ] && mine+=("$D"); i=$((i+1)); done
  [ ${#mine[@]} -gt 0 ] && { run_rig $k "${mine[@]}" & pids+=($!); }
done
wait "${pids[@]}"
if [ "${SEED_PAR_KEEP:-0}" != "1" ]; then
  for k in $(seq 1 $N); do git -C /repo worktree remove --force /tmp/par$k/repo 2>/dev/null; rm -rf /tmp/par$k; done
fi
