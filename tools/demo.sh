#!/bin/bash
# tools/demo.sh <Cxx> <patch> [--with-tests]
# Applies a property-breaking mutation to /repo, shows that the quick check of <Cxx> reports it (exit 1 with a
# VIOLATION line, twice with identical keys), optionally that the repository's own suite still passes, and reverts.
set -u
ID="$1"; PATCH="$(realpath "$2")"; WITH_TESTS="${3:-}"
ROOT="$(cd "$(dirname "$0")/.." && pwd)"
if [ -n "$(git -C /repo status --porcelain --untracked-files=no)" ]; then echo "demo: /repo has uncommitted changes"; exit 2; fi
git -C /repo apply "$PATCH" || { echo "demo: patch does not apply"; exit 2; }
trap 'git -C /repo checkout -- . ' EXIT
rc_tests=skipped
if [ "$WITH_TESTS" = "--with-tests" ]; then
  out=$(cd /repo && cargo test --workspace --no-fail-fast --offline 2>&1 | grep -E "^test .* FAILED" | sort -u)
  expected="test bitmap::cbdt::tests::test_lookup_cblc ... FAILED
test font::tests::test_glyph_names ... FAILED
test tables::cmap::tests::test_mappings_format0 ... FAILED
test tables::cmap::tests::test_mappings_format12 ... FAILED
test tables::cmap::tests::test_mappings_format4 ... FAILED
test tables::svg::tests::test_read_svg ... FAILED
test test_shape_emoji_flag ... FAILED
test test_shape_emoji_hair_component ... FAILED
test test_shape_emoji_sequence ... FAILED
test test_shape_emoji_zwj_sequence ... FAILED"
  if [ "$out" = "$expected" ]; then rc_tests=pass; else rc_tests="FAIL: $(echo "$out" | grep -v -F "$expected" | head -5)"; fi
fi
SAVE=$(mktemp -d)
cp -r "$ROOT/evidence" "$SAVE/evidence"; cp -r "$ROOT/replays" "$SAVE/replays" 2>/dev/null
k1=$("$ROOT/run" "$ID" quick 2>&1); rc1=$?
keys1=$(python3 -c "import json;print(sorted(v['key'] for v in json.load(open('$ROOT/evidence/$ID.json'))['violation_list']))")
k2=$("$ROOT/run" "$ID" quick 2>&1); rc2=$?
keys2=$(python3 -c "import json;print(sorted(v['key'] for v in json.load(open('$ROOT/evidence/$ID.json'))['violation_list']))")
rm -rf "$ROOT/evidence" "$ROOT/replays"; cp -r "$SAVE/evidence" "$ROOT/evidence"; [ -d "$SAVE/replays" ] && cp -r "$SAVE/replays" "$ROOT/replays"; rm -rf "$SAVE"
echo "demo $(basename "$PATCH") on $ID: repo-tests=$rc_tests exit=$rc1/$rc2 keys=$keys1 deterministic=$([ "$keys1" = "$keys2" ] && echo yes || echo NO)"
echo "$k1" | grep -c "^VIOLATION" | sed 's/^/  VIOLATION lines: /'
[ $rc1 -eq 1 ] && [ $rc2 -eq 1 ] && [ "$keys1" = "$keys2" ]
