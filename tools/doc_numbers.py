#!/usr/bin/env python3
"""Prints the numbers DESIGN.md quotes (fix commits, fixed:/known: lines per property, demos, seeded changes, evidence
figures) so that the text can be checked against the files."""
import json, glob, subprocess, collections, os, re
root = os.path.dirname(os.path.dirname(os.path.abspath(__file__)))
log = subprocess.run(["git", "-C", "/repo", "log", "--format=%s"], capture_output=True, text=True).stdout.splitlines()
print("fix: commits in /repo:", sum(1 for l in log if l.startswith("fix:")), " hook commits:", sum(1 for l in log if l.startswith("verif-hooks")))
fixed, known = collections.Counter(), collections.Counter()
for l in open(root + "/KNOWN_FINDINGS.txt"):
    m = re.match(r"(fixed|known): property=(C\d+)", l)
    if m:
        (fixed if m.group(1) == "fixed" else known)[m.group(2)] += 1
print("fixed lines:", sum(fixed.values()), dict(sorted(fixed.items())))
print("known lines:", sum(known.values()), dict(sorted(known.items())))
print("demos:", len(glob.glob(root + "/demos/*.patch")))
dirs = sorted(glob.glob(root + "/seeded/C*-m*"))
print("seeded changes:", len(dirs))
byround = collections.defaultdict(lambda: [0, 0, 0])
for d in dirs:
    k = int(d.rsplit("-m", 1)[1]); r = (k + 1) // 2
    byround[r][0] += 1
    try:
        det = json.load(open(d + "/detection.json"))
        byround[r][1] += 1 if det.get("detected") else 0
    except Exception:
        byround[r][2] += 1
for r in sorted(byround):
    print(f"  round {r}: {byround[r][0]} changes, detected now {byround[r][1]}, no detection.json {byround[r][2]}")
missed = collections.Counter()
for l in open(root + "/seeded/INITIALLY_MISSED.tsv"):
    m = re.match(r"C\d+-m(\d+)", l)
    if m:
        missed[(int(m.group(1)) + 1) // 2] += 1
print("initially missed per round:", dict(sorted(missed.items())))
for f in sorted(glob.glob(root + "/evidence/C*.json")):
    e = json.load(open(f)); c = e["coverage"]
    print(os.path.basename(f)[:-5], e.get("tier"), "evals", c.get("evaluations"), "states", c.get("states"), "transitions", c.get("transitions"), "wall", e.get("wall_s"), "known", len(e.get("known_findings", [])), "exhaustive", c.get("exhaustive"))
