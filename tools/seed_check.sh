#!/bin/bash
# tools/seed_check.sh <seeded dir> [tier] [Cxx ...]  — applies a seeded change to /repo, runs the property's check(s)
# (default: the property named in meta.json, quick tier), prints exit code + violation keys, and reverts /repo.
set -u
ROOT="$(cd "$(dirname "$0")/.." && pwd)"
D=$(realpath "$1"); TIER="${2:-quick}"; shift; shift 2>/dev/null
PROPS=("$@"); [ ${#PROPS[@]} -eq 0 ] && PROPS=($(python3 -c "import json;print(json.load(open('$D/meta.json'))['property'])"))
if [ -n "$(git -C /repo status --porcelain --untracked-files=no)" ]; then echo "seed_check: /repo has uncommitted changes"; exit 2; fi
git -C /repo apply "$D/patch.diff" || { echo "seed_check: patch does not apply"; exit 2; }
trap 'git -C /repo checkout -- .' EXIT
SAVE=$(mktemp -d); cp -r "$ROOT/evidence" "$SAVE/evidence"; cp -r "$ROOT/replays" "$SAVE/replays"
for P in "${PROPS[@]}"; do
  out=$("$ROOT/run" "$P" "$TIER" 2>&1); rc=$?
  keys=$(python3 -c "import json;print(sorted(set(v['key'] for v in json.load(open('$ROOT/evidence/$P.json')).get('violation_list',[]))))" 2>/dev/null)
  echo "$(basename $D) $P $TIER: exit=$rc keys=$keys"
  [ $rc -ge 2 ] && echo "$out" | tail -5
done
rm -rf "$ROOT/evidence" "$ROOT/replays"; cp -r "$SAVE/evidence" "$ROOT/evidence"; cp -r "$SAVE/replays" "$ROOT/replays"; rm -rf "$SAVE"
