#!/bin/bash
# tools/seed_verify.sh <seeded dir>...   — confirms a seeded change in a scratch worktree of /repo HEAD:
#   (1) patch applies, (2) demo FAILS with it, (3) the repository suite shows only the 10 expected failures with it,
#   (4) demo PASSES without it. Writes verify.json next to the patch. Scratch worktree: /tmp/seedverify (kept between
#   calls for incremental builds; remove with: git -C /repo worktree remove --force /tmp/seedverify).
set -u
W=${SEED_VERIFY_W:-/tmp/seedverify}   # SEED_VERIFY_W=<dir>: several verifications in parallel, one scratch worktree each
DIRS=(); for a in "$@"; do DIRS+=("$(realpath "$a")"); done
EXPECTED="test bitmap::cbdt::tests::test_lookup_cblc ... FAILED
test font::tests::test_glyph_names ... FAILED
test tables::cmap::tests::test_mappings_format0 ... FAILED
test tables::cmap::tests::test_mappings_format12 ... FAILED
test tables::cmap::tests::test_mappings_format4 ... FAILED
test tables::svg::tests::test_read_svg ... FAILED
test test_shape_emoji_flag ... FAILED
test test_shape_emoji_hair_component ... FAILED
test test_shape_emoji_sequence ... FAILED
test test_shape_emoji_zwj_sequence ... FAILED"
if [ ! -d $W ]; then git -C /repo worktree add --detach $W HEAD -q || exit 2; fi
# SEED_VERIFY_REV=<commit>: verify against an earlier /repo commit (a patch superseded by a later fix: commit is confirmed
# against the parent of that commit)
REV=${SEED_VERIFY_REV:-$(git -C /repo rev-parse HEAD)}
git -C $W checkout -q --detach $REV; git -C $W checkout -q -- . ; rm -f $W/tests/seeded_demo.rs
for D in "${DIRS[@]}"; do
  name=$(basename "$D")
  cd $W; git checkout -q -- . ; rm -f tests/seeded_demo.rs
  if ! git apply --check "$D/patch.diff" 2>/dev/null; then echo "$name: PATCH DOES NOT APPLY"; echo '{"applies": false}' > "$D/verify.json"; continue; fi
  git apply "$D/patch.diff"; cp "$D/demo.rs" tests/seeded_demo.rs
  out=$(cargo test --workspace --no-fail-fast --offline 2>&1)
  demo_with=$(echo "$out" | grep -E "^test .* \.\.\. FAILED" | grep -v -F "$EXPECTED" | sort -u)
  # failures outside the demo test binary: run the suite list minus demo
  FEAT=""; grep -q -- "--features prince" "$D/meta.json" && FEAT="--features prince"
  cargo test --offline $FEAT --test seeded_demo > $W.demo.log 2>&1; rc_with=$?
  demo_tests_failed=$(grep -E "^test .* FAILED" $W.demo.log | sort -u)
  other=$(echo "$demo_with" | grep -v -F "$demo_tests_failed" | grep -v '^$')
  git checkout -q -- . 
  cargo test --offline $FEAT --test seeded_demo > $W.demo2.log 2>&1; rc_without=$?
  rm -f tests/seeded_demo.rs
  ok=true; [ $rc_with -ne 0 ] || ok=false; [ $rc_without -eq 0 ] || ok=false; [ -z "$other" ] || ok=false
  python3 - "$D" "$rc_with" "$rc_without" "$other" "$ok" "$(git -C $W rev-parse --short HEAD)" <<'PY'
import json,sys
d,rw,rwo,other,ok,head=sys.argv[1:]
json.dump({"applies":True,"demo_exit_with_change":int(rw),"demo_exit_without_change":int(rwo),"suite_failures_beyond_expected_10_and_demo":other.splitlines(),"confirmed":ok=="true","repo_head":head,"cmd":"tools/seed_verify.sh"},open(d+"/verify.json","w"),indent=1)
PY
  echo "$name: demo_with=$rc_with demo_without=$rc_without other_failures=[$(echo $other | head -c 200)] confirmed=$ok"
done
