#!/usr/bin/env python3
"""Regenerates /verif/MANIFEST.json from the table below (keeps the manifest valid at all times)."""
import json, os, subprocess
ROOT = os.path.dirname(os.path.dirname(os.path.abspath(__file__)))

CHECKS = {
 "C14": dict(engine="mcx-bfs", cat="model_checking",
   text="All operation sequences of the reader alphabet over buffers of up to 9 (thorough 12) distinct bytes: BFS to fixpoint over (window start, window length, cursor) states; every operation with every boundary argument is executed on a real ReadCtxt from every reachable state and compared with plain slice indexing.",
   note="Trusted: (s,l,o) is all of ReadCtxt's state (base is checked against it); hooks H1/H2 turn out-of-window reads and wrong SIZE constants into panics; buffers <= 12 bytes; length/offset arguments from a boundary menu up to usize::MAX.",
   technique="explicit-state BFS to fixpoint over reader states; real code as transition function; slice-indexing reference model"),
 "C06": dict(engine="mcx-choice-tree", cat="model_checking",
   text="Every cmap subtable from structural menus (formats 0/2/4/6/10/12; 1-2 segments or groups quick, 3 thorough; delta vs glyphIdArray segments, boundary codes and deltas) is encoded by an independent encoder, read by allsorts at three seams (CmapSubtable, owned CmapSubtable, Font::lookup_glyph_index on a wrapped font) and compared with the specification's model map on every structural edge (thorough: all 0x110000 code points for one-segment tables); all ordered selections of <=3 encoding records decide the preference order; Mac Roman / Big5 inverse laws over all bytes, codes and chars.",
   note="Trusted: otmodel::cmapenc encoders + model maps written from the OpenType cmap chapter; Apple ROMAN.TXT from memory, compared only where allsorts' partial decoder is defined; tables are well formed (malformed ones belong to C01).",
   technique="exhaustive choice-tree enumeration of cmap structures x code points against a dictionary reference model"),
 "C10": dict(engine="mcx-choice-tree", cat="model_checking",
   text="Every container configuration within the bounds (all tag subsets of <=3 (thorough 4) tables from 6 tags x every length from the menu, 3 flavours, directory/data order deviations, all TTC sharing patterns of a 4-table pool over <=2 (3) members with header versions 1/2, all 2^k WOFF compression assignments with metadata/private blocks) is built by independent builders and queried through OpenTypeFont/WoffFont/FontData for every present tag, absent tags and member indices beyond the end; the configuration itself is the oracle.",
   note="Trusted: otmodel::sfnt builders and flate2 (zlib backend) as the compressor; table_tags compared as a set; second flate2 backend not exercised.",
   technique="exhaustive choice-tree enumeration of container configurations; byte-equality oracle"),
 "C13": dict(engine="mcx-choice-tree", cat="model_checking",
   text="Every axis triple min<=default<=max from an 11-value landmark menu (286 triples incl. degenerate and +-32768 extremes) x every valid avar map with <=2 (thorough 3) interior knots x user values at every landmark, midpoint and knot pre-image +-2 raw units (thorough: every 2.14 grid value x 4 sub-unit offsets on unit axes, ~1.3e5 values per map) is normalised by FvarTable::normalize on independently encoded fvar/avar tables and compared with exact rational arithmetic within the tolerance the property states; exactness at min/default/max, range, monotonicity and tuple-length rejection are checked; all 65536 F2Dot14 values, all 16.16 values in [-2,2) and all f32 with <=17 fractional bits in (-4,4) go through the fixed-point conversions.",
   note="Trusted: exact i128 rational evaluator of the OpenType normalisation text; enumerated avar maps are valid and monotone; one axis per font except the tuple-length/independence cases.",
   technique="exhaustive enumeration of axes x avar maps x coordinates against exact rational arithmetic"),
 "C03": dict(engine="mcx-bfs", cat="model_checking",
   text="For six subject fonts (a synthetic variable font whose GSUB carries FeatureVariations, Noto Sans Devanagari, Noto Naskh Arabic, an sbix font under two image filters, a symbol-encoded font) BFS to a fixpoint over all cache states reachable by any history of calls from a per-font alphabet of 7-18 API calls chosen to collide on cache keys; in every state every call is executed on a fresh replay and must return what it returns on a freshly loaded font. State merging uses hook H3 (digest of every mutable slot) and is cross-validated by unmerged exploration of all histories to depth 3 (thorough 4). subset / whole_font / instance / WOFF / WOFF2 decoding outputs are compared across three in-process repetitions and a second process.",
   note="Trusted: H3 digest covers all mutable Font state (cross-validated); alphabet-relative: histories consist of the listed calls; observables compared through Debug renderings.",
   technique="explicit-state BFS to fixpoint over Font cache states with a canonical fingerprint; differential oracle against a fresh object"),
 "C02": dict(engine="mcx-choice-tree", cat="model_checking",
   text="Text part: for 13 scripts (Devanagari, Bengali, Tamil, Malayalam, Kannada, Sinhala, Myanmar, Khmer, Arabic, Syriac, Thai, Lao, Latin/default) an alphabet with one representative per class of the script's syllable machine plus foreigners (13-20 letters); ALL strings of length <= 4 (thorough <= 5, and <= 6 over the 10 core letters) x 2-4 fixture fonts x every shaping configuration with <= 1 (thorough 2) deviations from the default (feature selection Mask default/all/empty, Custom empty/list; language; kerning; direction; vertical; unmapped script tag) are mapped, shaped and positioned on real fonts; oracle: terminates without panic, every attachment index inside the run, every attributed character from the submitted run or U+25CC, glyph ids below numGlyphs, glyph_positions total. Fault part: one byte/u16 fault at every position of GSUB/GPOS/GDEF/kern/morx of the AOTS fonts (every 12th quick, all 206 thorough) and synthetic kern fonts, each mutant shaped with all strings of length <= 2 (thorough 3) over the glyphs the AOTS lookups act on, in isolated worker processes.",
   note="Trusted: the alphabets cover the syllable-machine classes (chosen from the Unicode/OpenType script specifications, listed in the evidence); fixture fonts; value faults from boundary menus; watchdog and allocation cap as in C01.",
   technique="exhaustive enumeration of strings x configurations (deviation bounded) on real fonts with a well-formedness oracle, plus exhaustive single-fault enumeration of layout tables"),
 "C17": dict(engine="mcx-choice-tree", cat="model_checking",
   text="For 23 script tags (all 20 tags the library maps plus three unmapped ones) an alphabet of 12-14 code points (bases, marks of several modified combining classes incl. equal classes and a non-BMP mark, joiners, and the script's rewrite triggers: Arabic shadda/modifier marks, SARA AM, Khmer split vowels, Indic split matras, Bengali ya+nukta, Kannada ra-halant-ZWJ, every prohibited vowel pair of five scripts); ALL strings of length <= 5 (thorough <= 7) go through preprocess_text (and, up to length 3/4, Font::map_glyphs) and are compared with relational oracles (content preserved, bases fixed, mark runs permuted within themselves) and exact independent models (stable sort by modified class; UTR #53 for Arabic; the documented splits/recompositions/insertions); Arabic mark runs of 17-24 marks with <= 3 deviations and all group patterns up to 40 (64) marks.",
   note="Trusted: unicode-canonical-combining-class for base classes; modified-class table, UTR #53 steps and the rewrite tables re-derived from the specifications in the check; a documented rewrite that the library does not apply is recorded as an observation, not a violation; termination is not monitored.",
   technique="exhaustive enumeration of strings per script against independent reference models of the documented rewrites"),
 "C07": dict(engine="mcx-choice-tree", cat="model_checking",
   text="For 14 source fonts (TrueType, composite TrueType, CFF, CFF2, sbix, symbol; sfnt, WOFF and WOFF2 containers; thorough 21 incl. CID-keyed CFF) every ordered duplicate-free glyph list starting with 0 up to length 4 (thorough 5; all lengths for fonts with <= 6 glyphs) on the small fonts, and on the large fonts [0,g], [0,g,g+1], [0,g+1,g] for every (quick: every k-th) g, prefixes and reversed prefixes of length 2/255/256/257/n, the tail, and Mac-Roman-only / astral threshold lists, x {subset, prince::subset with each cmap target, CID conversion}: every retained glyph's recorded outline, advance and lsb in the output equal the source's.",
   note="Trusted: outlines are compared through allsorts' own visitors on both sides (their semantics are decided independently by C16/C18); hmtx is read by an independent reader; fixture fonts only until the synthetic font generators are wired in.",
   technique="exhaustive enumeration of (font, glyph list, option); differential oracle source vs output per retained glyph"),
 "C08": dict(engine="mcx-choice-tree", cat="model_checking",
   text="Same enumeration as C07; the source's selected cmap subtable and the output's cmap are both read by an independent reader (otmodel::read) and compared in character space: a character mapped to a retained glyph must map to its new id, every other character to glyph 0, whatever format the subsetter emits (0/4/12, Unicode/Mac Roman/Symbol records); Mac Roman target keeps only Mac Roman characters; Font::lookup_glyph_index on the output must agree.",
   note="Trusted: otmodel::read cmap reader; selection of the source subtable and Mac Roman tables are C06's business; Symbol source with Mac Roman target is not modelled.",
   technique="exhaustive enumeration of (font, glyph list, cmap target); independent cmap reader on both sides"),
 "C09": dict(engine="mcx-choice-tree", cat="model_checking",
   text="Every successful output of the C07 enumeration, of whole_font over all 2^k subsets of the tag list of three small fonts, of variations::instance at every {min, default, max, midpoints}^axes combination of five variable fixtures, and fonts rebuilt from WOFF2-reconstructed tables is checked by an independent validator: sorted directory, search fields, alignment, no overlap/gaps, zero padding, table checksums, checkSumAdjustment, file length, and maxp/hhea/hmtx/head/loca/glyf/cmap/post/CFF mutual consistency; then the library loads it and queries every glyph.",
   note="Trusted: otmodel::sfnt::validate + otmodel::read::validate_font written from the OpenType specification; a padded loca in a null-transformed WOFF2 is attributed to the source font.",
   technique="exhaustive enumeration of writer inputs; independent structural and cross-table validator on every output"),
 "C01": dict(engine="mcx-fault-shards", cat="fault_enumeration",
   text="For every seed font (quick: 15 representative fixtures covering TrueType, composite, symbol, CFF2, variable, sbix, SVG, WOFF, WOFF2 plus every synthetic seed for table kinds no small fixture has; thorough: all ~300 fixture fonts of /repo/tests and all synthetic seeds) every single fault of the plan is applied and the whole battery of ~40 public entry points (loading, table access, cmap lookups and enumeration, glyph names, metrics, glyf/CFF/CFF2 outlines, embedded images, subset / prince::subset / whole_font, variations::instance at several tuples, shaping) is run on the mutant in an isolated worker: byte faults {00,01,7F,80,FF,b+-1,b^80} at every offset, u16 faults {0,1,7FFF,8000,FFFF,v+-1} at every even offset, u32 faults at every aligned offset, every truncation, every table removed / emptied / re-tagged / swapped (thorough: all positions of seeds <= 8 KB, directory + first 64 bytes of every table for larger ones; quick: directory + first 64 bytes of every table); bound 2 = all coupled pairs of u16 positions of the small synthetic seeds. WOFF-wrapped variants push the same faults behind the decompressor.",
   note="Trusted: panic hook / signal handlers / counting allocator (cap 256 MiB + 4096 x input) / CPU-time watchdog (4 s of process CPU per case, wall fallback 30x, confirmed by a solitary re-run) attribute every abnormal end to one case; fault values come from boundary menus, not all 2^8/2^16/2^32 values; three or more simultaneous faults are not explored; a run that hits its wall cap reports the cases it did not reach and sets exhaustive=false.",
   technique="exhaustive enumeration of fault sequences (bound 1 everywhere, bound 2 on coupled pairs) over real entry points in isolated worker processes with crash, allocation and time monitors"),
 "C05": dict(engine="mcx-choice-tree", cat="model_checking",
   text="A catalogue of ~6900 abstract GPOS programs over an 8-glyph universe (SinglePos 1/2 with all 16 static value formats x 8 lookup-flag settings and device/variation formats; PairPos 1/2 with all 16x16 value-format pairs; CursivePos; MarkBase/MarkLig/MarkMark with 1-2 classes, null anchors, anchor formats 1-3; Context/ChainContext with nested records; multi-lookup combinations) is encoded by an independent encoder under every encoding with <= 1 (thorough 2) non-default choices (Coverage 1/2, ClassDef 1/2, Extension) and run through gpos::apply_features, Font::shape and GlyphLayout::glyph_positions (both directions, two hmtx variants) on every glyph string up to length 3 (context/combination programs 4; thorough 4-5) over {a,b,L,m1,m2} x ligature-component assignments x 6 variation tuples; Info.kerning/placement and the absolute pen positions are compared with a reference positioner written from the OpenType GPOS chapter. kern tables (format 0 and 2, coverage bits, several subtables) x all strings through apply_fallback and Font::shape against a byte-level reference reader.",
   note="Trusted: otmodel::gposenc encoders and reference positioner; documented drawing convention for right-to-left; where the specification is silent (kern 'minimum', unattached glyphs between cursive partners) the set of legitimate outcomes is accepted (listed as assumptions in the evidence); known deviations are attributed only when allsorts' output equals the reference run with exactly that deviation switched on.",
   technique="exhaustive choice-tree enumeration of positioning programs x encodings x strings x directions against an independent reference positioner"),
 "C04": dict(engine="mcx-choice-tree", cat="model_checking",
   text="18 000 (thorough 25 000) abstract GSUB programs over an 8-glyph universe - every lookup type 1-8 and subtable format, two-subtable lookups, alternates, 27 lookup-flag settings (none, the 7 single settings incl. both mark filtering sets and mark attachment types, 19 consistent pairs), contextual/chaining templates (formats 1/2/3, backtrack/lookahead, class 0 first glyph, first rule / first subtable wins) x 16 nested lookups at every sequence index, two-record combinations, nesting depth 1-5 and mutual recursion, ordered pairs of 16 (24) lookups x 13 feature configurations (both feature-list and lookup-list orders, rvrn), FeatureVariations x tuples at and around every range edge - are encoded by an independent encoder (Coverage 1/2, ClassDef 1/2, Extension as deviation choices) and applied to every glyph string up to length 4 (thorough 5; pairs 3/4) over {a,b,L,m1,m2} through gsub::apply (Features::Custom and Features::Mask) and Font::shape; glyph ids, unicodes, ligature/multiple-substitution flags and liga_component_pos are compared with a list-rewriting reference interpreter written from the OpenType GSUB chapter.",
   note="Trusted: otmodel::gsubenc encoder and reference interpreter; where the specification is silent the set {spec-literal, HarfBuzz} is accepted (listed as assumptions in the evidence: bookkeeping after nested length changes, empty Sequence tables, tuple None); tags fina/vert/vrt2/frac excluded; multi-script tables, required features and nested reverse-chaining lookups are not enumerated.",
   technique="exhaustive choice-tree enumeration of substitution programs x encodings x strings against an independent list-rewriting reference interpreter"),
 "C12": dict(engine="mcx-choice-tree", cat="model_checking",
   text="Seven families of synthetic TrueType variable fonts assembled by independent encoders (fvar, avar, gvar with shared/embedded peaks, intermediate regions, shared/private packed point numbers, every packed-delta run form, HVAR direct / DeltaSetIndexMap formats 0 and 1, MVAR with all value tags, ItemVariationStore): all 3-point and half (thorough all) of the 4-point coordinate sequences over {0,10,50,100} plus designed shapes with coincident neighbours x every referenced-point subset x phantom selections x delta patterns (IUP); all sets of 1-3 regions from a 10-region one-axis menu and 1-2 (3) regions from 35 two-axis regions x encoding profiles x axis kinds x avar; a 300-point glyph x packed-delta modes x run caps x point-number forms; 8 HVAR kinds x 4 MVAR kinds x phantom deltas x numberOfHMetrics; invalid regions; advances near the int16 edge. Each font is instanced at every region start/peak/end +-1 F2Dot14 unit, midpoints, thirds, 0, +-1 and beyond the axis range (thorough: all 32769 normalised values for 198 one-axis fonts); glyph points, composite offsets, advances, side bearings and MVAR metrics read back by an independent reader are compared with an exact rational evaluator (region scalars, sum of scalar x delta, IUP per contour, phantom points) to one font unit, exactly at the default, and the output must contain no variation tables and load as a static font.",
   note="Trusted: otmodel::varenc encoders (checked against the specification's packed point/delta examples) and rational evaluator; when HVAR disagrees with phantom-point deltas either source is accepted; a font with advances above 32767 may be refused; CFF2 blend is C18's business; composites with transforms, vertical metrics and bounding boxes are not checked.",
   technique="exhaustive enumeration of variable-font models x encodings x coordinates against an exact rational evaluation of the OpenType variation algorithm"),
 "C11": dict(engine="mcx-choice-tree", cat="model_checking",
   text="An independent WOFF2 encoder (W3C recommendation; stored-block brotli stream) produces: all 65 536 values of 255UInt16 under every valid encoding; every terminated UIntBase128 byte string of 1-3 (thorough 4) bytes plus menu strings up to 6 bytes with the mandated rejections; for each of the 128 triplet rows the deltas at the minimum and maximum magnitude of its range (thorough: +1, mid, -1 as well) with every admissible row, in first and second point position, on and off curve; four glyph sets (empty glyphs, 1-3 contours, loose bbox, instructions, composites with all 4 argument x 4 scale forms, all 30 on/off patterns of 1-4 points, stream sizes at the 255UInt16 boundaries) x numberOfHMetrics {1, n/2, n} x lsb patterns x permitted hmtx flags, with up to 2 (thorough 4) deviations among glyf/loca version 0 vs 3, loca format, bbox mode, triplet row choice, 255UInt16 mode, explicit tags, table order, extra tables, overlap bitmap, metadata/private blocks, flavour; collections of 1-3 fonts with shared/unshared tables; boundary glyph counts up to 65 535 and glyf sizes around 128 KB. Every file is decoded through Woff2Font/FontData and compared with the model: untransformed tables byte-identical, reconstructed glyf/loca/hmtx read by an independent parser describe identical contours, points, flags, instructions, bounding boxes, components and metrics.",
   note="Trusted: otmodel::woff2enc encoder and glyf parser; brotli-decompressor behind stored meta-blocks only; triplet rows varied one point at a time; hmtx transform next to an untransformed glyf may be reconstructed or cleanly refused; the OVERLAP_SIMPLE bit is not demanded.",
   technique="exhaustive choice-tree enumeration of encoder choices (deviation bounded) x glyph models against the model font"),
}

NOT_YET = {
}

def main():
    props = [json.loads(l) for l in open(os.path.join(ROOT, "properties.jsonl"))]
    hooks = subprocess.run(["git", "-C", "/repo", "log", "--format=%h %s"], capture_output=True, text=True).stdout.splitlines()
    hook_commits = [l.split()[0] for l in hooks if l.split(" ", 1)[1].startswith("verif-hooks")]
    checks, na = [], []
    served = {}
    for p in props:
        pid = p["id"]
        if pid in CHECKS:
            c = CHECKS[pid]
            served.setdefault(c["engine"], []).append(pid)
            checks.append({
                "property_id": pid,
                "quick_cmd": f"./run {pid} quick",
                "thorough_cmd": f"./run {pid} thorough",
                "evidence_file": f"evidence/{pid}.json",
                "replay_cmd_template": "./run replay {path}",
                "engine": c["engine"],
                "level_claimed": {"category": c["cat"], "text": c["text"], "design_ref": f"DESIGN.md section 4, {pid}"},
                "level_note": c["note"],
                "technique": c["technique"],
            })
        else:
            na.append({"property_id": pid, "reason": NOT_YET.get(pid, "check not built yet at this commit (work in progress, see DESIGN.md section 9); no claim is made")})
    engines = [
        {"name": "mcx-choice-tree", "path": "harness/mcx/src/explore.rs", "kind_free_text": "stateless deviation-bounded exhaustive choice-tree explorer over real code vs reference model"},
        {"name": "mcx-bfs", "path": "harness/mcx/src/search.rs", "kind_free_text": "explicit-state BFS to fixpoint, real code as the transition function, canonical state keys"},
        {"name": "mcx-fault-shards", "path": "harness/vcheck/src/faults.rs", "kind_free_text": "exhaustive fault enumeration (bounded number of faults) in isolated worker processes with watchdogs"},
    ]
    for e in engines:
        e["serves_properties"] = sorted(served.get(e["name"], []))
    m = {
        "version": 1,
        "setup_cmd": "./setup.sh",
        "hooks": {
            "guard": "cargo feature verif-hooks (allsorts/Cargo.toml [features]); off by default",
            "enable": "harness/vcheck/Cargo.toml: allsorts = { path = \"/repo\", features = [\"verif-hooks\", \"prince\"] }",
            "baseline_off_cmd": "cd /repo && cargo test --workspace --no-fail-fast --offline",
            "source_commits": hook_commits,
            "add_only": True,
        },
        "engines": engines,
        "checks": checks,
        "not_applicable": na,
        "notes": "All checks are bounded exhaustive exploration of real allsorts code against independent reference models (DESIGN.md). Known findings: KNOWN_FINDINGS.txt.",
    }
    json.dump(m, open(os.path.join(ROOT, "MANIFEST.json"), "w"), indent=1)
    print("MANIFEST.json:", len(checks), "checks,", len(na), "not claimed")

main()
