//! varenc — abstract model of a TrueType variable font, independent encoders for the variation tables
//! and the exact reference evaluator of the OpenType variation model. Never depends on allsorts.
//!
//! Written from the OpenType specification:
//!  * "OpenType Font Variations Overview", section "Algorithm for interpolation of instance values"
//!    (per-axis scalar, region scalar = product, value = default + sum scalar * delta);
//!  * "OpenType Font Variations Common Table Formats" (tuple variation store: tuple variation headers,
//!    embedded / shared peak tuples, intermediate regions, packed point numbers, packed deltas; item variation
//!    store; DeltaSetIndexMap);
//!  * gvar ("Inferred deltas for un-referenced point numbers", phantom points, composite glyphs);
//!  * fvar, avar, HVAR, MVAR, glyf, hmtx.
//!
//! All arithmetic of the evaluator is exact (reduced i128 rationals).

use crate::be::{R, W};
use crate::{sfnt, tables, tag};

// ------------------------------------------------------------------------------------------------ rationals

fn gcd(a: i128, b: i128) -> i128 {
    let (mut a, mut b) = (a.abs(), b.abs());
    while b != 0 {
        let t = a % b;
        a = b;
        b = t;
    }
    a
}

/// Exact rational number, always reduced, denominator > 0. Overflow of i128 is a machinery failure (panic).
#[derive(Clone, Copy, Debug, PartialEq, Eq)]
pub struct Rat {
    pub n: i128,
    pub d: i128,
}

impl Rat {
    pub const ZERO: Rat = Rat { n: 0, d: 1 };
    pub const ONE: Rat = Rat { n: 1, d: 1 };
    pub fn int(v: i64) -> Rat {
        Rat { n: v as i128, d: 1 }
    }
    pub fn new(n: i128, d: i128) -> Rat {
        assert!(d != 0, "machinery: rational with zero denominator");
        let g = gcd(n, d);
        let (mut n, mut d) = if g == 0 { (0, 1) } else { (n / g, d / g) };
        if d < 0 {
            n = -n;
            d = -d;
        }
        Rat { n, d }
    }
    pub fn add(self, o: Rat) -> Rat {
        if self.d == o.d {
            return Rat::new(self.n.checked_add(o.n).expect("rational overflow"), self.d);
        }
        let g = gcd(self.d, o.d);
        let l = self.d / g;
        let r = o.d / g;
        let n = self.n.checked_mul(r).and_then(|a| o.n.checked_mul(l).and_then(|b| a.checked_add(b))).expect("rational overflow");
        let d = self.d.checked_mul(r).expect("rational overflow");
        Rat::new(n, d)
    }
    pub fn neg(self) -> Rat {
        Rat { n: -self.n, d: self.d }
    }
    pub fn sub(self, o: Rat) -> Rat {
        self.add(o.neg())
    }
    pub fn mul(self, o: Rat) -> Rat {
        let g1 = gcd(self.n, o.d).max(1);
        let g2 = gcd(o.n, self.d).max(1);
        let n = (self.n / g1).checked_mul(o.n / g2).expect("rational overflow");
        let d = (self.d / g2).checked_mul(o.d / g1).expect("rational overflow");
        Rat::new(n, d)
    }
    pub fn is_zero(self) -> bool {
        self.n == 0
    }
    pub fn is_int(self) -> bool {
        self.d == 1
    }
    pub fn lt(self, o: Rat) -> bool {
        self.sub(o).n < 0
    }
    pub fn min(self, o: Rat) -> Rat {
        if o.lt(self) {
            o
        } else {
            self
        }
    }
    pub fn max(self, o: Rat) -> Rat {
        if self.lt(o) {
            o
        } else {
            self
        }
    }
    pub fn to_f64(self) -> f64 {
        self.n as f64 / self.d as f64
    }
    /// |got - self| <= tn/td ?
    pub fn within(self, got: i64, tn: i128, td: i128) -> bool {
        // |got*d - n| * td <= tn * d
        let diff = (got as i128).checked_mul(self.d).and_then(|x| x.checked_sub(self.n)).expect("rational overflow").abs();
        diff.checked_mul(td).expect("rational overflow") <= tn.checked_mul(self.d).expect("rational overflow")
    }
}

// ------------------------------------------------------------------------------------------------ model

/// One fvar axis; values are 16.16 raw.
#[derive(Clone, Debug, PartialEq, Eq)]
pub struct AxisDef {
    pub tag: u32,
    pub min: i32,
    pub def: i32,
    pub max: i32,
}

#[derive(Clone, Copy, Debug, PartialEq, Eq)]
pub struct Pt {
    pub x: i16,
    pub y: i16,
    pub on: bool,
}

/// Component positioned by an x/y offset (ARGS_ARE_XY_VALUES), no transform.
#[derive(Clone, Copy, Debug, PartialEq, Eq)]
pub struct Comp {
    pub gid: u16,
    pub dx: i16,
    pub dy: i16,
}

/// Component written exactly as given: any flags (MORE_COMPONENTS is managed by the encoder), any glyph id (composites,
/// the glyph itself, ids beyond numGlyphs), point-number or offset arguments, optional transform. For seed fonts of
/// the crash checks; the reference evaluator treats the arguments as offsets and never follows the glyph id.
#[derive(Clone, Debug, PartialEq, Eq)]
pub struct RawComp {
    /// component flags; bit 0 (ARG_1_AND_2_ARE_WORDS) and the transform bits decide the layout
    pub flags: u16,
    pub gid: u16,
    pub arg1: i16,
    pub arg2: i16,
    /// F2Dot14 raw values: 1 (0x0008), 2 (0x0040) or 4 (0x0080) entries as the flags say
    pub transform: Vec<i16>,
}

/// Instructions written after the last component of a `RawComposite` whose last component carries
/// WE_HAVE_INSTRUCTIONS (0x0100): PUSHB[2] 1 2, POP, POP, and an odd length on purpose.
pub const RAW_COMPOSITE_INSTRUCTIONS: [u8; 5] = [0xB1, 0x01, 0x02, 0x21, 0x21];

#[derive(Clone, Debug, PartialEq, Eq)]
pub enum Shape {
    Empty,
    /// contours, each a list of points (a contour may have a single point)
    Simple(Vec<Vec<Pt>>),
    Composite(Vec<Comp>),
    /// composite with a declared bounding box [xMin, yMin, xMax, yMax] whose components are not interpreted
    RawComposite([i16; 4], Vec<RawComp>),
}

impl Shape {
    /// number of "points" that gvar point numbers address, excluding the four phantom points
    pub fn num_points(&self) -> usize {
        match self {
            Shape::Empty => 0,
            Shape::Simple(c) => c.iter().map(|c| c.len()).sum(),
            Shape::Composite(c) => c.len(),
            Shape::RawComposite(_, c) => c.len(),
        }
    }
}

#[derive(Clone, Debug, PartialEq, Eq)]
pub struct GlyphDef {
    pub shape: Shape,
    pub advance: u16,
    pub lsb: i16,
}

/// (start, peak, end) per axis, F2Dot14 raw values.
pub type RegionAxes = Vec<(i16, i16, i16)>;

#[derive(Clone, Debug, PartialEq, Eq)]
pub enum PointSel {
    /// count byte 0: deltas for every point including the four phantom points
    All,
    /// explicit, strictly increasing point numbers
    List(Vec<u16>),
}

#[derive(Clone, Copy, Debug, PartialEq, Eq)]
pub enum PtWords {
    /// byte runs where the difference fits a byte, word runs otherwise
    Auto,
    /// every run stores words
    Always,
}

/// How a packed point number list is written.
#[derive(Clone, Copy, Debug, PartialEq, Eq)]
pub struct PtPack {
    pub words: PtWords,
    /// maximum number of points per run, 1..=128
    pub max_run: u8,
    /// write the count as two bytes (high bit set) even when it is below 128
    pub two_byte_count: bool,
}

impl Default for PtPack {
    fn default() -> Self {
        PtPack { words: PtWords::Auto, max_run: 128, two_byte_count: false }
    }
}

#[derive(Clone, Copy, Debug, PartialEq, Eq)]
pub enum DeltaMode {
    /// zero runs for zeros, byte runs for -128..=127, word runs otherwise
    Auto,
    /// zeros are stored as byte values (no DELTAS_ARE_ZERO runs)
    NoZeroRuns,
    /// every value is stored in word runs
    AllWords,
    /// like Auto, but a single zero between two byte values is absorbed into the byte run (what compilers do)
    AbsorbZeros,
}

#[derive(Clone, Copy, Debug, PartialEq, Eq)]
pub struct DeltaPack {
    pub mode: DeltaMode,
    /// maximum number of deltas per run, 1..=64
    pub max_run: u8,
}

impl Default for DeltaPack {
    fn default() -> Self {
        DeltaPack { mode: DeltaMode::Auto, max_run: 64 }
    }
}

#[derive(Clone, Debug, PartialEq, Eq)]
pub struct TupleVar {
    /// peak per axis (F2Dot14 raw)
    pub peak: Vec<i16>,
    /// intermediate region start / end tuples
    pub inter: Option<(Vec<i16>, Vec<i16>)>,
    pub points: PointSel,
    /// one (dx, dy) per selected point; for `All`: num_points + 4 entries
    pub deltas: Vec<(i16, i16)>,
    /// peak tuple embedded in the header (true) or an index into gvar's shared tuples (false)
    pub embed_peak: bool,
    /// private packed point numbers (true) or the glyph's shared point numbers (false)
    pub private_points: bool,
    pub pt_pack: PtPack,
    pub delta_pack: DeltaPack,
}

#[derive(Clone, Debug, PartialEq, Eq)]
pub struct GlyphVar {
    pub tuples: Vec<TupleVar>,
    /// shared point numbers stored at the start of the serialized data
    pub shared_points: Option<PointSel>,
    pub shared_pt_pack: PtPack,
}

#[derive(Clone, Debug, PartialEq, Eq)]
pub struct IvData {
    pub region_idx: Vec<u16>,
    /// one row per item, one delta per referenced region
    pub rows: Vec<Vec<i32>>,
    /// number of leading "word" columns
    pub word_count: u16,
    /// LONG_WORDS: word columns are int32 and the remaining columns int16
    pub long_words: bool,
}

#[derive(Clone, Debug, PartialEq, Eq)]
pub struct Ivs {
    pub regions: Vec<RegionAxes>,
    pub subtables: Vec<IvData>,
    /// lay the region list out after the item variation data subtables
    pub regions_last: bool,
}

#[derive(Clone, Debug, PartialEq, Eq)]
pub struct IndexMap {
    /// (outer, inner) per entry
    pub entries: Vec<(u16, u16)>,
    /// bits used for the inner index, 1..=16
    pub inner_bits: u8,
    /// bytes per entry, 1..=4
    pub entry_size: u8,
    /// 0 (uint16 mapCount) or 1 (uint32 mapCount)
    pub format: u8,
}

#[derive(Clone, Debug, PartialEq, Eq)]
pub struct Hvar {
    pub ivs: Ivs,
    pub adv: Option<IndexMap>,
    pub lsb: Option<IndexMap>,
    pub rsb: Option<IndexMap>,
}

#[derive(Clone, Debug, PartialEq, Eq)]
pub struct Mvar {
    pub ivs: Ivs,
    /// (value tag, outer, inner); the encoder sorts by tag
    pub records: Vec<(u32, u16, u16)>,
    /// valueRecordSize, >= 8
    pub record_size: u16,
}

/// One tuple variation of the cvar table: deltas for CVT entries ("point numbers" are CVT indices).
#[derive(Clone, Debug, PartialEq, Eq)]
pub struct CvarTuple {
    pub peak: Vec<i16>,
    pub inter: Option<(Vec<i16>, Vec<i16>)>,
    /// `All` = every CVT entry; otherwise strictly increasing CVT indices
    pub points: PointSel,
    /// one delta per selected CVT entry
    pub deltas: Vec<i16>,
    pub private_points: bool,
    /// low 12 bits of tupleIndex; ignored by readers because cvar peaks are always embedded
    pub index_bits: u16,
    pub pt_pack: PtPack,
    pub delta_pack: DeltaPack,
}

#[derive(Clone, Debug, PartialEq, Eq)]
pub struct Cvar {
    pub tuples: Vec<CvarTuple>,
    pub shared_points: Option<PointSel>,
    pub shared_pt_pack: PtPack,
}

#[derive(Clone, Debug, PartialEq, Eq)]
pub struct VarFont {
    pub axes: Vec<AxisDef>,
    /// avar segment maps (from, to) F2Dot14 raw, one per axis
    pub avar: Option<Vec<Vec<(i16, i16)>>>,
    pub glyphs: Vec<GlyphDef>,
    pub gvar: Vec<Option<GlyphVar>>,
    pub gvar_long_offsets: bool,
    /// extra shared tuples placed before the ones the glyphs use (so that indices are not all zero)
    pub gvar_shared_prefix: Vec<Vec<i16>>,
    pub hvar: Option<Hvar>,
    pub mvar: Option<Mvar>,
    /// hhea.numberOfHMetrics; None = numGlyphs
    pub num_h_metrics: Option<u16>,
    /// 'cvt ' table (FWORD values)
    pub cvt: Option<Vec<i16>>,
    pub cvar: Option<Cvar>,
    /// vertical metrics: vhea + vmtx (same numbers as hhea / hmtx) and a VVAR table (the font's HVAR data under the VVAR
    /// header, or a store without regions when the font has no HVAR)
    pub vertical: bool,
}

// ------------------------------------------------------------------------------------------------ reference evaluation

#[derive(Clone, Copy, Debug, Default, PartialEq, Eq)]
pub struct EvalOpts {
    /// deviation: skip the two validity clauses of the scalar algorithm (start > peak, peak > end; start < 0 < end with
    /// peak != 0), i.e. evaluate such regions literally
    pub no_region_validity_clauses: bool,
    /// deviation: inferred deltas are not computed (un-referenced points do not move)
    pub no_iup: bool,
}

/// Per-axis scalar of the "Algorithm for interpolation of instance values".
pub fn axis_scalar(start: i16, peak: i16, end: i16, c: i16, opts: &EvalOpts) -> Rat {
    let (s, p, e, c) = (start as i64, peak as i64, end as i64, c as i64);
    if !opts.no_region_validity_clauses {
        if s > p || p > e {
            return Rat::ONE;
        }
        if s < 0 && e > 0 && p != 0 {
            return Rat::ONE;
        }
    }
    if p == 0 {
        return Rat::ONE;
    }
    if c < s || c > e {
        return Rat::ZERO;
    }
    if c == p {
        return Rat::ONE;
    }
    if c < p {
        if p == s {
            return Rat::ONE;
        }
        Rat::new((c - s) as i128, (p - s) as i128)
    } else {
        if e == p {
            return Rat::ONE;
        }
        Rat::new((e - c) as i128, (e - p) as i128)
    }
}

pub fn region_scalar(region: &[(i16, i16, i16)], coords: &[i16], opts: &EvalOpts) -> Rat {
    let mut s = Rat::ONE;
    for (i, r) in region.iter().enumerate() {
        let a = axis_scalar(r.0, r.1, r.2, coords.get(i).copied().unwrap_or(0), opts);
        if a.is_zero() {
            return Rat::ZERO;
        }
        s = s.mul(a);
    }
    s
}

/// The region a tuple variation applies to: the intermediate start/end tuples if present, otherwise the region
/// from zero to the peak on every axis.
pub fn tuple_region(t: &TupleVar) -> RegionAxes {
    match &t.inter {
        Some((s, e)) => t.peak.iter().enumerate().map(|(i, p)| (s[i], *p, e[i])).collect(),
        None => t.peak.iter().map(|p| ((*p).min(0), *p, (*p).max(0))).collect(),
    }
}

/// Inferred delta in one direction for an un-referenced point whose adjacent referenced points have coordinates
/// `c1`, `c2` and deltas `d1`, `d2` (gvar, "Inferred deltas for un-referenced point numbers").
fn infer_1d(c1: i64, d1: i64, c2: i64, d2: i64, t: i64) -> Rat {
    if c1 == c2 {
        return if d1 == d2 { Rat::int(d1) } else { Rat::ZERO };
    }
    // order the two adjacent points by coordinate
    let (lo, dlo, hi, dhi) = if c1 < c2 { (c1, d1, c2, d2) } else { (c2, d2, c1, d1) };
    if t <= lo {
        Rat::int(dlo)
    } else if t >= hi {
        Rat::int(dhi)
    } else {
        // dlo + (t - lo) * (dhi - dlo) / (hi - lo)
        Rat::int(dlo).add(Rat::new(((t - lo) * (dhi - dlo)) as i128, (hi - lo) as i128))
    }
}

/// Deltas of one tuple variation for every point number (outline points then 4 phantom points), with inferred
/// deltas for un-referenced points of simple glyphs.
pub fn tuple_point_deltas(shape: &Shape, t: &TupleVar, opts: &EvalOpts) -> Vec<(Rat, Rat)> {
    let n = shape.num_points();
    let total = n + 4;
    let mut explicit: Vec<Option<(i16, i16)>> = vec![None; total];
    match &t.points {
        PointSel::All => {
            assert_eq!(t.deltas.len(), total, "machinery: 'all points' tuple needs num_points+4 deltas");
            for i in 0..total {
                explicit[i] = Some(t.deltas[i]);
            }
        }
        PointSel::List(l) => {
            assert_eq!(t.deltas.len(), l.len(), "machinery: one delta per listed point");
            for (k, p) in l.iter().enumerate() {
                assert!((*p as usize) < total, "machinery: point number out of range");
                explicit[*p as usize] = Some(t.deltas[k]);
            }
        }
    }
    let mut out: Vec<(Rat, Rat)> = explicit.iter().map(|e| e.map_or((Rat::ZERO, Rat::ZERO), |d| (Rat::int(d.0 as i64), Rat::int(d.1 as i64)))).collect();
    if let Shape::RawComposite(_, comps) = shape {
        // gvar, "Point numbers and processing for composite glyphs": a component positioned by point numbers
        // (ARGS_ARE_XY_VALUES clear) is not affected by deltas
        for (i, c) in comps.iter().enumerate() {
            if c.flags & 0x0002 == 0 {
                out[i] = (Rat::ZERO, Rat::ZERO);
            }
        }
    }
    if opts.no_iup {
        return out;
    }
    if let Shape::Simple(contours) = shape {
        let flat: Vec<Pt> = contours.iter().flatten().copied().collect();
        let mut first = 0usize;
        for c in contours {
            let len = c.len();
            let idx: Vec<usize> = (first..first + len).collect();
            first += len;
            let refd: Vec<usize> = idx.iter().copied().filter(|i| explicit[*i].is_some()).collect();
            if refd.is_empty() || refd.len() == len {
                continue;
            }
            if refd.len() == 1 {
                let d = explicit[refd[0]].unwrap();
                for i in &idx {
                    out[*i] = (Rat::int(d.0 as i64), Rat::int(d.1 as i64));
                }
                continue;
            }
            for &i in &idx {
                if explicit[i].is_some() {
                    continue;
                }
                // nearest referenced point before (lower number, else the highest referenced of the contour)
                let prev = refd.iter().copied().filter(|r| *r < i).max().unwrap_or(*refd.last().unwrap());
                // nearest referenced point after (higher number, else the lowest referenced of the contour)
                let next = refd.iter().copied().filter(|r| *r > i).min().unwrap_or(refd[0]);
                let (dp, dn) = (explicit[prev].unwrap(), explicit[next].unwrap());
                let x = infer_1d(flat[prev].x as i64, dp.0 as i64, flat[next].x as i64, dn.0 as i64, flat[i].x as i64);
                let y = infer_1d(flat[prev].y as i64, dp.1 as i64, flat[next].y as i64, dn.1 as i64, flat[i].y as i64);
                out[i] = (x, y);
            }
        }
    }
    out
}

/// Region of a cvar tuple (same rule as gvar: intermediate start/end, else zero..peak).
pub fn cvar_tuple_region(t: &CvarTuple) -> RegionAxes {
    match &t.inter {
        Some((s, e)) => t.peak.iter().enumerate().map(|(i, p)| (s[i], *p, e[i])).collect(),
        None => t.peak.iter().map(|p| ((*p).min(0), *p, (*p).max(0))).collect(),
    }
}

/// Largest CVT index a cvar table refers to explicitly.
pub fn cvar_max_index(c: &Cvar) -> Option<u16> {
    c.tuples.iter().filter_map(|t| if let PointSel::List(l) = &t.points { l.iter().copied().max() } else { None }).max()
}

/// Exact instanced CVT values: cvt[i] = default + sum over applicable tuples of scalar * delta (cvar: "the deltas
/// are applied to the CVT values"). None if the font has no cvt or a tuple refers to an index beyond it.
pub fn eval_cvt(font: &VarFont, coords: &[i16], opts: &EvalOpts) -> Option<Vec<Rat>> {
    let cvt = font.cvt.as_ref()?;
    let mut v: Vec<Rat> = cvt.iter().map(|x| Rat::int(*x as i64)).collect();
    if let Some(cv) = &font.cvar {
        for t in &cv.tuples {
            let idx: Vec<usize> = match &t.points {
                PointSel::All => (0..cvt.len()).collect(),
                PointSel::List(l) => l.iter().map(|i| *i as usize).collect(),
            };
            assert_eq!(idx.len(), t.deltas.len(), "machinery: one cvar delta per selected CVT entry");
            if idx.iter().any(|i| *i >= cvt.len()) {
                return None;
            }
            let s = region_scalar(&cvar_tuple_region(t), coords, opts);
            if s.is_zero() {
                continue;
            }
            for (k, i) in idx.iter().enumerate() {
                v[*i] = v[*i].add(s.mul(Rat::int(t.deltas[k] as i64)));
            }
        }
    }
    Some(v)
}

/// Default-master x extent minimum of a glyph (None for glyphs without contours).
pub fn default_xmin(font: &VarFont, gid: usize) -> Option<i64> {
    match &font.glyphs[gid].shape {
        Shape::Empty => None,
        Shape::Simple(c) => c.iter().flatten().map(|p| p.x as i64).min(),
        Shape::Composite(comps) => comps.iter().filter_map(|c| default_xmin(font, c.gid as usize).map(|m| m + c.dx as i64)).min(),
        Shape::RawComposite(b, _) => Some(b[0] as i64),
    }
}

/// Default-master bounding box [xMin, yMin, xMax, yMax].
pub fn default_bbox(font: &VarFont, gid: usize) -> Option<[i64; 4]> {
    match &font.glyphs[gid].shape {
        Shape::Empty => None,
        Shape::Simple(c) => {
            let pts: Vec<&Pt> = c.iter().flatten().collect();
            if pts.is_empty() {
                return None;
            }
            Some([
                pts.iter().map(|p| p.x as i64).min().unwrap(),
                pts.iter().map(|p| p.y as i64).min().unwrap(),
                pts.iter().map(|p| p.x as i64).max().unwrap(),
                pts.iter().map(|p| p.y as i64).max().unwrap(),
            ])
        }
        Shape::Composite(comps) => {
            let mut b: Option<[i64; 4]> = None;
            for c in comps {
                if let Some(cb) = default_bbox(font, c.gid as usize) {
                    let cb = [cb[0] + c.dx as i64, cb[1] + c.dy as i64, cb[2] + c.dx as i64, cb[3] + c.dy as i64];
                    b = Some(match b {
                        None => cb,
                        Some(b) => [b[0].min(cb[0]), b[1].min(cb[1]), b[2].max(cb[2]), b[3].max(cb[3])],
                    });
                }
            }
            b
        }
        Shape::RawComposite(b, _) => Some([b[0] as i64, b[1] as i64, b[2] as i64, b[3] as i64]),
    }
}

#[derive(Clone, Debug)]
pub struct GlyphEval {
    /// instanced outline points (simple) or component offsets (composite), in point-number order
    pub pts: Vec<(Rat, Rat)>,
    /// instanced x of the phantom points pp1 and pp2 (no vertical metrics are modelled)
    pub phantom_x: [Rat; 2],
    /// true if some applicable region carries a non-zero delta for this glyph
    pub moved: bool,
    /// number of regions with a non-zero scalar
    pub applicable: usize,
    /// some applicable tuple relies on inferred deltas
    pub inferred: bool,
}

/// A font with everything that does not depend on the coordinates evaluated once: per glyph and tuple the region and
/// the per-point deltas including inferred ones.
pub struct Prepared<'a> {
    pub font: &'a VarFont,
    pub opts: EvalOpts,
    tuples: Vec<Vec<(RegionAxes, Vec<(Rat, Rat)>, bool)>>,
    base: Vec<(Vec<(Rat, Rat)>, [Rat; 2])>,
}

impl<'a> Prepared<'a> {
    pub fn new(font: &'a VarFont, opts: EvalOpts) -> Prepared<'a> {
        let mut tuples = Vec::new();
        let mut base = Vec::new();
        for (gid, g) in font.glyphs.iter().enumerate() {
            let mut v = Vec::new();
            if let Some(Some(gv)) = font.gvar.get(gid) {
                for t in &gv.tuples {
                    let n = g.shape.num_points();
                    let partial = match (&t.points, &g.shape) {
                        (PointSel::List(l), Shape::Simple(_)) => l.iter().filter(|p| (**p as usize) < n).count() < n,
                        _ => false,
                    };
                    v.push((tuple_region(t), tuple_point_deltas(&g.shape, t, &opts), partial));
                }
            }
            tuples.push(v);
            let pts: Vec<(Rat, Rat)> = match &g.shape {
                Shape::Empty => vec![],
                Shape::Simple(c) => c.iter().flatten().map(|p| (Rat::int(p.x as i64), Rat::int(p.y as i64))).collect(),
                Shape::Composite(c) => c.iter().map(|c| (Rat::int(c.dx as i64), Rat::int(c.dy as i64))).collect(),
                Shape::RawComposite(_, c) => c.iter().map(|c| (Rat::int(c.arg1 as i64), Rat::int(c.arg2 as i64))).collect(),
            };
            // phantom points of the default master: pp1 = (xMin - lsb, 0), pp2 = (pp1.x + advance, 0)
            let xmin = default_xmin(font, gid).unwrap_or(0);
            let pp1 = xmin - g.lsb as i64;
            base.push((pts, [Rat::int(pp1), Rat::int(pp1 + g.advance as i64)]));
        }
        Prepared { font, opts, tuples, base }
    }

    pub fn eval_glyph(&self, gid: usize, coords: &[i16]) -> GlyphEval {
        let n = self.font.glyphs[gid].shape.num_points();
        let mut pts = self.base[gid].0.clone();
        let mut ph = self.base[gid].1;
        let mut moved = false;
        let mut inferred = false;
        let mut applicable = 0;
        for (region, d, partial) in &self.tuples[gid] {
            let s = region_scalar(region, coords, &self.opts);
            if s.is_zero() {
                continue;
            }
            applicable += 1;
            inferred |= *partial;
            for i in 0..n {
                if !d[i].0.is_zero() || !d[i].1.is_zero() {
                    moved = true;
                    pts[i] = (pts[i].0.add(s.mul(d[i].0)), pts[i].1.add(s.mul(d[i].1)));
                }
            }
            for k in 0..2 {
                if !d[n + k].0.is_zero() {
                    moved = true;
                    ph[k] = ph[k].add(s.mul(d[n + k].0));
                }
            }
        }
        GlyphEval { pts, phantom_x: ph, moved, applicable, inferred }
    }

    /// Exact xMin of the instanced glyph (None when it has no contours).
    pub fn instanced_xmin(&self, gid: usize, coords: &[i16]) -> Option<Rat> {
        let e = self.eval_glyph(gid, coords);
        match &self.font.glyphs[gid].shape {
            Shape::Empty => None,
            Shape::Simple(_) => e.pts.iter().map(|p| p.0).reduce(|a, b| a.min(b)),
            Shape::Composite(comps) => {
                let mut m: Option<Rat> = None;
                for (k, c) in comps.iter().enumerate() {
                    if let Some(cx) = self.instanced_xmin(c.gid as usize, coords) {
                        let v = cx.add(e.pts[k].0);
                        m = Some(m.map_or(v, |m| m.min(v)));
                    }
                }
                m
            }
            Shape::RawComposite(b, _) => Some(Rat::int(b[0] as i64)),
        }
    }

    /// Exact bounding box [xMin, yMin, xMax, yMax] of the instanced glyph over all its points, components
    /// (composites of composites included) translated by their instanced offsets. None without contours.
    pub fn instanced_bbox(&self, gid: usize, coords: &[i16]) -> Option<[Rat; 4]> {
        let e = self.eval_glyph(gid, coords);
        let join = |a: Option<[Rat; 4]>, b: [Rat; 4]| -> Option<[Rat; 4]> {
            Some(match a {
                None => b,
                Some(a) => [a[0].min(b[0]), a[1].min(b[1]), a[2].max(b[2]), a[3].max(b[3])],
            })
        };
        match &self.font.glyphs[gid].shape {
            Shape::Empty => None,
            Shape::Simple(_) => e.pts.iter().fold(None, |acc, p| join(acc, [p.0, p.1, p.0, p.1])),
            Shape::Composite(comps) => {
                let mut m = None;
                for (k, c) in comps.iter().enumerate() {
                    if let Some(cb) = self.instanced_bbox(c.gid as usize, coords) {
                        let (dx, dy) = e.pts[k];
                        m = join(m, [cb[0].add(dx), cb[1].add(dy), cb[2].add(dx), cb[3].add(dy)]);
                    }
                }
                m
            }
            Shape::RawComposite(b, _) => Some([Rat::int(b[0] as i64), Rat::int(b[1] as i64), Rat::int(b[2] as i64), Rat::int(b[3] as i64)]),
        }
    }
}

/// Net adjustment of one delta set of an item variation store: sum over the referenced regions of scalar * delta.
pub fn ivs_delta(ivs: &Ivs, outer: u16, inner: u16, coords: &[i16], opts: &EvalOpts) -> Option<Rat> {
    let sub = ivs.subtables.get(outer as usize)?;
    let row = sub.rows.get(inner as usize)?;
    let mut sum = Rat::ZERO;
    for (k, ri) in sub.region_idx.iter().enumerate() {
        let region = ivs.regions.get(*ri as usize)?;
        let s = region_scalar(region, coords, opts);
        if !s.is_zero() {
            sum = sum.add(s.mul(Rat::int(row[k] as i64)));
        }
    }
    Some(sum)
}

/// Entry of a DeltaSetIndexMap for `index`; an index beyond the map uses the last entry.
pub fn index_map_entry(m: &IndexMap, index: usize) -> Option<(u16, u16)> {
    if m.entries.is_empty() {
        return None;
    }
    Some(m.entries[index.min(m.entries.len() - 1)])
}

/// HVAR advance width delta for a glyph (None = index out of range).
pub fn hvar_advance_delta(h: &Hvar, gid: usize, coords: &[i16], opts: &EvalOpts) -> Option<Rat> {
    let (o, i) = match &h.adv {
        Some(m) => index_map_entry(m, gid)?,
        None => (0, gid as u16),
    };
    ivs_delta(&h.ivs, o, i, coords, opts)
}

/// HVAR left side bearing delta (None when HVAR has no LSB mapping).
pub fn hvar_lsb_delta(h: &Hvar, gid: usize, coords: &[i16], opts: &EvalOpts) -> Option<Rat> {
    let m = h.lsb.as_ref()?;
    let (o, i) = index_map_entry(m, gid)?;
    ivs_delta(&h.ivs, o, i, coords, opts)
}

pub fn mvar_delta(m: &Mvar, value_tag: u32, coords: &[i16], opts: &EvalOpts) -> Option<Rat> {
    let r = m.records.iter().find(|r| r.0 == value_tag)?;
    ivs_delta(&m.ivs, r.1, r.2, coords, opts)
}

/// Where an MVAR value tag lands: (table tag, byte offset of the 16-bit field, field is unsigned).
/// From the MVAR "Value tags" table, restricted to OS/2, hhea and post.
pub fn mvar_target(value_tag: u32) -> Option<(u32, usize, bool)> {
    let os2 = tag(b"OS/2");
    let hhea = tag(b"hhea");
    let post = tag(b"post");
    let t = |s: &[u8; 4]| tag(s);
    Some(match value_tag {
        x if x == t(b"hasc") => (os2, 68, false),
        x if x == t(b"hdsc") => (os2, 70, false),
        x if x == t(b"hlgp") => (os2, 72, false),
        x if x == t(b"hcla") => (os2, 74, true),
        x if x == t(b"hcld") => (os2, 76, true),
        x if x == t(b"xhgt") => (os2, 86, false),
        x if x == t(b"cpht") => (os2, 88, false),
        x if x == t(b"sbxs") => (os2, 10, false),
        x if x == t(b"sbys") => (os2, 12, false),
        x if x == t(b"sbxo") => (os2, 14, false),
        x if x == t(b"sbyo") => (os2, 16, false),
        x if x == t(b"spxs") => (os2, 18, false),
        x if x == t(b"spys") => (os2, 20, false),
        x if x == t(b"spxo") => (os2, 22, false),
        x if x == t(b"spyo") => (os2, 24, false),
        x if x == t(b"strs") => (os2, 26, false),
        x if x == t(b"stro") => (os2, 28, false),
        x if x == t(b"hcrs") => (hhea, 18, false),
        x if x == t(b"hcrn") => (hhea, 20, false),
        x if x == t(b"hcof") => (hhea, 22, false),
        x if x == t(b"undo") => (post, 8, false),
        x if x == t(b"unds") => (post, 10, false),
        _ => return None,
    })
}

/// Exact default normalisation + avar of one user coordinate (16.16 raw) in F2Dot14 units, as a rational.
pub fn normalise(axis: &AxisDef, map: Option<&[(i16, i16)]>, user: i64) -> Rat {
    let (min, def, max) = (axis.min as i64, axis.def as i64, axis.max as i64);
    let u = user.clamp(min, max);
    let mut v = if u < def {
        Rat::new(-((def - u) as i128) * 16384, (def - min) as i128)
    } else if u > def {
        Rat::new(((u - def) as i128) * 16384, (max - def) as i128)
    } else {
        Rat::ZERO
    };
    if let Some(k) = map {
        if k.len() >= 2 {
            for w in k.windows(2) {
                let (fs, ts, fe, te) = (w[0].0 as i64, w[0].1 as i64, w[1].0 as i64, w[1].1 as i64);
                if fe > fs && !v.lt(Rat::int(fs)) && !Rat::int(fe).lt(v) {
                    // ts + (v - fs) * (te - ts) / (fe - fs)
                    v = Rat::int(ts).add(v.sub(Rat::int(fs)).mul(Rat::new((te - ts) as i128, (fe - fs) as i128)));
                    break;
                }
            }
        }
    }
    v.max(Rat::int(-16384)).min(Rat::int(16384))
}

// ------------------------------------------------------------------------------------------------ packed encodings

pub fn pack_points(sel: &PointSel, pack: &PtPack) -> Vec<u8> {
    let mut w = W::new();
    let list = match sel {
        PointSel::All => {
            w.u8(0);
            return w.done();
        }
        PointSel::List(l) => l,
    };
    assert!(!list.is_empty() && list.len() < 0x8000, "machinery: explicit point list must have 1..32767 entries");
    assert!(list.windows(2).all(|p| p[0] < p[1]), "machinery: point numbers must increase");
    let n = list.len();
    if n < 128 && !pack.two_byte_count {
        w.u8(n as u8);
    } else {
        w.u8(0x80 | (n >> 8) as u8).u8((n & 0xFF) as u8);
    }
    let max_run = pack.max_run.clamp(1, 128) as usize;
    let mut diffs = Vec::with_capacity(n);
    let mut prev = 0u16;
    for p in list {
        diffs.push(p - prev);
        prev = *p;
    }
    let is_word = |d: u16| pack.words == PtWords::Always || d > 255;
    let mut i = 0;
    while i < n {
        let word = is_word(diffs[i]);
        let mut j = i + 1;
        while j < n && j - i < max_run && is_word(diffs[j]) == word {
            j += 1;
        }
        let count = j - i;
        w.u8(((count - 1) as u8) | if word { 0x80 } else { 0 });
        for d in &diffs[i..j] {
            if word {
                w.u16(*d);
            } else {
                w.u8(*d as u8);
            }
        }
        i = j;
    }
    w.done()
}

pub fn pack_deltas(vals: &[i16], pack: &DeltaPack) -> Vec<u8> {
    #[derive(PartialEq, Clone, Copy)]
    enum C {
        Zero,
        Byte,
        Word,
    }
    let n = vals.len();
    let mut cls: Vec<C> = vals
        .iter()
        .map(|v| match pack.mode {
            DeltaMode::AllWords => C::Word,
            DeltaMode::NoZeroRuns => {
                if (-128..=127).contains(v) {
                    C::Byte
                } else {
                    C::Word
                }
            }
            _ => {
                if *v == 0 {
                    C::Zero
                } else if (-128..=127).contains(v) {
                    C::Byte
                } else {
                    C::Word
                }
            }
        })
        .collect();
    if pack.mode == DeltaMode::AbsorbZeros {
        for i in 1..n.saturating_sub(1) {
            if cls[i] == C::Zero && cls[i - 1] == C::Byte && cls[i + 1] == C::Byte {
                cls[i] = C::Byte;
            }
        }
    }
    let max_run = pack.max_run.clamp(1, 64) as usize;
    let mut w = W::new();
    let mut i = 0;
    while i < n {
        let c = cls[i];
        let mut j = i + 1;
        while j < n && j - i < max_run && cls[j] == c {
            j += 1;
        }
        let count = (j - i - 1) as u8;
        match c {
            C::Zero => {
                w.u8(0x80 | count);
            }
            C::Byte => {
                w.u8(count);
                for v in &vals[i..j] {
                    w.i8(*v as i8);
                }
            }
            C::Word => {
                w.u8(0x40 | count);
                for v in &vals[i..j] {
                    w.i16(*v);
                }
            }
        }
        i = j;
    }
    w.done()
}

// ------------------------------------------------------------------------------------------------ table encoders

pub fn encode_fvar(axes: &[AxisDef]) -> Vec<u8> {
    let mut w = W::new();
    let n = axes.len() as u16;
    // majorVersion, minorVersion, axesArrayOffset, reserved (2), axisCount, axisSize, instanceCount, instanceSize
    w.u16(1).u16(0).u16(16).u16(2).u16(n).u16(20).u16(0).u16(4 * n + 4);
    for (i, a) in axes.iter().enumerate() {
        w.u32(a.tag).i32(a.min).i32(a.def).i32(a.max).u16(0).u16(256 + i as u16);
    }
    w.done()
}

pub fn encode_avar(maps: &[Vec<(i16, i16)>]) -> Vec<u8> {
    let mut w = W::new();
    w.u16(1).u16(0).u16(0).u16(maps.len() as u16);
    for m in maps {
        w.u16(m.len() as u16);
        for (f, t) in m {
            w.i16(*f).i16(*t);
        }
    }
    w.done()
}

/// GlyphVariationData table of one glyph.
fn encode_glyph_variation_data(gv: &GlyphVar, shared_index: &dyn Fn(&[i16]) -> u16, axis_count: usize) -> Vec<u8> {
    assert!(!gv.tuples.is_empty() && gv.tuples.len() <= 0x0FFF);
    // serialized data
    let mut data = W::new();
    if let Some(sp) = &gv.shared_points {
        data.bytes(&pack_points(sp, &gv.shared_pt_pack));
    }
    let mut headers = W::new();
    for t in &gv.tuples {
        assert_eq!(t.peak.len(), axis_count);
        let mut td = W::new();
        if t.private_points {
            td.bytes(&pack_points(&t.points, &t.pt_pack));
        } else {
            assert!(gv.shared_points.as_ref() == Some(&t.points), "machinery: tuple without private points must use the glyph's shared point numbers");
        }
        let xs: Vec<i16> = t.deltas.iter().map(|d| d.0).collect();
        let ys: Vec<i16> = t.deltas.iter().map(|d| d.1).collect();
        td.bytes(&pack_deltas(&xs, &t.delta_pack));
        td.bytes(&pack_deltas(&ys, &t.delta_pack));
        let td = td.done();
        assert!(td.len() <= 0xFFFF);
        let mut flags: u16 = 0;
        if t.embed_peak {
            flags |= 0x8000;
        } else {
            flags |= shared_index(&t.peak) & 0x0FFF;
        }
        if t.inter.is_some() {
            flags |= 0x4000;
        }
        if t.private_points {
            flags |= 0x2000;
        }
        headers.u16(td.len() as u16).u16(flags);
        if t.embed_peak {
            for p in &t.peak {
                headers.i16(*p);
            }
        }
        if let Some((s, e)) = &t.inter {
            assert!(s.len() == axis_count && e.len() == axis_count);
            for v in s {
                headers.i16(*v);
            }
            for v in e {
                headers.i16(*v);
            }
        }
        data.bytes(&td);
    }
    let headers = headers.done();
    let mut w = W::new();
    let count_field = gv.tuples.len() as u16 | if gv.shared_points.is_some() { 0x8000 } else { 0 };
    w.u16(count_field).u16((4 + headers.len()) as u16);
    w.bytes(&headers).bytes(&data.done());
    w.done()
}

pub fn encode_gvar(font: &VarFont) -> Vec<u8> {
    let axis_count = font.axes.len();
    // shared tuples: the prefix, then every non-embedded peak in order of first use
    let mut shared: Vec<Vec<i16>> = font.gvar_shared_prefix.clone();
    for gv in font.gvar.iter().flatten() {
        for t in &gv.tuples {
            if !t.embed_peak && !shared.contains(&t.peak) {
                shared.push(t.peak.clone());
            }
        }
    }
    assert!(shared.len() <= 0x0FFF);
    let lookup = |p: &[i16]| shared.iter().position(|s| s.as_slice() == p).expect("shared tuple") as u16;
    let n = font.glyphs.len();
    let mut blobs: Vec<Vec<u8>> = Vec::with_capacity(n);
    for g in 0..n {
        match font.gvar.get(g).and_then(|x| x.as_ref()) {
            Some(gv) => {
                let mut b = encode_glyph_variation_data(gv, &lookup, axis_count);
                if !font.gvar_long_offsets && b.len() % 2 != 0 {
                    b.push(0);
                }
                blobs.push(b);
            }
            None => blobs.push(Vec::new()),
        }
    }
    let offsets_len = (n + 1) * if font.gvar_long_offsets { 4 } else { 2 };
    let shared_off = 20 + offsets_len;
    let data_off = shared_off + shared.len() * axis_count * 2;
    let mut w = W::new();
    w.u16(1).u16(0).u16(axis_count as u16).u16(shared.len() as u16).u32(shared_off as u32);
    w.u16(n as u16).u16(if font.gvar_long_offsets { 1 } else { 0 }).u32(data_off as u32);
    let mut pos = 0usize;
    for g in 0..=n {
        if font.gvar_long_offsets {
            w.u32(pos as u32);
        } else {
            assert!(pos / 2 <= 0xFFFF);
            w.u16((pos / 2) as u16);
        }
        if g < n {
            pos += blobs[g].len();
        }
    }
    for s in &shared {
        assert_eq!(s.len(), axis_count);
        for v in s {
            w.i16(*v);
        }
    }
    for b in &blobs {
        w.bytes(b);
    }
    w.done()
}

/// cvar: version 1.0, tuple variation store whose peaks are always embedded; the serialized data holds packed
/// "point" numbers (CVT indices) and one packed delta array per tuple. dataOffset is from the start of the table.
pub fn encode_cvar(c: &Cvar, axis_count: usize) -> Vec<u8> {
    assert!(!c.tuples.is_empty() && c.tuples.len() <= 0x0FFF);
    let mut data = W::new();
    if let Some(sp) = &c.shared_points {
        data.bytes(&pack_points(sp, &c.shared_pt_pack));
    }
    let mut headers = W::new();
    for t in &c.tuples {
        assert_eq!(t.peak.len(), axis_count);
        let mut td = W::new();
        if t.private_points {
            td.bytes(&pack_points(&t.points, &t.pt_pack));
        } else {
            assert!(c.shared_points.as_ref() == Some(&t.points), "machinery: tuple without private points must use the shared point numbers");
        }
        td.bytes(&pack_deltas(&t.deltas, &t.delta_pack));
        let td = td.done();
        assert!(td.len() <= 0xFFFF);
        let flags: u16 = 0x8000 | if t.inter.is_some() { 0x4000 } else { 0 } | if t.private_points { 0x2000 } else { 0 } | (t.index_bits & 0x0FFF);
        headers.u16(td.len() as u16).u16(flags);
        for p in &t.peak {
            headers.i16(*p);
        }
        if let Some((s, e)) = &t.inter {
            assert!(s.len() == axis_count && e.len() == axis_count);
            for v in s.iter().chain(e.iter()) {
                headers.i16(*v);
            }
        }
        data.bytes(&td);
    }
    let headers = headers.done();
    let mut w = W::new();
    w.u16(1).u16(0);
    w.u16(c.tuples.len() as u16 | if c.shared_points.is_some() { 0x8000 } else { 0 }).u16((8 + headers.len()) as u16);
    w.bytes(&headers).bytes(&data.done());
    w.done()
}

pub fn encode_ivs(ivs: &Ivs, axis_count: usize) -> Vec<u8> {
    let mut regions = W::new();
    regions.u16(axis_count as u16).u16(ivs.regions.len() as u16);
    for r in &ivs.regions {
        assert_eq!(r.len(), axis_count);
        for a in r {
            regions.i16(a.0).i16(a.1).i16(a.2);
        }
    }
    let regions = regions.done();
    let mut subs: Vec<Vec<u8>> = Vec::new();
    for s in &ivs.subtables {
        let mut w = W::new();
        let k = s.region_idx.len();
        assert!(s.word_count as usize <= k);
        w.u16(s.rows.len() as u16).u16(s.word_count | if s.long_words { 0x8000 } else { 0 }).u16(k as u16);
        for r in &s.region_idx {
            w.u16(*r);
        }
        for row in &s.rows {
            assert_eq!(row.len(), k);
            for (c, v) in row.iter().enumerate() {
                let word = c < s.word_count as usize;
                match (s.long_words, word) {
                    (false, true) => {
                        assert!((-32768..=32767).contains(v));
                        w.i16(*v as i16);
                    }
                    (false, false) => {
                        assert!((-128..=127).contains(v), "machinery: delta {} does not fit an int8 column", v);
                        w.i8(*v as i8);
                    }
                    (true, true) => {
                        w.i32(*v);
                    }
                    (true, false) => {
                        assert!((-32768..=32767).contains(v));
                        w.i16(*v as i16);
                    }
                }
            }
        }
        subs.push(w.done());
    }
    let header_len = 8 + 4 * subs.len();
    let mut w = W::new();
    let subs_len: usize = subs.iter().map(|s| s.len()).sum();
    let (region_off, mut sub_off) = if ivs.regions_last { (header_len + subs_len, header_len) } else { (header_len, header_len + regions.len()) };
    w.u16(1).u32(region_off as u32).u16(subs.len() as u16);
    for s in &subs {
        w.u32(sub_off as u32);
        sub_off += s.len();
    }
    if !ivs.regions_last {
        w.bytes(&regions);
    }
    for s in &subs {
        w.bytes(s);
    }
    if ivs.regions_last {
        w.bytes(&regions);
    }
    w.done()
}

pub fn encode_index_map(m: &IndexMap) -> Vec<u8> {
    assert!((1..=16).contains(&m.inner_bits) && (1..=4).contains(&m.entry_size));
    let mut w = W::new();
    w.u8(m.format).u8(((m.entry_size - 1) << 4) | (m.inner_bits - 1));
    if m.format == 0 {
        w.u16(m.entries.len() as u16);
    } else {
        w.u32(m.entries.len() as u32);
    }
    for (o, i) in &m.entries {
        assert!((*i as u32) < (1u32 << m.inner_bits), "machinery: inner index does not fit");
        let v: u64 = ((*o as u64) << m.inner_bits) | *i as u64;
        assert!(v < (1u64 << (8 * m.entry_size as u32)), "machinery: entry does not fit its size");
        let b = v.to_be_bytes();
        w.bytes(&b[8 - m.entry_size as usize..]);
    }
    w.done()
}

pub fn encode_hvar(h: &Hvar, axis_count: usize) -> Vec<u8> {
    let ivs = encode_ivs(&h.ivs, axis_count);
    let maps: Vec<Option<Vec<u8>>> = [&h.adv, &h.lsb, &h.rsb].iter().map(|m| m.as_ref().map(encode_index_map)).collect();
    let mut w = W::new();
    w.u16(1).u16(0);
    let mut off = 20usize;
    w.u32(off as u32);
    off += ivs.len();
    for m in &maps {
        match m {
            Some(b) => {
                w.u32(off as u32);
                off += b.len();
            }
            None => {
                w.u32(0);
            }
        }
    }
    w.bytes(&ivs);
    for m in maps.iter().flatten() {
        w.bytes(m);
    }
    w.done()
}

/// VVAR: the HVAR layout with a fourth mapping offset (vOrgMapping, absent here) in the header; without HVAR data an
/// ItemVariationStore that has no regions and no data.
pub fn encode_vvar(h: Option<&Hvar>, axis_count: usize) -> Vec<u8> {
    match h {
        Some(h) => {
            let hv = encode_hvar(h, axis_count);
            let mut w = W::new();
            w.u16(1).u16(0);
            for k in 0..4 {
                let o = u32::from_be_bytes([hv[4 + 4 * k], hv[5 + 4 * k], hv[6 + 4 * k], hv[7 + 4 * k]]);
                w.u32(if o == 0 { 0 } else { o + 4 });
            }
            w.u32(0);
            w.bytes(&hv[20..]);
            w.done()
        }
        None => {
            let mut w = W::new();
            w.u16(1).u16(0).u32(24).u32(0).u32(0).u32(0).u32(0);
            w.u16(1).u32(8).u16(0); // ItemVariationStore: format, regionListOffset, dataCount
            w.u16(axis_count as u16).u16(0); // region list: axisCount, regionCount
            w.done()
        }
    }
}

pub fn encode_mvar(m: &Mvar, axis_count: usize) -> Vec<u8> {
    assert!(m.record_size >= 8);
    let mut recs = m.records.clone();
    recs.sort_by_key(|r| r.0);
    let mut w = W::new();
    let ivs_off = 12 + recs.len() * m.record_size as usize;
    w.u16(1).u16(0).u16(0).u16(m.record_size).u16(recs.len() as u16).u16(ivs_off as u16);
    for r in &recs {
        w.u32(r.0).u16(r.1).u16(r.2);
        for _ in 8..m.record_size {
            w.u8(0xEE);
        }
    }
    w.bytes(&encode_ivs(&m.ivs, axis_count));
    w.done()
}

/// One glyph record of the glyf table (coordinates always stored as words; no instructions).
pub fn encode_glyph(font: &VarFont, gid: usize) -> Vec<u8> {
    let g = &font.glyphs[gid];
    let mut w = W::new();
    match &g.shape {
        Shape::Empty | Shape::RawComposite(..) => {}
        Shape::Simple(contours) => {
            let b = default_bbox(font, gid).unwrap_or([0; 4]);
            w.i16(contours.len() as i16).i16(b[0] as i16).i16(b[1] as i16).i16(b[2] as i16).i16(b[3] as i16);
            let mut end = 0usize;
            for c in contours {
                assert!(!c.is_empty());
                end += c.len();
                w.u16((end - 1) as u16);
            }
            w.u16(0); // instructionLength
            let pts: Vec<&Pt> = contours.iter().flatten().collect();
            for p in &pts {
                w.u8(if p.on { 1 } else { 0 });
            }
            let mut prev = 0i32;
            for p in &pts {
                w.i16((p.x as i32 - prev) as i16);
                prev = p.x as i32;
            }
            let mut prev = 0i32;
            for p in &pts {
                w.i16((p.y as i32 - prev) as i16);
                prev = p.y as i32;
            }
        }
        Shape::Composite(comps) => {
            let b = default_bbox(font, gid).unwrap_or([0; 4]);
            w.i16(-1).i16(b[0] as i16).i16(b[1] as i16).i16(b[2] as i16).i16(b[3] as i16);
            for (k, c) in comps.iter().enumerate() {
                let more = k + 1 < comps.len();
                let small = (-128..=127).contains(&c.dx) && (-128..=127).contains(&c.dy);
                // ARGS_ARE_XY_VALUES | ROUND_XY_TO_GRID (| ARG_1_AND_2_ARE_WORDS) (| MORE_COMPONENTS)
                let flags: u16 = 0x0002 | 0x0004 | if small { 0 } else { 0x0001 } | if more { 0x0020 } else { 0 };
                w.u16(flags).u16(c.gid);
                if small {
                    w.i8(c.dx as i8).i8(c.dy as i8);
                } else {
                    w.i16(c.dx).i16(c.dy);
                }
            }
        }
    }
    if let Shape::RawComposite(b, comps) = &g.shape {
        w.i16(-1).i16(b[0]).i16(b[1]).i16(b[2]).i16(b[3]);
        for (k, c) in comps.iter().enumerate() {
            let flags = (c.flags & !0x0020) | if k + 1 < comps.len() { 0x0020 } else { 0 };
            w.u16(flags).u16(c.gid);
            if flags & 0x0001 != 0 {
                w.i16(c.arg1).i16(c.arg2);
            } else {
                w.u8(c.arg1 as u8).u8(c.arg2 as u8);
            }
            let k = if flags & 0x0008 != 0 {
                1
            } else if flags & 0x0040 != 0 {
                2
            } else if flags & 0x0080 != 0 {
                4
            } else {
                0
            };
            assert_eq!(c.transform.len(), k, "machinery: transform entries must match the flags");
            for t in &c.transform {
                w.i16(*t);
            }
        }
        if comps.last().map_or(false, |c| c.flags & 0x0100 != 0) {
            w.u16(RAW_COMPOSITE_INSTRUCTIONS.len() as u16).bytes(&RAW_COMPOSITE_INSTRUCTIONS);
        }
    }
    w.pad_to(4);
    w.done()
}

pub fn encode_glyf_loca(font: &VarFont) -> (Vec<u8>, Vec<u8>) {
    let mut glyf = W::new();
    let mut loca = W::new();
    for g in 0..font.glyphs.len() {
        loca.u32(glyf.len() as u32);
        glyf.bytes(&encode_glyph(font, g));
    }
    loca.u32(glyf.len() as u32);
    (glyf.done(), loca.done())
}

pub fn encode_name(entries: &[(u16, &str)]) -> Vec<u8> {
    let mut e: Vec<(u16, Vec<u8>)> = entries.iter().map(|(id, s)| (*id, s.encode_utf16().flat_map(|u| u.to_be_bytes()).collect())).collect();
    e.sort_by_key(|x| x.0);
    let mut w = W::new();
    w.u16(0).u16(e.len() as u16).u16((6 + 12 * e.len()) as u16);
    let mut off = 0usize;
    for (id, s) in &e {
        w.u16(3).u16(1).u16(0x0409).u16(*id).u16(s.len() as u16).u16(off as u16);
        off += s.len();
    }
    for (_, s) in &e {
        w.bytes(s);
    }
    w.done()
}

fn encode_maxp(font: &VarFont) -> Vec<u8> {
    let mut max_pts = 0usize;
    let mut max_ctr = 0usize;
    let mut max_cpts = 0usize;
    let mut max_cctr = 0usize;
    let mut max_comp = 0usize;
    let mut max_depth = 1usize;
    for g in &font.glyphs {
        match &g.shape {
            Shape::Simple(c) => {
                max_pts = max_pts.max(c.iter().map(|c| c.len()).sum());
                max_ctr = max_ctr.max(c.len());
            }
            Shape::Composite(comps) => {
                // (points, contours, depth) of the flattened composite
                fn flat(font: &VarFont, comps: &[Comp], level: usize) -> (usize, usize, usize) {
                    let (mut p, mut k, mut d) = (0, 0, level);
                    if level > 16 {
                        return (p, k, d);
                    }
                    for c in comps {
                        match font.glyphs.get(c.gid as usize).map(|g| &g.shape) {
                            Some(Shape::Simple(cc)) => {
                                p += cc.iter().map(|c| c.len()).sum::<usize>();
                                k += cc.len();
                            }
                            Some(Shape::Composite(inner)) => {
                                let (ip, ik, id) = flat(font, inner, level + 1);
                                p += ip;
                                k += ik;
                                d = d.max(id);
                            }
                            _ => {}
                        }
                    }
                    (p, k, d)
                }
                let (p, k, d) = flat(font, comps, 1);
                max_cpts = max_cpts.max(p);
                max_cctr = max_cctr.max(k);
                max_comp = max_comp.max(comps.len());
                max_depth = max_depth.max(d);
            }
            Shape::RawComposite(_, comps) => {
                max_comp = max_comp.max(comps.len());
                max_depth = 16;
            }
            Shape::Empty => {}
        }
    }
    let mut w = W::new();
    w.u32(0x0001_0000).u16(font.glyphs.len() as u16);
    for v in [max_pts, max_ctr, max_cpts, max_cctr, 1, 0, 0, 0, 0, 0, 0, max_comp, if max_comp > 0 { max_depth } else { 0 }] {
        w.u16(v as u16);
    }
    w.done()
}

/// The tables of the model font.
pub fn build_tables(font: &VarFont) -> Vec<(u32, Vec<u8>)> {
    let n = font.glyphs.len() as u16;
    let nhm = font.num_h_metrics.unwrap_or(n);
    assert!(nhm >= 1 && nhm <= n);
    for g in nhm as usize..n as usize {
        assert_eq!(font.glyphs[g].advance, font.glyphs[nhm as usize - 1].advance, "machinery: glyphs beyond numberOfHMetrics share the last advance");
    }
    let metrics: Vec<(u16, i16)> = font.glyphs[..nhm as usize].iter().map(|g| (g.advance, g.lsb)).collect();
    let extra: Vec<i16> = font.glyphs[nhm as usize..].iter().map(|g| g.lsb).collect();
    let (glyf, loca) = encode_glyf_loca(font);
    let cmap: Vec<(u16, u16)> = (1..n).map(|g| (0x40 + g, g)).collect();
    let mut t: Vec<(u32, Vec<u8>)> = vec![
        (tag(b"head"), tables::head(1000, 1)),
        (tag(b"maxp"), encode_maxp(font)),
        (tag(b"hhea"), tables::hhea(nhm)),
        (tag(b"hmtx"), tables::hmtx(&metrics, &extra)),
        (tag(b"cmap"), tables::cmap_table(&[(3, 1, tables::cmap4_subtable(&cmap))])),
        (tag(b"post"), tables::post3()),
        (tag(b"name"), encode_name(&[(1, "VarModel"), (2, "Regular"), (4, "VarModel Regular"), (6, "VarModel-Regular")])),
        (tag(b"OS/2"), tables::os2_v4(0x41, 0x40 + n.saturating_sub(1))),
        (tag(b"glyf"), glyf),
        (tag(b"loca"), loca),
        (tag(b"fvar"), encode_fvar(&font.axes)),
    ];
    t.push((tag(b"gvar"), encode_gvar(font)));
    if let Some(a) = &font.avar {
        t.push((tag(b"avar"), encode_avar(a)));
    }
    if let Some(h) = &font.hvar {
        t.push((tag(b"HVAR"), encode_hvar(h, font.axes.len())));
    }
    if let Some(m) = &font.mvar {
        t.push((tag(b"MVAR"), encode_mvar(m, font.axes.len())));
    }
    if font.vertical {
        t.push((tag(b"vhea"), { let mut v = tables::hhea(nhm); v[1] = 1; v[2] = 0x10; v }));
        t.push((tag(b"vmtx"), tables::hmtx(&metrics, &extra)));
        t.push((tag(b"VVAR"), encode_vvar(font.hvar.as_ref(), font.axes.len())));
    }
    if let Some(c) = &font.cvt {
        let mut w = W::new();
        for v in c {
            w.i16(*v);
        }
        t.push((tag(b"cvt "), w.done()));
    }
    if let Some(c) = &font.cvar {
        t.push((tag(b"cvar"), encode_cvar(c, font.axes.len())));
    }
    t
}

pub fn build_font(font: &VarFont) -> Vec<u8> {
    sfnt::build(sfnt::TTF, &build_tables(font))
}

// ------------------------------------------------------------------------------------------------ independent glyf reader

#[derive(Clone, Debug, PartialEq, Eq)]
pub struct OutComp {
    pub flags: u16,
    pub gid: u16,
    pub arg1: i32,
    pub arg2: i32,
    /// raw F2Dot14 transform entries if any (1, 2 or 4 values)
    pub transform: Vec<i16>,
}

#[derive(Clone, Debug, PartialEq, Eq)]
pub enum OutGlyph {
    Empty,
    Simple { bbox: [i16; 4], contours: Vec<Vec<(i32, i32, bool)>> },
    Composite { bbox: [i16; 4], comps: Vec<OutComp>, instructions: Vec<u8> },
}

/// Parse one glyph record per the glyf specification. None = malformed.
pub fn read_glyph(rec: &[u8]) -> Option<OutGlyph> {
    if rec.is_empty() {
        return Some(OutGlyph::Empty);
    }
    let mut r = R::new(rec);
    let nc = r.i16()?;
    let bbox = [r.i16()?, r.i16()?, r.i16()?, r.i16()?];
    if nc >= 0 {
        let mut ends = Vec::new();
        for _ in 0..nc {
            ends.push(r.u16()? as usize);
        }
        let npts = ends.last().map_or(0, |e| e + 1);
        let ni = r.u16()? as usize;
        r.take(ni)?;
        let mut flags: Vec<u8> = Vec::with_capacity(npts);
        while flags.len() < npts {
            let f = r.u8()?;
            flags.push(f);
            if f & 0x08 != 0 {
                let rep = r.u8()?;
                for _ in 0..rep {
                    flags.push(f);
                }
            }
        }
        if flags.len() != npts {
            return None;
        }
        let mut xs = Vec::with_capacity(npts);
        let mut v = 0i32;
        for f in &flags {
            if f & 0x02 != 0 {
                let d = r.u8()? as i32;
                v += if f & 0x10 != 0 { d } else { -d };
            } else if f & 0x10 == 0 {
                v += r.i16()? as i32;
            }
            xs.push(v);
        }
        let mut ys = Vec::with_capacity(npts);
        let mut v = 0i32;
        for f in &flags {
            if f & 0x04 != 0 {
                let d = r.u8()? as i32;
                v += if f & 0x20 != 0 { d } else { -d };
            } else if f & 0x20 == 0 {
                v += r.i16()? as i32;
            }
            ys.push(v);
        }
        let mut contours = Vec::new();
        let mut start = 0usize;
        for e in ends {
            if e + 1 < start || e >= npts {
                return None;
            }
            contours.push((start..=e).map(|i| (xs[i], ys[i], flags[i] & 1 != 0)).collect());
            start = e + 1;
        }
        Some(OutGlyph::Simple { bbox, contours })
    } else {
        let mut comps = Vec::new();
        loop {
            let flags = r.u16()?;
            let gid = r.u16()?;
            let (a1, a2) = if flags & 0x0001 != 0 {
                if flags & 0x0002 != 0 {
                    (r.i16()? as i32, r.i16()? as i32)
                } else {
                    (r.u16()? as i32, r.u16()? as i32)
                }
            } else if flags & 0x0002 != 0 {
                (r.i8()? as i32, r.i8()? as i32)
            } else {
                (r.u8()? as i32, r.u8()? as i32)
            };
            let mut transform = Vec::new();
            let k = if flags & 0x0008 != 0 {
                1
            } else if flags & 0x0040 != 0 {
                2
            } else if flags & 0x0080 != 0 {
                4
            } else {
                0
            };
            for _ in 0..k {
                transform.push(r.i16()?);
            }
            comps.push(OutComp { flags, gid, arg1: a1, arg2: a2, transform });
            if flags & 0x0020 == 0 {
                break;
            }
            if comps.len() > 4096 {
                return None;
            }
        }
        // WE_HAVE_INSTRUCTIONS on the last component: instructions follow
        let mut instructions = Vec::new();
        if comps.last().map_or(false, |c| c.flags & 0x0100 != 0) {
            let n = r.u16()? as usize;
            instructions = r.take(n)?.to_vec();
        }
        // nothing but up to three bytes of zero padding may follow
        let rest = &rec[r.p..];
        if rest.len() > 3 || rest.iter().any(|b| *b != 0) {
            return None;
        }
        Some(OutGlyph::Composite { bbox, comps, instructions })
    }
}

/// All glyphs of a static TrueType font plus (advance, lsb) per glyph.
pub struct StaticFont {
    pub glyphs: Vec<OutGlyph>,
    pub metrics: Vec<(u16, i16)>,
    pub tags: Vec<u32>,
}

pub fn read_static(data: &[u8]) -> Result<StaticFont, String> {
    let f = sfnt::parse(data).ok_or("sfnt directory unreadable")?;
    let b = crate::read::basics(&f)?;
    let loca = f.table(tag(b"loca")).ok_or("no loca")?;
    let glyf = f.table(tag(b"glyf")).ok_or("no glyf")?;
    let hmtx = f.table(tag(b"hmtx")).ok_or("no hmtx")?;
    let offs = crate::read::loca_offsets(loca, b.num_glyphs, b.index_to_loc_format == 1).ok_or("loca too short")?;
    let mut glyphs = Vec::new();
    for (g, w) in offs.windows(2).enumerate() {
        let rec = glyf.get(w[0] as usize..w[1] as usize).ok_or(format!("glyph {} outside glyf", g))?;
        glyphs.push(read_glyph(rec).ok_or(format!("glyph {} malformed", g))?);
    }
    let metrics = crate::read::hmtx_metrics(hmtx, b.num_glyphs, b.num_h_metrics).ok_or("hmtx too short")?;
    Ok(StaticFont { glyphs, metrics, tags: f.tags() })
}

/// xMin of a glyph of a static font as a renderer would see it (components translated by their offsets).
pub fn static_xmin(sf: &StaticFont, gid: usize, depth: u32) -> Option<i64> {
    if depth > 8 {
        return None;
    }
    match sf.glyphs.get(gid)? {
        OutGlyph::Empty => None,
        OutGlyph::Simple { contours, .. } => contours.iter().flatten().map(|p| p.0 as i64).min(),
        OutGlyph::Composite { comps, .. } => comps.iter().filter_map(|c| static_xmin(sf, c.gid as usize, depth + 1).map(|m| m + c.arg1 as i64)).min(),
    }
}

/// Bounding box [xMin, yMin, xMax, yMax] of the flattened outline of a glyph of a static font (components, nested
/// ones included, translated by their offsets; transforms are not modelled).
pub fn static_bbox(sf: &StaticFont, gid: usize, depth: u32) -> Option<[i64; 4]> {
    if depth > 8 {
        return None;
    }
    let join = |a: Option<[i64; 4]>, b: [i64; 4]| -> Option<[i64; 4]> {
        Some(match a {
            None => b,
            Some(a) => [a[0].min(b[0]), a[1].min(b[1]), a[2].max(b[2]), a[3].max(b[3])],
        })
    };
    match sf.glyphs.get(gid)? {
        OutGlyph::Empty => None,
        OutGlyph::Simple { contours, .. } => contours.iter().flatten().fold(None, |acc, p| join(acc, [p.0 as i64, p.1 as i64, p.0 as i64, p.1 as i64])),
        OutGlyph::Composite { comps, .. } => {
            let mut m = None;
            for c in comps {
                if let Some(b) = static_bbox(sf, c.gid as usize, depth + 1) {
                    let (dx, dy) = (c.arg1 as i64, c.arg2 as i64);
                    m = join(m, [b[0] + dx, b[1] + dy, b[2] + dx, b[3] + dy]);
                }
            }
            m
        }
    }
}

#[cfg(test)]
mod tests {
    use super::*;

    #[test]
    fn packed_points_spec_example() {
        // OpenType spec example: 0D 0C 01 04 04 02 01 02 03 03 02 01 01 03 04 -> 1 5 9 11 12 14 17 20 22 23 24 27 31
        let l = vec![1u16, 5, 9, 11, 12, 14, 17, 20, 22, 23, 24, 27, 31];
        assert_eq!(pack_points(&PointSel::List(l), &PtPack::default()), vec![0x0d, 0x0c, 1, 4, 4, 2, 1, 2, 3, 3, 2, 1, 1, 3, 4]);
    }

    #[test]
    fn packed_deltas_spec_example() {
        // 03 0A 97 00 C6 87 41 10 22 FB 34 -> 10 -105 0 -58 0*8 4130 -1228
        let v = vec![10i16, -105, 0, -58, 0, 0, 0, 0, 0, 0, 0, 0, 4130, -1228];
        assert_eq!(pack_deltas(&v, &DeltaPack { mode: DeltaMode::AbsorbZeros, max_run: 64 }), vec![0x03, 0x0A, 0x97, 0x00, 0xC6, 0x87, 0x41, 0x10, 0x22, 0xFB, 0x34]);
    }

    #[test]
    fn scalars() {
        let o = EvalOpts::default();
        assert_eq!(axis_scalar(0, 16384, 16384, 8192, &o), Rat::new(1, 2));
        assert_eq!(axis_scalar(0, 8192, 8192, 12000, &o), Rat::ZERO);
        assert_eq!(axis_scalar(0, 8192, 16384, 12288, &o), Rat::new(1, 2));
        assert_eq!(axis_scalar(-16384, -16384, 0, -4096, &o), Rat::new(1, 4));
        assert_eq!(axis_scalar(0, 0, 0, 5, &o), Rat::ONE);
        assert_eq!(axis_scalar(-8192, 8192, 16384, -4096, &o), Rat::ONE);
    }

    #[test]
    fn iup_spec_cases() {
        assert_eq!(infer_1d(0, 10, 100, 30, 50), Rat::int(20));
        assert_eq!(infer_1d(100, 30, 0, 10, 50), Rat::int(20));
        assert_eq!(infer_1d(0, 10, 100, 30, -5), Rat::int(10));
        assert_eq!(infer_1d(0, 10, 100, 30, 200), Rat::int(30));
        assert_eq!(infer_1d(7, 10, 7, 10, 200), Rat::int(10));
        assert_eq!(infer_1d(7, 10, 7, 11, 7), Rat::ZERO);
    }
}
