//! cffenc — path model, reference semantics and independent encoders for Type 2 / CFF2 charstrings and
//! for minimal CFF 1 / CFF2 tables. Written from Adobe TN 5176 (CFF), TN 5177 (Type 2 charstrings) and the
//! OpenType `CFF2` / CFF2 charstring chapters. Does not depend on allsorts.
//!
//! Layers:
//!  * numbers are 16.16 fixed raw values (`F`); a variable number `V` carries up to two region deltas;
//!  * `PathModel` (contours of relative line / curve segments) is the abstract object; `eval` gives the
//!    absolute drawing commands the specification assigns (default + sum scalar*delta, accumulated);
//!  * `contour_forms` enumerates *every* way of writing a contour with the Type 2 path operators;
//!  * `HintPlan` produces stem / mask prefixes; `expand_blend` writes variable operands with `blend`;
//!  * `serialize` turns tokens into bytes under a number-encoding policy and records token boundaries;
//!  * `SubrIndex`, `index_bytes`, `build_cff1`, `build_cff2` produce the tables.

use crate::be::W;

// ------------------------------------------------------------------------------------------------
// numbers
// ------------------------------------------------------------------------------------------------

/// 16.16 fixed point raw value
pub type F = i32;

pub const fn int(v: i32) -> F {
    v << 16
}
/// v + num/den as 16.16 (den a power of two)
pub const fn frac(v: i32, num: i32, den: i32) -> F {
    (v << 16) + (65536 / den) * num
}
pub fn f_to_f64(v: F) -> f64 {
    v as f64 / 65536.0
}

pub const MAXK: usize = 2;

/// A (possibly variable) charstring operand: default value plus one delta per region of the active
/// ItemVariationData (at most MAXK regions are modelled).
#[derive(Clone, Copy, Debug, PartialEq, Eq, Hash, Default)]
pub struct V {
    pub d: F,
    pub dl: [F; MAXK],
}

impl V {
    pub const ZERO: V = V { d: 0, dl: [0; MAXK] };
    pub const fn c(d: F) -> V {
        V { d, dl: [0; MAXK] }
    }
    pub const fn i(v: i32) -> V {
        V::c(int(v))
    }
    pub fn is_zero(&self) -> bool {
        self.d == 0 && self.dl.iter().all(|x| *x == 0)
    }
    pub fn varies(&self) -> bool {
        self.dl.iter().any(|x| *x != 0)
    }
    pub fn neg(&self) -> V {
        V { d: -self.d, dl: [-self.dl[0], -self.dl[1]] }
    }
    pub fn add(&self, o: &V) -> V {
        V { d: self.d + o.d, dl: [self.dl[0] + o.dl[0], self.dl[1] + o.dl[1]] }
    }
    /// value at the given region scalars
    pub fn at(&self, scalars: &[f64]) -> f64 {
        let mut v = f_to_f64(self.d);
        for (r, s) in scalars.iter().enumerate().take(MAXK) {
            v += s * f_to_f64(self.dl[r]);
        }
        v
    }
}

// ------------------------------------------------------------------------------------------------
// path model and reference semantics
// ------------------------------------------------------------------------------------------------

#[derive(Clone, Debug, PartialEq)]
pub enum Seg {
    /// dx dy
    Line([V; 2]),
    /// dxa dya dxb dyb dxc dyc (each relative to the previous point, as in rrcurveto)
    Curve([V; 6]),
}

#[derive(Clone, Debug, PartialEq)]
pub struct Contour {
    /// moveto delta relative to the current point ((0,0) at the start of the glyph)
    pub mv: [V; 2],
    pub segs: Vec<Seg>,
}

#[derive(Clone, Debug, PartialEq, Default)]
pub struct PathModel {
    pub contours: Vec<Contour>,
}

/// absolute drawing command: kind 0 move, 1 line, 3 cubic, 4 close (numbering as in vcheck's recorder)
pub type Cmd = (u8, [f64; 6]);

/// The path the Type 2 specification assigns: every contour starts with a move to the accumulated point,
/// segments follow at accumulated coordinates, and the contour is closed (by the next moveto or the end of
/// the charstring). Returns the commands and the final current point.
pub fn eval(p: &PathModel, scalars: &[f64], origin: (f64, f64), out: &mut Vec<Cmd>) -> (f64, f64) {
    let (mut x, mut y) = origin;
    for c in &p.contours {
        x += c.mv[0].at(scalars);
        y += c.mv[1].at(scalars);
        out.push((0, [x, y, 0., 0., 0., 0.]));
        for s in &c.segs {
            match s {
                Seg::Line(a) => {
                    x += a[0].at(scalars);
                    y += a[1].at(scalars);
                    out.push((1, [x, y, 0., 0., 0., 0.]));
                }
                Seg::Curve(a) => {
                    let x1 = x + a[0].at(scalars);
                    let y1 = y + a[1].at(scalars);
                    let x2 = x1 + a[2].at(scalars);
                    let y2 = y1 + a[3].at(scalars);
                    x = x2 + a[4].at(scalars);
                    y = y2 + a[5].at(scalars);
                    out.push((3, [x1, y1, x2, y2, x, y]));
                }
            }
        }
        out.push((4, [0.; 6]));
    }
    (x, y)
}

// ------------------------------------------------------------------------------------------------
// tokens
// ------------------------------------------------------------------------------------------------

pub mod op {
    pub const HSTEM: u8 = 1;
    pub const VSTEM: u8 = 3;
    pub const VMOVETO: u8 = 4;
    pub const RLINETO: u8 = 5;
    pub const HLINETO: u8 = 6;
    pub const VLINETO: u8 = 7;
    pub const RRCURVETO: u8 = 8;
    pub const CALLSUBR: u8 = 10;
    pub const RETURN: u8 = 11;
    pub const ESCAPE: u8 = 12;
    pub const ENDCHAR: u8 = 14;
    pub const VSINDEX: u8 = 15;
    pub const BLEND: u8 = 16;
    pub const HSTEMHM: u8 = 18;
    pub const HINTMASK: u8 = 19;
    pub const CNTRMASK: u8 = 20;
    pub const RMOVETO: u8 = 21;
    pub const HMOVETO: u8 = 22;
    pub const VSTEMHM: u8 = 23;
    pub const RCURVELINE: u8 = 24;
    pub const RLINECURVE: u8 = 25;
    pub const VVCURVETO: u8 = 26;
    pub const HHCURVETO: u8 = 27;
    pub const CALLGSUBR: u8 = 29;
    pub const VHCURVETO: u8 = 30;
    pub const HVCURVETO: u8 = 31;
    // escaped
    pub const HFLEX: u8 = 34;
    pub const FLEX: u8 = 35;
    pub const HFLEX1: u8 = 36;
    pub const FLEX1: u8 = 37;
}

/// variable-level token (operands may carry deltas)
#[derive(Clone, Copy, Debug, PartialEq)]
pub enum VTok {
    Num(V),
    Op(u8),
    Esc(u8),
    /// the mask bytes that follow hintmask / cntrmask
    Mask([u8; 12], u8),
}

/// concrete token
#[derive(Clone, Copy, Debug, PartialEq)]
pub enum Tok {
    Num(F),
    Op(u8),
    Esc(u8),
    Mask([u8; 12], u8),
}

pub fn op_name(o: u8) -> &'static str {
    match o {
        1 => "hstem",
        3 => "vstem",
        4 => "vmoveto",
        5 => "rlineto",
        6 => "hlineto",
        7 => "vlineto",
        8 => "rrcurveto",
        10 => "callsubr",
        11 => "return",
        14 => "endchar",
        15 => "vsindex",
        16 => "blend",
        18 => "hstemhm",
        19 => "hintmask",
        20 => "cntrmask",
        21 => "rmoveto",
        22 => "hmoveto",
        23 => "vstemhm",
        24 => "rcurveline",
        25 => "rlinecurve",
        26 => "vvcurveto",
        27 => "hhcurveto",
        29 => "callgsubr",
        30 => "vhcurveto",
        31 => "hvcurveto",
        _ => "?",
    }
}

pub fn esc_name(o: u8) -> &'static str {
    match o {
        34 => "hflex",
        35 => "flex",
        36 => "hflex1",
        37 => "flex1",
        _ => "esc?",
    }
}

pub fn fmt_f(v: F) -> String {
    if v & 0xFFFF == 0 {
        format!("{}", v >> 16)
    } else {
        format!("{}", f_to_f64(v))
    }
}

pub fn toks_text(t: &[Tok]) -> String {
    let mut s = String::new();
    for x in t {
        if !s.is_empty() {
            s.push(' ');
        }
        match x {
            Tok::Num(v) => s.push_str(&fmt_f(*v)),
            Tok::Op(o) => s.push_str(op_name(*o)),
            Tok::Esc(o) => s.push_str(esc_name(*o)),
            Tok::Mask(b, n) => s.push_str(&format!("<{}>", crate_hex(&b[..*n as usize]))),
        }
    }
    s
}

pub fn vtoks_text(t: &[VTok]) -> String {
    let mut s = String::new();
    for x in t {
        if !s.is_empty() {
            s.push(' ');
        }
        match x {
            VTok::Num(v) => {
                s.push_str(&fmt_f(v.d));
                if v.varies() {
                    s.push_str(&format!("{{{},{}}}", fmt_f(v.dl[0]), fmt_f(v.dl[1])));
                }
            }
            VTok::Op(o) => s.push_str(op_name(*o)),
            VTok::Esc(o) => s.push_str(esc_name(*o)),
            VTok::Mask(b, n) => s.push_str(&format!("<{}>", crate_hex(&b[..*n as usize]))),
        }
    }
    s
}

fn crate_hex(b: &[u8]) -> String {
    b.iter().map(|x| format!("{:02x}", x)).collect()
}

// ------------------------------------------------------------------------------------------------
// every operator form of a contour
// ------------------------------------------------------------------------------------------------

fn push_nums(cur: &mut Vec<VTok>, vs: &[V]) {
    for v in vs {
        cur.push(VTok::Num(*v));
    }
}

fn line(s: &Seg) -> Option<&[V; 2]> {
    match s {
        Seg::Line(a) => Some(a),
        _ => None,
    }
}
fn curve(s: &Seg) -> Option<&[V; 6]> {
    match s {
        Seg::Curve(a) => Some(a),
        _ => None,
    }
}

/// Options for the form enumeration.
#[derive(Clone, Copy, Debug)]
pub struct FormOpts {
    /// also emit the forms that pass an explicit zero where the operand is optional (leading dy1 of
    /// hhcurveto / dx1 of vvcurveto, trailing operand of hvcurveto / vhcurveto)
    pub explicit_zero_optionals: bool,
    /// flex depth operand
    pub flex_depth: i32,
    /// maximum number of operands per operator (48 for Type 2, 513 for CFF2)
    pub max_args: usize,
}

impl Default for FormOpts {
    fn default() -> Self {
        FormOpts { explicit_zero_optionals: true, flex_depth: 50, max_args: 48 }
    }
}

/// Enumerate every sequence of Type 2 path operators that draws `segs` (TN 5177 section 4.1), appended to `cur`.
fn seg_forms(segs: &[Seg], i: usize, cur: &mut Vec<VTok>, o: &FormOpts, out: &mut Vec<Vec<VTok>>) {
    if i == segs.len() {
        out.push(cur.clone());
        return;
    }
    let base = cur.len();
    let s = &segs[i..];
    let nlines = s.iter().take_while(|x| line(x).is_some()).count();
    let ncurves = s.iter().take_while(|x| curve(x).is_some()).count();

    // rlineto {dxa dya}+
    for n in 1..=nlines {
        if 2 * n > o.max_args {
            break;
        }
        for l in &s[..n] {
            push_nums(cur, line(l).unwrap());
        }
        cur.push(VTok::Op(op::RLINETO));
        seg_forms(segs, i + n, cur, o, out);
        cur.truncate(base);
    }
    // hlineto dx1 {dya dxb}* | {dxa dyb}+ ; vlineto likewise starting vertical
    for start_h in [true, false] {
        for n in 1..=nlines {
            let ok = s[..n].iter().enumerate().all(|(j, l)| {
                let a = line(l).unwrap();
                let horiz = (j % 2 == 0) == start_h;
                if horiz {
                    a[1].is_zero()
                } else {
                    a[0].is_zero()
                }
            });
            if !ok {
                break;
            }
            for (j, l) in s[..n].iter().enumerate() {
                let a = line(l).unwrap();
                let horiz = (j % 2 == 0) == start_h;
                cur.push(VTok::Num(if horiz { a[0] } else { a[1] }));
            }
            cur.push(VTok::Op(if start_h { op::HLINETO } else { op::VLINETO }));
            seg_forms(segs, i + n, cur, o, out);
            cur.truncate(base);
        }
    }
    // rrcurveto {dxa dya dxb dyb dxc dyc}+
    for n in 1..=ncurves {
        if 6 * n > o.max_args {
            break;
        }
        for c in &s[..n] {
            push_nums(cur, curve(c).unwrap());
        }
        cur.push(VTok::Op(op::RRCURVETO));
        seg_forms(segs, i + n, cur, o, out);
        cur.truncate(base);
    }
    // rcurveline {curve}+ dxd dyd
    for n in 1..=ncurves {
        if 6 * n + 2 > o.max_args {
            break;
        }
        if let Some(l) = s.get(n).and_then(line) {
            for c in &s[..n] {
                push_nums(cur, curve(c).unwrap());
            }
            push_nums(cur, l);
            cur.push(VTok::Op(op::RCURVELINE));
            seg_forms(segs, i + n + 1, cur, o, out);
            cur.truncate(base);
        }
    }
    // rlinecurve {dxa dya}+ curve
    for n in 1..=nlines {
        if 2 * n + 6 > o.max_args {
            break;
        }
        if let Some(c) = s.get(n).and_then(curve) {
            for l in &s[..n] {
                push_nums(cur, line(l).unwrap());
            }
            push_nums(cur, c);
            cur.push(VTok::Op(op::RLINECURVE));
            seg_forms(segs, i + n + 1, cur, o, out);
            cur.truncate(base);
        }
    }
    // hhcurveto dy1? {dxa dxb dyb dxc}+   (every curve starts and ends horizontal; dy1 only on the first)
    // vvcurveto dx1? {dya dxb dyb dyc}+
    for hh in [true, false] {
        // index of the "across" start component and end component that must vanish
        let (sa, ea) = if hh { (1usize, 5usize) } else { (0usize, 4usize) };
        for n in 1..=ncurves {
            if 4 * n + 1 > o.max_args {
                break;
            }
            let ok = s[..n].iter().enumerate().all(|(j, c)| {
                let a = curve(c).unwrap();
                a[ea].is_zero() && (j == 0 || a[sa].is_zero())
            });
            if !ok {
                break;
            }
            let first = curve(&s[0]).unwrap();
            let lead = first[sa];
            let mut lead_forms: Vec<Option<V>> = Vec::new();
            if lead.is_zero() {
                lead_forms.push(None);
                if o.explicit_zero_optionals {
                    lead_forms.push(Some(V::ZERO));
                }
            } else {
                lead_forms.push(Some(lead));
            }
            for lf in lead_forms {
                if let Some(v) = lf {
                    cur.push(VTok::Num(v));
                }
                for c in &s[..n] {
                    let a = curve(c).unwrap();
                    if hh {
                        push_nums(cur, &[a[0], a[2], a[3], a[4]]);
                    } else {
                        push_nums(cur, &[a[1], a[2], a[3], a[5]]);
                    }
                }
                cur.push(VTok::Op(if hh { op::HHCURVETO } else { op::VVCURVETO }));
                seg_forms(segs, i + n, cur, o, out);
                cur.truncate(base);
            }
        }
    }
    // hvcurveto / vhcurveto: curves alternate between (start horizontal, end vertical) and (start vertical, end
    // horizontal); only the last curve may end with a free tangent, given by one extra trailing operand.
    for first_h in [true, false] {
        for n in 1..=ncurves {
            if 4 * n + 1 > o.max_args {
                break;
            }
            let ok = s[..n].iter().enumerate().all(|(j, c)| {
                let a = curve(c).unwrap();
                let h = (j % 2 == 0) == first_h;
                let last = j + 1 == n;
                if h {
                    a[1].is_zero() && (last || a[4].is_zero())
                } else {
                    a[0].is_zero() && (last || a[5].is_zero())
                }
            });
            if !ok {
                // a longer run cannot become valid again once a non-final curve violates the start condition;
                // it may, however, fail only because of the tail condition of curve n-1, which is no longer final
                // in a longer run — so keep scanning only if the start conditions hold.
                let starts_ok = s[..n].iter().enumerate().all(|(j, c)| {
                    let a = curve(c).unwrap();
                    let h = (j % 2 == 0) == first_h;
                    if h {
                        a[1].is_zero()
                    } else {
                        a[0].is_zero()
                    }
                });
                if !starts_ok {
                    break;
                }
                continue;
            }
            let last_h = ((n - 1) % 2 == 0) == first_h;
            let la = curve(&s[n - 1]).unwrap();
            let tail = if last_h { la[4] } else { la[5] };
            let mut tails: Vec<Option<V>> = Vec::new();
            if tail.is_zero() {
                tails.push(None);
                if o.explicit_zero_optionals {
                    tails.push(Some(V::ZERO));
                }
            } else {
                tails.push(Some(tail));
            }
            for tf in tails {
                for (j, c) in s[..n].iter().enumerate() {
                    let a = curve(c).unwrap();
                    let h = (j % 2 == 0) == first_h;
                    if h {
                        // dxa dxb dyb dyc
                        push_nums(cur, &[a[0], a[2], a[3], a[5]]);
                    } else {
                        // dya dxb dyb dxc
                        push_nums(cur, &[a[1], a[2], a[3], a[4]]);
                    }
                }
                if let Some(v) = tf {
                    cur.push(VTok::Num(v));
                }
                cur.push(VTok::Op(if first_h { op::HVCURVETO } else { op::VHCURVETO }));
                seg_forms(segs, i + n, cur, o, out);
                cur.truncate(base);
            }
        }
    }
    // flex operators: two curves
    if ncurves >= 2 {
        let a = curve(&s[0]).unwrap();
        let b = curve(&s[1]).unwrap();
        // flex dx1 dy1 dx2 dy2 dx3 dy3 dx4 dy4 dx5 dy5 dx6 dy6 fd
        if 13 <= o.max_args {
            push_nums(cur, a);
            push_nums(cur, b);
            cur.push(VTok::Num(V::i(o.flex_depth)));
            cur.push(VTok::Esc(op::FLEX));
            seg_forms(segs, i + 2, cur, o, out);
            cur.truncate(base);
        }
        // hflex dx1 dx2 dy2 dx3 dx4 dx5 dx6: dy1 = dy3 = dy4 = dy6 = 0, dy5 = -dy2
        if a[1].is_zero() && a[5].is_zero() && b[1].is_zero() && b[5].is_zero() && b[3] == a[3].neg() {
            push_nums(cur, &[a[0], a[2], a[3], a[4], b[0], b[2], b[4]]);
            cur.push(VTok::Esc(op::HFLEX));
            seg_forms(segs, i + 2, cur, o, out);
            cur.truncate(base);
        }
        // hflex1 dx1 dy1 dx2 dy2 dx3 dx4 dx5 dy5 dx6: dy3 = dy4 = 0, the end point has the starting y
        if a[5].is_zero() && b[1].is_zero() && b[5] == a[1].add(&a[3]).add(&b[3]).neg() {
            push_nums(cur, &[a[0], a[1], a[2], a[3], a[4], b[0], b[2], b[3], b[4]]);
            cur.push(VTok::Esc(op::HFLEX1));
            seg_forms(segs, i + 2, cur, o, out);
            cur.truncate(base);
        }
        // flex1 dx1 dy1 dx2 dy2 dx3 dy3 dx4 dy4 dx5 dy5 d6: d6 is dx6 if |dx| > |dy| of the first five deltas, and
        // the end point then has the starting y (else d6 is dy6 and the end point has the starting x).
        // The selection is made at run time on the (blended) values, so only non-variable operands are written this way.
        let all = [a[0], a[1], a[2], a[3], a[4], a[5], b[0], b[1], b[2], b[3], b[4], b[5]];
        if all.iter().all(|v| !v.varies()) {
            let dx = a[0].d as i64 + a[2].d as i64 + a[4].d as i64 + b[0].d as i64 + b[2].d as i64;
            let dy = a[1].d as i64 + a[3].d as i64 + a[5].d as i64 + b[1].d as i64 + b[3].d as i64;
            let d6 = if dx.abs() > dy.abs() {
                if b[5].d as i64 == -dy {
                    Some(b[4])
                } else {
                    None
                }
            } else if b[4].d as i64 == -dx {
                Some(b[5])
            } else {
                None
            };
            if let Some(d6) = d6 {
                push_nums(cur, &all[..10]);
                cur.push(VTok::Num(d6));
                cur.push(VTok::Esc(op::FLEX1));
                seg_forms(segs, i + 2, cur, o, out);
                cur.truncate(base);
            }
        }
    }
}

/// Every way to write one contour: moveto form x operator partition of the segments.
pub fn contour_forms(c: &Contour, o: &FormOpts) -> Vec<Vec<VTok>> {
    let mut out = Vec::new();
    let mut heads: Vec<Vec<VTok>> = vec![vec![VTok::Num(c.mv[0]), VTok::Num(c.mv[1]), VTok::Op(op::RMOVETO)]];
    if c.mv[1].is_zero() {
        heads.push(vec![VTok::Num(c.mv[0]), VTok::Op(op::HMOVETO)]);
    }
    if c.mv[0].is_zero() {
        heads.push(vec![VTok::Num(c.mv[1]), VTok::Op(op::VMOVETO)]);
    }
    for h in heads {
        let mut cur = h;
        seg_forms(&c.segs, 0, &mut cur, o, &mut out);
    }
    out
}

/// Every way to write a whole path (product over contours). No hints, width or endchar.
pub fn path_forms(p: &PathModel, o: &FormOpts) -> Vec<Vec<VTok>> {
    let mut acc: Vec<Vec<VTok>> = vec![Vec::new()];
    for c in &p.contours {
        let fs = contour_forms(c, o);
        let mut next = Vec::with_capacity(acc.len() * fs.len());
        for a in &acc {
            for f in &fs {
                let mut v = a.clone();
                v.extend_from_slice(f);
                next.push(v);
            }
        }
        acc = next;
    }
    acc
}

/// The plainest form: rmoveto + rlineto / rrcurveto per segment.
pub fn plain_form(p: &PathModel) -> Vec<VTok> {
    let mut v = Vec::new();
    for c in &p.contours {
        v.push(VTok::Num(c.mv[0]));
        v.push(VTok::Num(c.mv[1]));
        v.push(VTok::Op(op::RMOVETO));
        for s in &c.segs {
            match s {
                Seg::Line(a) => {
                    push_nums(&mut v, a);
                    v.push(VTok::Op(op::RLINETO));
                }
                Seg::Curve(a) => {
                    push_nums(&mut v, a);
                    v.push(VTok::Op(op::RRCURVETO));
                }
            }
        }
    }
    v
}

// ------------------------------------------------------------------------------------------------
// hints, width
// ------------------------------------------------------------------------------------------------

#[derive(Clone, Copy, Debug, PartialEq, Eq)]
pub enum HintForm {
    /// hstem / vstem, no masks
    Plain,
    /// hstemhm / vstemhm, then hintmask
    Hm,
    /// hstemhm, then the vstem operands directly before hintmask (implicit vstemhm); needs nv >= 1
    HmImplicit,
    /// hstemhm vstemhm cntrmask hintmask
    HmCntr,
    /// hstemhm, vstem operands directly before cntrmask (implicit vstemhm), then hintmask; needs nv >= 1
    CntrImplicit,
}

#[derive(Clone, Copy, Debug, PartialEq, Eq)]
pub struct HintPlan {
    pub nh: u8,
    pub nv: u8,
    pub form: HintForm,
    /// byte used to fill the masks (chosen to look like an operator so that a wrong mask length derails the parse)
    pub fill: u8,
}

impl HintPlan {
    pub fn stems(&self) -> usize {
        self.nh as usize + self.nv as usize
    }
    pub fn mask_len(&self) -> usize {
        (self.stems() + 7) / 8
    }
    pub fn has_masks(&self) -> bool {
        self.form != HintForm::Plain
    }
    pub fn mask(&self) -> VTok {
        let n = self.mask_len();
        assert!(n <= 12, "machinery: more than 96 stems");
        let mut b = [0u8; 12];
        for x in b.iter_mut().take(n) {
            *x = self.fill;
        }
        VTok::Mask(b, n as u8)
    }
    /// stem operands: pairs (edge delta, width) of small integers, distinct per stem; at most 23 stems per operator
    /// so that a width operand still fits the 48 operand limit. `last_op` = None leaves the last chunk's operands on
    /// the stack (implicit vstem before a mask operator).
    fn emit_stems(n: u8, salt: i32, opc: u8, last_op: Option<u8>, out: &mut Vec<VTok>) {
        let mut j = 0i32;
        let n = n as i32;
        while j < n {
            let end = (j + 23).min(n);
            for q in j..end {
                out.push(VTok::Num(V::i(3 + q % 40 + salt)));
                out.push(VTok::Num(V::i(20 + 2 * (q % 30))));
            }
            if end < n {
                out.push(VTok::Op(opc));
            } else if let Some(o) = last_op {
                out.push(VTok::Op(o));
            }
            j = end;
        }
    }
    /// the hint prefix (goes after the optional width and before the first moveto)
    pub fn prefix(&self) -> Vec<VTok> {
        let mut v = Vec::new();
        let hm = self.has_masks();
        if self.nh > 0 {
            let o = if hm { op::HSTEMHM } else { op::HSTEM };
            Self::emit_stems(self.nh, 0, o, Some(o), &mut v);
        }
        match self.form {
            HintForm::Plain => {
                if self.nv > 0 {
                    Self::emit_stems(self.nv, 40, op::VSTEM, Some(op::VSTEM), &mut v);
                }
            }
            HintForm::Hm | HintForm::HmCntr => {
                if self.nv > 0 {
                    Self::emit_stems(self.nv, 40, op::VSTEMHM, Some(op::VSTEMHM), &mut v);
                }
                if self.form == HintForm::HmCntr {
                    v.push(VTok::Op(op::CNTRMASK));
                    v.push(self.mask());
                }
                v.push(VTok::Op(op::HINTMASK));
                v.push(self.mask());
            }
            HintForm::HmImplicit => {
                Self::emit_stems(self.nv, 40, op::VSTEMHM, None, &mut v);
                v.push(VTok::Op(op::HINTMASK));
                v.push(self.mask());
            }
            HintForm::CntrImplicit => {
                Self::emit_stems(self.nv, 40, op::VSTEMHM, None, &mut v);
                v.push(VTok::Op(op::CNTRMASK));
                v.push(self.mask());
                v.push(VTok::Op(op::HINTMASK));
                v.push(self.mask());
            }
        }
        v
    }
    pub fn describe(&self) -> String {
        format!("{:?} nh={} nv={} mask_bytes={} fill={:#04x}", self.form, self.nh, self.nv, if self.has_masks() { self.mask_len() } else { 0 }, self.fill)
    }
}

/// Assemble a Type 2 charstring: [width] [hints] path [mid-path hintmask after the k-th path operator] [endchar].
pub fn assemble(width: Option<V>, hints: Option<&HintPlan>, path: &[VTok], mid_mask_after_op: Option<usize>, endchar: bool) -> Vec<VTok> {
    let mut v = Vec::new();
    if let Some(w) = width {
        v.push(VTok::Num(w));
    }
    if let Some(h) = hints {
        v.extend(h.prefix());
    }
    let mut ops_seen = 0usize;
    for t in path {
        v.push(*t);
        if matches!(t, VTok::Op(_) | VTok::Esc(_)) {
            ops_seen += 1;
            if let (Some(k), Some(h)) = (mid_mask_after_op, hints) {
                if h.has_masks() && ops_seen == k {
                    v.push(VTok::Op(op::HINTMASK));
                    v.push(h.mask());
                }
            }
        }
    }
    if endchar {
        v.push(VTok::Op(op::ENDCHAR));
    }
    v
}

// ------------------------------------------------------------------------------------------------
// blend expansion (CFF2)
// ------------------------------------------------------------------------------------------------

#[derive(Clone, Copy, Debug, PartialEq, Eq)]
pub enum BlendPolicy {
    /// all operands of an operator in one blend: d1..dn (k deltas per operand) n blend
    AllAtOnce,
    /// one blend per operand (n = 1), also for operands whose deltas are zero
    PerOperand,
    /// maximal runs of operands with non-zero deltas are blended together; other operands are written plain
    VaryingRuns,
}

/// Write variable operands with the blend operator for an ItemVariationData with `k` regions
/// (CFF2 charstrings: for k regions, n*(k+1) operands then n, leaves n values). k = 0 writes defaults only.
pub fn expand_blend(toks: &[VTok], k: usize, pol: BlendPolicy) -> Vec<Tok> {
    let mut out = Vec::with_capacity(toks.len() * 2);
    let mut run: Vec<V> = Vec::new();
    fn blend_group(g: &[V], k: usize, out: &mut Vec<Tok>) {
        for v in g {
            out.push(Tok::Num(v.d));
        }
        for v in g {
            for r in 0..k {
                out.push(Tok::Num(v.dl[r]));
            }
        }
        out.push(Tok::Num(int(g.len() as i32)));
        out.push(Tok::Op(op::BLEND));
    }
    let flush = |run: &mut Vec<V>, out: &mut Vec<Tok>| {
        if run.is_empty() {
            return;
        }
        if k == 0 {
            for v in run.iter() {
                out.push(Tok::Num(v.d));
            }
        } else {
            match pol {
                BlendPolicy::AllAtOnce => {
                    if run.iter().any(|v| v.varies()) {
                        blend_group(run, k, out);
                    } else {
                        for v in run.iter() {
                            out.push(Tok::Num(v.d));
                        }
                    }
                }
                BlendPolicy::PerOperand => {
                    for v in run.iter() {
                        blend_group(std::slice::from_ref(v), k, out);
                    }
                }
                BlendPolicy::VaryingRuns => {
                    let mut i = 0;
                    while i < run.len() {
                        if run[i].varies() {
                            let mut j = i;
                            while j < run.len() && run[j].varies() {
                                j += 1;
                            }
                            blend_group(&run[i..j], k, out);
                            i = j;
                        } else {
                            out.push(Tok::Num(run[i].d));
                            i += 1;
                        }
                    }
                }
            }
        }
        run.clear();
    };
    for t in toks {
        match t {
            VTok::Num(v) => run.push(*v),
            VTok::Op(o) => {
                flush(&mut run, &mut out);
                out.push(Tok::Op(*o));
            }
            VTok::Esc(o) => {
                flush(&mut run, &mut out);
                out.push(Tok::Esc(*o));
            }
            VTok::Mask(b, n) => out.push(Tok::Mask(*b, *n)),
        }
    }
    flush(&mut run, &mut out);
    out
}

/// Write the operands of every operator through the blend operator whether or not they vary, for an ItemVariationData with
/// `k` regions, k = 0 included (CFF2 charstrings, blend: "for k regions, produces n interpolated result value(s) from
/// n*(k + 1) operands"; with an ItemVariationData whose regionIndexCount is 0 that is `d1..dn n blend`: n + 1 operands are
/// consumed and the n defaults are left). Every run of operands is cut into groups of at most `group` operands, one blend
/// (n = group size) per group. With `alternate`, every second group of a run is written plain instead when none of its
/// operands varies in the first k regions, so that blended and plain operands are interleaved below one operator.
pub fn expand_blend_forced(toks: &[VTok], k: usize, group: usize, alternate: bool) -> Vec<Tok> {
    assert!(group >= 1 && k <= MAXK);
    let mut out = Vec::with_capacity(toks.len() * 3);
    let mut run: Vec<V> = Vec::new();
    let flush = |run: &mut Vec<V>, out: &mut Vec<Tok>| {
        for (gi, g) in run.chunks(group).enumerate() {
            let varies = g.iter().any(|v| v.dl[..k].iter().any(|d| *d != 0));
            if alternate && gi % 2 == 1 && !varies {
                for v in g {
                    out.push(Tok::Num(v.d));
                }
                continue;
            }
            for v in g {
                out.push(Tok::Num(v.d));
            }
            for v in g {
                for r in 0..k {
                    out.push(Tok::Num(v.dl[r]));
                }
            }
            out.push(Tok::Num(int(g.len() as i32)));
            out.push(Tok::Op(op::BLEND));
        }
        run.clear();
    };
    for t in toks {
        match t {
            VTok::Num(v) => run.push(*v),
            VTok::Op(o) => {
                flush(&mut run, &mut out);
                out.push(Tok::Op(*o));
            }
            VTok::Esc(o) => {
                flush(&mut run, &mut out);
                out.push(Tok::Esc(*o));
            }
            VTok::Mask(b, n) => out.push(Tok::Mask(*b, *n)),
        }
    }
    flush(&mut run, &mut out);
    out
}

// ------------------------------------------------------------------------------------------------
// number encodings and serialisation
// ------------------------------------------------------------------------------------------------

#[derive(Clone, Copy, Debug, PartialEq, Eq)]
pub enum NumEnc {
    /// one byte, -107..107
    B1,
    /// two bytes, 108..1131 and -1131..-108
    B2,
    /// 28 + int16
    B3,
    /// 255 + 16.16
    B5,
}

/// the encodings that can represent `v` exactly, shortest first (TN 5177 section 3.2)
pub fn num_encodings(v: F) -> Vec<NumEnc> {
    let mut e = Vec::new();
    if v & 0xFFFF == 0 {
        let i = v >> 16;
        if (-107..=107).contains(&i) {
            e.push(NumEnc::B1);
        }
        if (108..=1131).contains(&i) || (-1131..=-108).contains(&i) {
            e.push(NumEnc::B2);
        }
        e.push(NumEnc::B3);
    }
    e.push(NumEnc::B5);
    e
}

pub fn write_num(v: F, enc: NumEnc, out: &mut Vec<u8>) {
    let i = v >> 16;
    match enc {
        NumEnc::B1 => {
            assert!(v & 0xFFFF == 0 && (-107..=107).contains(&i));
            out.push((i + 139) as u8);
        }
        NumEnc::B2 => {
            assert!(v & 0xFFFF == 0);
            if i >= 108 {
                assert!(i <= 1131);
                let w = i - 108;
                out.push((w / 256 + 247) as u8);
                out.push((w % 256) as u8);
            } else {
                assert!((-1131..=-108).contains(&i));
                let w = -i - 108;
                out.push((w / 256 + 251) as u8);
                out.push((w % 256) as u8);
            }
        }
        NumEnc::B3 => {
            assert!(v & 0xFFFF == 0 && (-32768..=32767).contains(&i));
            out.push(28);
            out.extend_from_slice(&(i as i16).to_be_bytes());
        }
        NumEnc::B5 => {
            out.push(255);
            out.extend_from_slice(&v.to_be_bytes());
        }
    }
}

#[derive(Clone, Copy, Debug, PartialEq, Eq)]
pub enum NumDefault {
    Shortest,
    /// 28 + int16 wherever the value is an integer, else 16.16
    Int16,
    /// 16.16 everywhere
    Fixed,
}

#[derive(Clone, Copy, Debug, PartialEq, Eq)]
pub struct NumPolicy {
    pub default: NumDefault,
    /// (index among the Num tokens, encoding) overriding the default for one operand
    pub one: Option<(usize, NumEnc)>,
}

impl NumPolicy {
    pub const SHORTEST: NumPolicy = NumPolicy { default: NumDefault::Shortest, one: None };
}

#[derive(Clone, Debug, Default)]
pub struct Serialized {
    pub bytes: Vec<u8>,
    /// byte offsets at which the stream may be cut into subroutines: before every token except a mask
    /// (mask bytes belong to the preceding hintmask / cntrmask), and the end of the stream
    pub cuts: Vec<usize>,
}

pub fn serialize(toks: &[Tok], pol: &NumPolicy) -> Serialized {
    let mut s = Serialized { bytes: Vec::with_capacity(toks.len() * 3 + 2), cuts: Vec::with_capacity(toks.len() + 1) };
    let mut ni = 0usize;
    for t in toks {
        if !matches!(t, Tok::Mask(..)) {
            s.cuts.push(s.bytes.len());
        }
        match t {
            Tok::Num(v) => {
                let encs = num_encodings(*v);
                let mut enc = match pol.default {
                    NumDefault::Shortest => encs[0],
                    NumDefault::Int16 => {
                        if encs.contains(&NumEnc::B3) {
                            NumEnc::B3
                        } else {
                            NumEnc::B5
                        }
                    }
                    NumDefault::Fixed => NumEnc::B5,
                };
                if let Some((k, e)) = pol.one {
                    if k == ni {
                        assert!(encs.contains(&e), "machinery: encoding {:?} cannot represent {}", e, v);
                        enc = e;
                    }
                }
                write_num(*v, enc, &mut s.bytes);
                ni += 1;
            }
            Tok::Op(o) => s.bytes.push(*o),
            Tok::Esc(o) => {
                s.bytes.push(op::ESCAPE);
                s.bytes.push(*o);
            }
            Tok::Mask(b, n) => s.bytes.extend_from_slice(&b[..*n as usize]),
        }
    }
    s.cuts.push(s.bytes.len());
    s
}

pub fn count_nums(toks: &[Tok]) -> usize {
    toks.iter().filter(|t| matches!(t, Tok::Num(_))).count()
}

// ------------------------------------------------------------------------------------------------
// subroutines
// ------------------------------------------------------------------------------------------------

/// TN 5176 section 16: bias by number of subroutines in the INDEX
pub fn subr_bias(count: usize) -> i32 {
    if count < 1240 {
        107
    } else if count < 33900 {
        1131
    } else {
        32768
    }
}

/// A subroutine INDEX with `count` entries of which only `items` are non-empty.
#[derive(Clone, Debug, Default, PartialEq)]
pub struct SubrIndex {
    pub count: usize,
    pub items: Vec<(usize, Vec<u8>)>,
}

impl SubrIndex {
    pub fn empty() -> SubrIndex {
        SubrIndex { count: 0, items: Vec::new() }
    }
    pub fn dense(subrs: Vec<Vec<u8>>) -> SubrIndex {
        SubrIndex { count: subrs.len(), items: subrs.into_iter().enumerate().collect() }
    }
    pub fn get(&self, i: usize) -> &[u8] {
        // dense indexes keep entry i at position i
        if let Some(x) = self.items.get(i) {
            if x.0 == i {
                return &x.1;
            }
        }
        self.items.iter().find(|x| x.0 == i).map(|x| &x.1[..]).unwrap_or(&[])
    }
    pub fn set(&mut self, i: usize, b: Vec<u8>) {
        assert!(i < self.count);
        if let Some(e) = self.items.iter_mut().find(|x| x.0 == i) {
            e.1 = b;
        } else {
            self.items.push((i, b));
        }
    }
    /// bytes of `operand callsubr|callgsubr` selecting entry `i`
    pub fn call(&self, i: usize, global: bool, enc: Option<NumEnc>) -> Vec<u8> {
        let operand = int(i as i32 - subr_bias(self.count));
        let mut b = Vec::new();
        let e = enc.unwrap_or_else(|| num_encodings(operand)[0]);
        write_num(operand, e, &mut b);
        b.push(if global { op::CALLGSUBR } else { op::CALLSUBR });
        b
    }
    pub fn to_dense(&self) -> Vec<Vec<u8>> {
        let mut v = vec![Vec::new(); self.count];
        for (i, b) in &self.items {
            v[*i] = b.clone();
        }
        v
    }
}

/// INDEX structure (TN 5176 section 5; CFF2: count is uint32). Empty objects are legal (consecutive equal offsets).
pub fn index_sparse(count: usize, items: &[(usize, Vec<u8>)], cff2: bool) -> Vec<u8> {
    let mut w = W::new();
    if cff2 {
        w.u32(count as u32);
    } else {
        assert!(count <= 0xFFFF);
        w.u16(count as u16);
    }
    if count == 0 {
        return w.done();
    }
    let mut sorted: Vec<&(usize, Vec<u8>)> = items.iter().collect();
    sorted.sort_by_key(|x| x.0);
    let total: usize = sorted.iter().map(|x| x.1.len()).sum();
    let last = total + 1;
    let off_size: u8 = if last <= 0xFF {
        1
    } else if last <= 0xFFFF {
        2
    } else if last <= 0xFF_FFFF {
        3
    } else {
        4
    };
    w.u8(off_size);
    let put = |w: &mut W, v: usize| match off_size {
        1 => {
            w.u8(v as u8);
        }
        2 => {
            w.u16(v as u16);
        }
        3 => {
            w.u24(v as u32);
        }
        _ => {
            w.u32(v as u32);
        }
    };
    let mut off = 1usize;
    let mut it = sorted.iter().peekable();
    for i in 0..count {
        put(&mut w, off);
        if let Some(x) = it.peek() {
            if x.0 == i {
                off += x.1.len();
                it.next();
            }
        }
    }
    put(&mut w, off);
    assert!(it.next().is_none(), "machinery: INDEX item beyond count");
    for x in &sorted {
        w.bytes(&x.1);
    }
    w.done()
}

pub fn index_dense(objs: &[Vec<u8>], cff2: bool) -> Vec<u8> {
    let count = objs.len();
    let total: usize = objs.iter().map(|x| x.len()).sum();
    let last = total + 1;
    let off_size: usize = if last <= 0xFF {
        1
    } else if last <= 0xFFFF {
        2
    } else if last <= 0xFF_FFFF {
        3
    } else {
        4
    };
    let mut b: Vec<u8> = Vec::with_capacity(5 + (count + 1) * off_size + total);
    if cff2 {
        b.extend_from_slice(&(count as u32).to_be_bytes());
    } else {
        assert!(count <= 0xFFFF);
        b.extend_from_slice(&(count as u16).to_be_bytes());
    }
    if count == 0 {
        return b;
    }
    b.push(off_size as u8);
    let mut off = 1usize;
    for i in 0..=count {
        b.extend_from_slice(&(off as u32).to_be_bytes()[4 - off_size..]);
        if i < count {
            off += objs[i].len();
        }
    }
    for o in objs {
        b.extend_from_slice(o);
    }
    b
}

// ------------------------------------------------------------------------------------------------
// DICT data
// ------------------------------------------------------------------------------------------------

/// DICT integer operand, shortest form (TN 5176 Table 3)
pub fn dict_int(v: i32, out: &mut Vec<u8>) {
    if (-107..=107).contains(&v) {
        out.push((v + 139) as u8);
    } else if (108..=1131).contains(&v) {
        let w = v - 108;
        out.push((w / 256 + 247) as u8);
        out.push((w % 256) as u8);
    } else if (-1131..=-108).contains(&v) {
        let w = -v - 108;
        out.push((w / 256 + 251) as u8);
        out.push((w % 256) as u8);
    } else if (-32768..=32767).contains(&v) {
        out.push(28);
        out.extend_from_slice(&(v as i16).to_be_bytes());
    } else {
        dict_int5(v, out);
    }
}

/// DICT integer operand in the fixed-size five byte form (used for offsets so that DICT sizes are known up front)
pub fn dict_int5(v: i32, out: &mut Vec<u8>) {
    out.push(29);
    out.extend_from_slice(&v.to_be_bytes());
}

pub fn dict_op(o: u16, out: &mut Vec<u8>) {
    if o >= 0x0c00 {
        out.push(12);
        out.push((o & 0xff) as u8);
    } else {
        out.push(o as u8);
    }
}

pub mod dop {
    pub const CHARSET: u16 = 15;
    pub const ENCODING: u16 = 16;
    pub const CHARSTRINGS: u16 = 17;
    pub const PRIVATE: u16 = 18;
    pub const SUBRS: u16 = 19;
    pub const DEFAULT_WIDTH_X: u16 = 20;
    pub const NOMINAL_WIDTH_X: u16 = 21;
    pub const VSINDEX: u16 = 22;
    pub const BLEND: u16 = 23;
    pub const VSTORE: u16 = 24;
    pub const STD_HW: u16 = 10;
    pub const STD_VW: u16 = 11;
    pub const BLUE_VALUES: u16 = 6;
    pub const FONT_BBOX: u16 = 5;
    pub const ROS: u16 = 0x0c00 | 30;
    pub const CID_COUNT: u16 = 0x0c00 | 34;
    pub const FD_ARRAY: u16 = 0x0c00 | 36;
    pub const FD_SELECT: u16 = 0x0c00 | 37;
    pub const FONT_NAME: u16 = 0x0c00 | 38;
}

/// SID of the glyph that StandardEncoding assigns to `code` (TN 5176 Appendix B: the standard strings 1..149 are the
/// StandardEncoding glyphs in code order), 0 (.notdef) for unencoded codes.
pub fn standard_encoding_sid(code: u8) -> u16 {
    let c = code as u16;
    match c {
        32..=126 => c - 31,
        161..=175 => c - 161 + 96,
        177..=180 => c - 177 + 111,
        182..=189 => c - 182 + 115,
        191 => 123,
        193..=200 => c - 193 + 124,
        202..=203 => c - 202 + 132,
        205..=208 => c - 205 + 134,
        225 => 138,
        227 => 139,
        232..=235 => c - 232 + 140,
        241 => 144,
        245 => 145,
        248..=251 => c - 248 + 146,
        _ => 0,
    }
}

// ------------------------------------------------------------------------------------------------
// CFF 1 table
// ------------------------------------------------------------------------------------------------

#[derive(Clone, Debug, PartialEq)]
pub enum Charset {
    /// predefined charset 0 (ISOAdobe): glyph id = SID; no charset data, no Top DICT entry
    IsoAdobe,
    /// custom, the SID (or CID) of glyphs 1.. ; `format` 0, 1 or 2
    Custom { format: u8, ids: Vec<u16> },
}

#[derive(Clone, Debug, Default, PartialEq)]
pub struct PrivateSpec {
    /// local subroutines; None = no Subrs operator
    pub subrs: Option<SubrIndex>,
    pub default_width_x: Option<i32>,
    pub nominal_width_x: Option<i32>,
    /// CFF2 only: vsindex operator in the Private DICT
    pub vsindex: Option<u16>,
    /// raw DICT bytes (complete operand(s) + operator entries, e.g. a blended StdHW) placed after vsindex and before Subrs
    pub extra: Vec<u8>,
}

#[derive(Clone, Debug, PartialEq)]
pub enum Keying {
    Name { private: PrivateSpec },
    /// fd_of_glyph has one entry per glyph; fdselect_format 0 or 3
    Cid { fds: Vec<PrivateSpec>, fd_of_glyph: Vec<u8>, fdselect_format: u8 },
}

#[derive(Clone, Debug, PartialEq)]
pub struct Cff1 {
    pub charstrings: Vec<Vec<u8>>,
    pub gsubrs: SubrIndex,
    pub charset: Charset,
    pub keying: Keying,
}

fn charset_bytes(format: u8, ids: &[u16]) -> Vec<u8> {
    let mut w = W::new();
    w.u8(format);
    match format {
        0 => {
            for s in ids {
                w.u16(*s);
            }
        }
        1 | 2 => {
            // ranges of consecutive ids: first, nLeft (Card8 for format 1, Card16 for format 2)
            let cap = if format == 1 { 255usize } else { 65535 };
            let mut i = 0;
            while i < ids.len() {
                let mut j = i;
                while j + 1 < ids.len() && ids[j + 1] == ids[j].wrapping_add(1) && j + 1 - i < cap {
                    j += 1;
                }
                w.u16(ids[i]);
                if format == 1 {
                    w.u8((j - i) as u8);
                } else {
                    w.u16((j - i) as u16);
                }
                i = j + 1;
            }
        }
        _ => panic!("machinery: charset format"),
    }
    w.done()
}

pub fn fdselect_bytes(fd_of_glyph: &[u8], format: u8) -> Vec<u8> {
    let mut w = W::new();
    w.u8(format);
    match format {
        0 => {
            w.bytes(fd_of_glyph);
        }
        3 => {
            let mut ranges: Vec<(u16, u8)> = Vec::new();
            for (g, fd) in fd_of_glyph.iter().enumerate() {
                if ranges.last().map(|r| r.1) != Some(*fd) {
                    ranges.push((g as u16, *fd));
                }
            }
            w.u16(ranges.len() as u16);
            for (first, fd) in &ranges {
                w.u16(*first).u8(*fd);
            }
            w.u16(fd_of_glyph.len() as u16); // sentinel
        }
        _ => panic!("machinery: FDSelect format"),
    }
    w.done()
}

/// Private DICT bytes for a CFF 1 / CFF2 font; Subrs offset (relative to the start of the Private DICT) is the
/// DICT's own length because the local Subrs INDEX is placed directly after it.
fn private_bytes(p: &PrivateSpec) -> Vec<u8> {
    let mut body = Vec::new();
    if let Some(v) = p.default_width_x {
        dict_int(v, &mut body);
        dict_op(dop::DEFAULT_WIDTH_X, &mut body);
    }
    if let Some(v) = p.nominal_width_x {
        dict_int(v, &mut body);
        dict_op(dop::NOMINAL_WIDTH_X, &mut body);
    }
    if let Some(v) = p.vsindex {
        dict_int(v as i32, &mut body);
        dict_op(dop::VSINDEX, &mut body);
    }
    body.extend_from_slice(&p.extra);
    if p.subrs.is_some() {
        let len = body.len() + 5 + 1;
        dict_int5(len as i32, &mut body);
        dict_op(dop::SUBRS, &mut body);
        assert_eq!(body.len(), len);
    }
    body
}

/// Build a CFF 1 table with one font.
/// Layout: Header, Name INDEX, Top DICT INDEX, String INDEX, Global Subr INDEX, charset, FDSelect, CharStrings INDEX,
/// FDArray (Font DICT INDEX), then for every Private DICT: the DICT followed by its local Subrs INDEX.
pub fn build_cff1(f: &Cff1) -> Vec<u8> {
    match &f.keying {
        Keying::Name { private } => build_cff1_parts(&f.charstrings, &f.gsubrs, &f.charset, std::slice::from_ref(private), None),
        Keying::Cid { fds, fd_of_glyph, fdselect_format } => build_cff1_parts(&f.charstrings, &f.gsubrs, &f.charset, fds, Some((fd_of_glyph, *fdselect_format))),
    }
}

/// `build_cff1` on borrowed parts; `cid` = Some((font DICT of each glyph, FDSelect format)) makes the font CID-keyed.
pub fn build_cff1_parts(charstrings: &[Vec<u8>], gsubrs: &SubrIndex, charset_spec: &Charset, fds: &[PrivateSpec], cid_spec: Option<(&[u8], u8)>) -> Vec<u8> {
    build_cff1_opts(charstrings, gsubrs, charset_spec, fds, cid_spec, &Cff1Opts::default())
}

/// Layout / content options of `build_cff1_opts`
#[derive(Clone, Debug, Default, PartialEq)]
pub struct Cff1Opts {
    /// hdrSize; 0 = the usual 4. Larger values insert extension bytes between the header and the Name INDEX (all offsets
    /// in the Top DICT are absolute and shift with them)
    pub hdr_size: u8,
    /// raw DICT entries added to the Top DICT (after ROS / FontBBox, before the offset operators)
    pub top_extra: Vec<u8>,
    /// raw DICT entries added to each Font DICT of a CID-keyed font (before Private)
    pub font_dict_extra: Vec<Vec<u8>>,
    /// custom strings appended to the String INDEX (SID 391 onwards; CID-keyed fonts already hold "Adobe", "Identity")
    pub strings: Vec<Vec<u8>>,
}

pub fn build_cff1_opts(charstrings: &[Vec<u8>], gsubrs: &SubrIndex, charset_spec: &Charset, fds: &[PrivateSpec], cid_spec: Option<(&[u8], u8)>, opts: &Cff1Opts) -> Vec<u8> {
    let hdr = if opts.hdr_size == 0 { 4usize } else { opts.hdr_size as usize };
    assert!(hdr >= 4);
    let n_glyphs = charstrings.len();
    let cid = cid_spec.is_some();
    let name_index = index_dense(&[b"VerifC18".to_vec()], false);
    let mut strings: Vec<Vec<u8>> = if cid { vec![b"Adobe".to_vec(), b"Identity".to_vec()] } else { vec![] };
    strings.extend(opts.strings.iter().cloned());
    let string_index = index_dense(&strings, false);
    let gsubr_index = index_sparse(gsubrs.count, &gsubrs.items, false);
    let charset = match charset_spec {
        Charset::IsoAdobe => None,
        Charset::Custom { format, ids } => {
            assert_eq!(ids.len() + 1, n_glyphs, "machinery: charset covers glyphs 1..");
            Some(charset_bytes(*format, ids))
        }
    };
    let charstrings_index = index_dense(charstrings, false);
    let privates: Vec<&PrivateSpec> = fds.iter().collect();
    assert!(cid || privates.len() == 1);
    let private_dicts: Vec<Vec<u8>> = privates.iter().map(|p| private_bytes(p)).collect();
    let local_indexes: Vec<Vec<u8>> = privates.iter().map(|p| p.subrs.as_ref().map(|s| index_sparse(s.count, &s.items, false)).unwrap_or_default()).collect();
    let fdselect = cid_spec.map(|(fd_of_glyph, fdselect_format)| {
        assert_eq!(fd_of_glyph.len(), n_glyphs);
        fdselect_bytes(fd_of_glyph, fdselect_format)
    });

    // Top DICT with five-byte offsets: size is independent of the offset values
    let top_dict = |charset_off: usize, fdselect_off: usize, cs_off: usize, fdarray_off: usize, priv_off: usize| -> Vec<u8> {
        let mut d = Vec::new();
        if cid {
            dict_int(391, &mut d);
            dict_int(392, &mut d);
            dict_int(0, &mut d);
            dict_op(dop::ROS, &mut d);
            dict_int(n_glyphs as i32, &mut d);
            dict_op(dop::CID_COUNT, &mut d);
        } else {
            // a leading operator other than ROS / SyntheticBase
            for v in [0, -200, 1000, 800] {
                dict_int(v, &mut d);
            }
            dict_op(dop::FONT_BBOX, &mut d);
        }
        d.extend_from_slice(&opts.top_extra);
        if charset.is_some() {
            dict_int5(charset_off as i32, &mut d);
            dict_op(dop::CHARSET, &mut d);
        }
        dict_int5(cs_off as i32, &mut d);
        dict_op(dop::CHARSTRINGS, &mut d);
        if cid {
            dict_int5(fdarray_off as i32, &mut d);
            dict_op(dop::FD_ARRAY, &mut d);
            dict_int5(fdselect_off as i32, &mut d);
            dict_op(dop::FD_SELECT, &mut d);
        } else {
            dict_int5(private_dicts[0].len() as i32, &mut d);
            dict_int5(priv_off as i32, &mut d);
            dict_op(dop::PRIVATE, &mut d);
        }
        d
    };
    let font_dict_of = |f: usize, size: usize, off: usize| -> Vec<u8> {
        let mut d = Vec::new();
        if let Some(e) = opts.font_dict_extra.get(f) {
            d.extend_from_slice(e);
        }
        dict_int5(size as i32, &mut d);
        dict_int5(off as i32, &mut d);
        dict_op(dop::PRIVATE, &mut d);
        d
    };
    let top_len = index_dense(&[top_dict(0, 0, 0, 0, 0)], false).len();
    let fdarray_len = if cid { index_dense(&private_dicts.iter().enumerate().map(|(f, p)| font_dict_of(f, p.len(), 0)).collect::<Vec<_>>(), false).len() } else { 0 };

    let mut off = hdr + name_index.len() + top_len + string_index.len() + gsubr_index.len();
    let charset_off = off;
    off += charset.as_ref().map(|c| c.len()).unwrap_or(0);
    let fdselect_off = off;
    off += fdselect.as_ref().map(|c| c.len()).unwrap_or(0);
    let cs_off = off;
    off += charstrings_index.len();
    let fdarray_off = off;
    off += fdarray_len;
    let mut priv_offs = Vec::new();
    for (p, l) in private_dicts.iter().zip(local_indexes.iter()) {
        priv_offs.push(off);
        off += p.len() + l.len();
    }
    let total = off;

    let mut w = W::new();
    let off_size = if total <= 0xFF {
        1
    } else if total <= 0xFFFF {
        2
    } else if total <= 0xFF_FFFF {
        3
    } else {
        4
    };
    w.u8(1).u8(0).u8(hdr as u8).u8(off_size);
    for i in 4..hdr {
        w.u8(0xE0 + i as u8); // extension bytes a reader must skip
    }
    w.bytes(&name_index);
    let td = index_dense(&[top_dict(charset_off, fdselect_off, cs_off, fdarray_off, priv_offs[0])], false);
    assert_eq!(td.len(), top_len);
    w.bytes(&td);
    w.bytes(&string_index);
    w.bytes(&gsubr_index);
    assert_eq!(w.len(), charset_off);
    if let Some(c) = &charset {
        w.bytes(c);
    }
    assert_eq!(w.len(), fdselect_off);
    if let Some(c) = &fdselect {
        w.bytes(c);
    }
    assert_eq!(w.len(), cs_off);
    w.bytes(&charstrings_index);
    assert_eq!(w.len(), fdarray_off);
    if cid {
        let fa = index_dense(&private_dicts.iter().zip(priv_offs.iter()).enumerate().map(|(f, (p, o))| font_dict_of(f, p.len(), *o)).collect::<Vec<_>>(), false);
        assert_eq!(fa.len(), fdarray_len);
        w.bytes(&fa);
    }
    for ((p, l), o) in private_dicts.iter().zip(local_indexes.iter()).zip(priv_offs.iter()) {
        assert_eq!(w.len(), *o);
        w.bytes(p);
        w.bytes(l);
    }
    assert_eq!(w.len(), total);
    w.done()
}

// ------------------------------------------------------------------------------------------------
// CFF2 table, ItemVariationStore, region scalars
// ------------------------------------------------------------------------------------------------

/// (start, peak, end) per axis, F2Dot14 raw
pub type Region = Vec<(i16, i16, i16)>;

#[derive(Clone, Debug, PartialEq)]
pub struct VarStore {
    pub axis_count: u16,
    pub regions: Vec<Region>,
    /// per ItemVariationData subtable: its regionIndexes (CFF2 uses itemCount = 0)
    pub datas: Vec<Vec<u16>>,
}

/// ItemVariationStore (OpenType "Item variation store"), format 1
pub fn ivs_bytes(v: &VarStore) -> Vec<u8> {
    let mut w = W::new();
    let n = v.datas.len();
    let header = 2 + 4 + 2 + 4 * n;
    let region_list_len = 4 + v.regions.len() * v.axis_count as usize * 6;
    w.u16(1).u32(header as u32).u16(n as u16);
    let mut off = header + region_list_len;
    for d in &v.datas {
        w.u32(off as u32);
        off += 6 + 2 * d.len();
    }
    w.u16(v.axis_count).u16(v.regions.len() as u16);
    for r in &v.regions {
        assert_eq!(r.len(), v.axis_count as usize);
        for (s, p, e) in r {
            w.i16(*s).i16(*p).i16(*e);
        }
    }
    for d in &v.datas {
        w.u16(0).u16(0).u16(d.len() as u16);
        for r in d {
            w.u16(*r);
        }
    }
    w.done()
}

/// Scalar of a region at normalised coordinates (F2Dot14 raw), OpenType "Algorithm for interpolation of instance values".
pub fn region_scalar(region: &Region, coords: &[i16]) -> f64 {
    let mut s = 1.0f64;
    for (a, (start, peak, end)) in region.iter().enumerate() {
        let (start, peak, end) = (*start as f64, *peak as f64, *end as f64);
        let c = coords.get(a).copied().unwrap_or(0) as f64;
        let axis = if start > peak || peak > end {
            1.0
        } else if start < 0.0 && end > 0.0 && peak != 0.0 {
            1.0
        } else if peak == 0.0 {
            1.0
        } else if c < start || c > end {
            0.0
        } else if c == peak {
            1.0
        } else if c < peak {
            (c - start) / (peak - start)
        } else {
            (end - c) / (end - peak)
        };
        s *= axis;
    }
    s
}

/// scalars of the regions of ItemVariationData `vsindex`, in regionIndexes order
pub fn scalars_for(v: &VarStore, vsindex: usize, coords: &[i16]) -> Vec<f64> {
    v.datas[vsindex].iter().map(|r| region_scalar(&v.regions[*r as usize], coords)).collect()
}

#[derive(Clone, Debug, PartialEq)]
pub struct Cff2 {
    pub charstrings: Vec<Vec<u8>>,
    pub gsubrs: SubrIndex,
    pub fds: Vec<PrivateSpec>,
    /// (font DICT per glyph, format 0 or 3); required when there is more than one font DICT
    pub fdselect: Option<(Vec<u8>, u8)>,
    pub vstore: Option<VarStore>,
}

/// Build a CFF2 table. Layout: Header (5 bytes), Top DICT, Global Subr INDEX, VariationStore, FDSelect, CharStrings INDEX,
/// Font DICT INDEX, then each Private DICT followed by its local Subrs INDEX.
pub fn build_cff2(f: &Cff2) -> Vec<u8> {
    build_cff2_parts(&f.charstrings, &f.gsubrs, &f.fds, f.fdselect.as_ref().map(|(m, fmt)| (&m[..], *fmt)), f.vstore.as_ref())
}

/// `build_cff2` on borrowed parts
pub fn build_cff2_parts(charstrings: &[Vec<u8>], gsubrs: &SubrIndex, fds: &[PrivateSpec], fdselect_spec: Option<(&[u8], u8)>, vstore_spec: Option<&VarStore>) -> Vec<u8> {
    build_cff2_opts(charstrings, gsubrs, fds, fdselect_spec, vstore_spec, 5)
}

/// `build_cff2_parts` with a header of `hdr_size` >= 5 bytes (extension bytes between the header and the Top DICT)
pub fn build_cff2_opts(charstrings: &[Vec<u8>], gsubrs: &SubrIndex, fds: &[PrivateSpec], fdselect_spec: Option<(&[u8], u8)>, vstore_spec: Option<&VarStore>, hdr_size: u8) -> Vec<u8> {
    let hdr = hdr_size as usize;
    assert!(hdr >= 5);
    let gsubr_index = index_sparse(gsubrs.count, &gsubrs.items, true);
    let vstore = vstore_spec.map(|v| {
        let b = ivs_bytes(v);
        let mut w = W::new();
        w.u16(b.len() as u16).bytes(&b);
        w.done()
    });
    let fdselect = fdselect_spec.map(|(m, fmt)| {
        assert_eq!(m.len(), charstrings.len());
        fdselect_bytes(m, fmt)
    });
    let charstrings_index = index_dense(charstrings, true);
    let private_dicts: Vec<Vec<u8>> = fds.iter().map(private_bytes).collect();
    let local_indexes: Vec<Vec<u8>> = fds.iter().map(|p| p.subrs.as_ref().map(|s| index_sparse(s.count, &s.items, true)).unwrap_or_default()).collect();
    let font_dict = |size: usize, off: usize| -> Vec<u8> {
        let mut d = Vec::new();
        dict_int5(size as i32, &mut d);
        dict_int5(off as i32, &mut d);
        dict_op(dop::PRIVATE, &mut d);
        d
    };
    let top_dict = |cs: usize, fda: usize, fds: usize, vs: usize| -> Vec<u8> {
        let mut d = Vec::new();
        dict_int5(cs as i32, &mut d);
        dict_op(dop::CHARSTRINGS, &mut d);
        dict_int5(fda as i32, &mut d);
        dict_op(dop::FD_ARRAY, &mut d);
        if fdselect.is_some() {
            dict_int5(fds as i32, &mut d);
            dict_op(dop::FD_SELECT, &mut d);
        }
        if vstore.is_some() {
            dict_int5(vs as i32, &mut d);
            dict_op(dop::VSTORE, &mut d);
        }
        d
    };
    let top_len = top_dict(0, 0, 0, 0).len();
    let fdarray_len = index_dense(&private_dicts.iter().map(|p| font_dict(p.len(), 0)).collect::<Vec<_>>(), true).len();
    let mut off = hdr + top_len + gsubr_index.len();
    let vs_off = off;
    off += vstore.as_ref().map(|v| v.len()).unwrap_or(0);
    let fds_off = off;
    off += fdselect.as_ref().map(|v| v.len()).unwrap_or(0);
    let cs_off = off;
    off += charstrings_index.len();
    let fda_off = off;
    off += fdarray_len;
    let mut priv_offs = Vec::new();
    for (p, l) in private_dicts.iter().zip(local_indexes.iter()) {
        priv_offs.push(off);
        off += p.len() + l.len();
    }
    let total = off;
    let mut w = W::new();
    w.u8(2).u8(0).u8(hdr as u8).u16(top_len as u16);
    for i in 5..hdr {
        w.u8(0xE0 + i as u8);
    }
    w.bytes(&top_dict(cs_off, fda_off, fds_off, vs_off));
    w.bytes(&gsubr_index);
    assert_eq!(w.len(), vs_off);
    if let Some(v) = &vstore {
        w.bytes(v);
    }
    if let Some(v) = &fdselect {
        w.bytes(v);
    }
    assert_eq!(w.len(), cs_off);
    w.bytes(&charstrings_index);
    assert_eq!(w.len(), fda_off);
    w.bytes(&index_dense(&private_dicts.iter().zip(priv_offs.iter()).map(|(p, o)| font_dict(p.len(), *o)).collect::<Vec<_>>(), true));
    for ((p, l), o) in private_dicts.iter().zip(local_indexes.iter()).zip(priv_offs.iter()) {
        assert_eq!(w.len(), *o);
        w.bytes(p);
        w.bytes(l);
    }
    assert_eq!(w.len(), total);
    w.done()
}

// ------------------------------------------------------------------------------------------------
// subroutine factorings of a byte stream
// ------------------------------------------------------------------------------------------------

#[derive(Clone, Copy, Debug, PartialEq, Eq)]
pub enum Cut {
    /// main = stream[..p] call ; subr = stream[p..]
    Tail(usize),
    /// subr = stream[..p] (return) ; main = call stream[p..]
    Head(usize),
    /// subr = stream[i..j] (return) ; main = stream[..i] call stream[j..]
    Mid(usize, usize),
}

/// Split `stream` at token boundaries into a main charstring and one subroutine. `call` is the byte sequence
/// `operand callsubr|callgsubr`. Type 2 subroutines end with `return` unless they end the character with endchar
/// (TN 5177 4.4); CFF2 subroutines simply end (return was removed).
pub fn factor(stream: &[u8], cut: Cut, call: &[u8], cff2: bool) -> (Vec<u8>, Vec<u8>) {
    // a Type 2 stream handed to this function ends with endchar, which must be the last operator executed: a
    // subroutine that contains the end of the stream therefore has no return
    let ret_for = |end: usize| -> &[u8] {
        if cff2 || end == stream.len() {
            &[]
        } else {
            &[op::RETURN]
        }
    };
    match cut {
        Cut::Tail(p) => {
            let mut main = stream[..p].to_vec();
            main.extend_from_slice(call);
            let subr = stream[p..].to_vec();
            (main, subr)
        }
        Cut::Head(p) => {
            let mut subr = stream[..p].to_vec();
            subr.extend_from_slice(ret_for(p));
            let mut main = call.to_vec();
            main.extend_from_slice(&stream[p..]);
            (main, subr)
        }
        Cut::Mid(i, j) => {
            let mut subr = stream[i..j].to_vec();
            subr.extend_from_slice(ret_for(j));
            let mut main = stream[..i].to_vec();
            main.extend_from_slice(call);
            main.extend_from_slice(&stream[j..]);
            (main, subr)
        }
    }
}

/// every factoring of a serialised charstring into main + one subroutine at the recorded cut points
pub fn all_cuts(s: &Serialized) -> Vec<Cut> {
    let mut v = Vec::new();
    let n = s.cuts.len();
    for a in 0..n {
        if a + 1 < n {
            v.push(Cut::Tail(s.cuts[a]));
        }
        if a > 0 {
            v.push(Cut::Head(s.cuts[a]));
        }
        for b in a + 1..n {
            if !(a == 0 && b + 1 == n) {
                v.push(Cut::Mid(s.cuts[a], s.cuts[b]));
            }
        }
    }
    v
}

// ------------------------------------------------------------------------------------------------
// reference interpreter (TN 5177 / CFF2 charstrings), with documented-deviation switches
// ------------------------------------------------------------------------------------------------
//
// Used (a) as a machinery self-test: every byte string the encoder produces must interpret back to the path model,
// and (b) to decide whether an observed disagreement equals a *documented deviation* of the implementation under test.

/// Ways in which an implementation is known to depart from the specification; all false = the specification.
#[derive(Clone, Copy, Debug, Default, PartialEq, Eq)]
pub struct Dev {
    /// seac: the "width already seen" flag of the composite glyph is shared with the component charstrings (set once the
    /// seac endchar has been processed), so a component's own width operand is not recognised
    pub seac_width_flag_shared: bool,
    /// seac: the stem count of the base component is carried into the accent component (mask length grows)
    pub seac_stem_count_carried: bool,
    /// CFF2: local subroutines and default vsindex are always taken from font DICT 0
    pub cff2_first_fd_only: bool,
    /// seac with the predefined ISOAdobe charset: the StandardEncoding *code* (not the SID) is compared with 228
    /// (honoured by the caller's `seac_gid` closure)
    pub seac_isoadobe_code_above_228_rejected: bool,
}

pub struct Env<'a> {
    pub cff2: bool,
    pub charstrings: &'a [Vec<u8>],
    pub gsubrs: &'a SubrIndex,
    /// local subroutines of the font DICT of each glyph (index by FD), and the FD of each glyph
    pub lsubrs_by_fd: Vec<Option<&'a SubrIndex>>,
    pub fd_of_glyph: &'a dyn Fn(u16) -> usize,
    /// StandardEncoding code -> glyph id through the charset
    pub seac_gid: &'a dyn Fn(u8) -> Option<u16>,
    /// region scalars of ItemVariationData `vsindex` at the tuple (None: not variable / index out of range)
    pub scalars: &'a dyn Fn(usize) -> Option<Vec<f64>>,
    /// default vsindex per FD (Private DICT)
    pub default_vsindex_by_fd: Vec<usize>,
    pub dev: Dev,
}

struct St {
    /// the width operand of the charstring, if it has one
    width: Option<f64>,
    stack: Vec<f64>,
    x: f64,
    y: f64,
    open: bool,
    first_clear: bool,
    width_locked: bool,
    nstems: usize,
    out: Vec<Cmd>,
    ended: bool,
    vsindex: Option<usize>,
    scal: Option<Vec<f64>>,
    seen_blend: bool,
}

const MAX_NEST: usize = 10;

fn grab(st: &mut St, buf: &mut [f64; 520]) -> Result<usize, String> {
    let n = st.stack.len();
    if n > buf.len() {
        return Err("operand stack overflow".into());
    }
    buf[..n].copy_from_slice(&st.stack);
    st.stack.clear();
    Ok(n)
}

impl<'a> Env<'a> {
    pub fn interpret(&self, gid: u16) -> Result<Vec<Cmd>, String> {
        self.interpret_with_width(gid).map(|r| r.0)
    }

    /// the drawing commands and the width operand of the glyph's charstring (None: the charstring has none)
    pub fn interpret_with_width(&self, gid: u16) -> Result<(Vec<Cmd>, Option<f64>), String> {
        let mut st = St { width: None, stack: Vec::with_capacity(16), x: 0.0, y: 0.0, open: false, first_clear: true, width_locked: false, nstems: 0, out: Vec::with_capacity(16), ended: false, vsindex: None, scal: None, seen_blend: false };
        let cs = self.charstrings.get(gid as usize).ok_or("no such glyph")?;
        let fd = if self.dev.cff2_first_fd_only && self.cff2 { 0 } else { (self.fd_of_glyph)(gid) };
        self.run(cs, fd, 0, &mut st)?;
        if self.cff2 {
            if st.open {
                st.out.push((4, [0.; 6]));
            }
        } else if !st.ended {
            return Err("missing endchar".into());
        }
        Ok((st.out, st.width))
    }

    fn take_width(&self, st: &mut St, expect: usize, parity: bool) -> Result<(), String> {
        // the first stack-clearing operator may be preceded by one extra operand, the width (Type 2 only)
        let n = st.stack.len();
        let extra = if parity { n % 2 == 1 } else { n == expect + 1 };
        if extra {
            if !self.cff2 && st.first_clear && !st.width_locked {
                st.width = Some(st.stack.remove(0));
            } else if parity && st.width_locked {
                // deviation model: the odd operand is silently dropped by the stem operators
                st.stack.remove(0);
            } else {
                return Err(format!("operand count {} (expected {})", n, expect));
            }
        } else if !parity && n != expect {
            return Err(format!("operand count {} (expected {})", n, expect));
        }
        st.first_clear = false;
        Ok(())
    }

    fn moveto(&self, st: &mut St, dx: f64, dy: f64) {
        if st.open {
            st.out.push((4, [0.; 6]));
        }
        st.x += dx;
        st.y += dy;
        st.out.push((0, [st.x, st.y, 0., 0., 0., 0.]));
        st.open = true;
    }
    fn lineto(&self, st: &mut St, dx: f64, dy: f64) {
        st.x += dx;
        st.y += dy;
        st.out.push((1, [st.x, st.y, 0., 0., 0., 0.]));
    }
    fn curveto(&self, st: &mut St, a: [f64; 6]) {
        let x1 = st.x + a[0];
        let y1 = st.y + a[1];
        let x2 = x1 + a[2];
        let y2 = y1 + a[3];
        st.x = x2 + a[4];
        st.y = y2 + a[5];
        st.out.push((3, [x1, y1, x2, y2, st.x, st.y]));
    }

    fn run(&self, cs: &[u8], fd: usize, depth: usize, st: &mut St) -> Result<(), String> {
        let mut i = 0usize;
        // scratch copy of the operands of the operator being executed (no allocation per operator)
        let mut buf = [0f64; 520];
        let need_open = |st: &St| if st.open { Ok(()) } else { Err("path operator before moveto".to_string()) };
        while i < cs.len() {
            let b = cs[i];
            i += 1;
            match b {
                32..=246 => st.stack.push(b as f64 - 139.0),
                247..=250 => {
                    let b1 = *cs.get(i).ok_or("truncated")? as f64;
                    i += 1;
                    st.stack.push((b as f64 - 247.0) * 256.0 + b1 + 108.0);
                }
                251..=254 => {
                    let b1 = *cs.get(i).ok_or("truncated")? as f64;
                    i += 1;
                    st.stack.push(-(b as f64 - 251.0) * 256.0 - b1 - 108.0);
                }
                28 => {
                    let s = cs.get(i..i + 2).ok_or("truncated")?;
                    i += 2;
                    st.stack.push(i16::from_be_bytes([s[0], s[1]]) as f64);
                }
                255 => {
                    let s = cs.get(i..i + 4).ok_or("truncated")?;
                    i += 4;
                    st.stack.push(i32::from_be_bytes([s[0], s[1], s[2], s[3]]) as f64 / 65536.0);
                }
                op::HSTEM | op::VSTEM | op::HSTEMHM | op::VSTEMHM => {
                    self.take_width(st, 0, true)?;
                    st.nstems += st.stack.len() / 2;
                    st.stack.clear();
                }
                op::HINTMASK | op::CNTRMASK => {
                    self.take_width(st, 0, true)?;
                    st.nstems += st.stack.len() / 2;
                    st.stack.clear();
                    let n = (st.nstems + 7) / 8;
                    if i + n > cs.len() {
                        return Err("mask runs past the end".into());
                    }
                    i += n;
                }
                op::RMOVETO => {
                    self.take_width(st, 2, false)?;
                    let (dx, dy) = (st.stack[0], st.stack[1]);
                    self.moveto(st, dx, dy);
                    st.stack.clear();
                }
                op::HMOVETO => {
                    self.take_width(st, 1, false)?;
                    let dx = st.stack[0];
                    self.moveto(st, dx, 0.0);
                    st.stack.clear();
                }
                op::VMOVETO => {
                    self.take_width(st, 1, false)?;
                    let dy = st.stack[0];
                    self.moveto(st, 0.0, dy);
                    st.stack.clear();
                }
                op::RLINETO => {
                    need_open(st)?;
                    let n_args = grab(st, &mut buf)?;
                    let a = &buf[..n_args];
                    if a.is_empty() || a.len() % 2 != 0 {
                        return Err("rlineto operands".into());
                    }
                    for c in a.chunks(2) {
                        self.lineto(st, c[0], c[1]);
                    }
                }
                op::HLINETO | op::VLINETO => {
                    need_open(st)?;
                    let n_args = grab(st, &mut buf)?;
                    let a = &buf[..n_args];
                    if a.is_empty() {
                        return Err("hlineto operands".into());
                    }
                    let mut h = b == op::HLINETO;
                    for &v in a {
                        if h {
                            self.lineto(st, v, 0.0);
                        } else {
                            self.lineto(st, 0.0, v);
                        }
                        h = !h;
                    }
                }
                op::RRCURVETO => {
                    need_open(st)?;
                    let n_args = grab(st, &mut buf)?;
                    let a = &buf[..n_args];
                    if a.is_empty() || a.len() % 6 != 0 {
                        return Err("rrcurveto operands".into());
                    }
                    for c in a.chunks(6) {
                        self.curveto(st, [c[0], c[1], c[2], c[3], c[4], c[5]]);
                    }
                }
                op::RCURVELINE => {
                    need_open(st)?;
                    let n_args = grab(st, &mut buf)?;
                    let a = &buf[..n_args];
                    if a.len() < 8 || (a.len() - 2) % 6 != 0 {
                        return Err("rcurveline operands".into());
                    }
                    for c in a[..a.len() - 2].chunks(6) {
                        self.curveto(st, [c[0], c[1], c[2], c[3], c[4], c[5]]);
                    }
                    self.lineto(st, a[a.len() - 2], a[a.len() - 1]);
                }
                op::RLINECURVE => {
                    need_open(st)?;
                    let n_args = grab(st, &mut buf)?;
                    let a = &buf[..n_args];
                    if a.len() < 8 || (a.len() - 6) % 2 != 0 {
                        return Err("rlinecurve operands".into());
                    }
                    for c in a[..a.len() - 6].chunks(2) {
                        self.lineto(st, c[0], c[1]);
                    }
                    let c = &a[a.len() - 6..];
                    self.curveto(st, [c[0], c[1], c[2], c[3], c[4], c[5]]);
                }
                op::HHCURVETO | op::VVCURVETO => {
                    need_open(st)?;
                    let n_args = grab(st, &mut buf)?;
                    let a = &buf[..n_args];
                    let (lead, rest) = if a.len() % 2 == 1 { (a[0], &a[1..]) } else { (0.0, &a[..]) };
                    if rest.is_empty() || rest.len() % 4 != 0 {
                        return Err("hhcurveto operands".into());
                    }
                    for (j, c) in rest.chunks(4).enumerate() {
                        let l = if j == 0 { lead } else { 0.0 };
                        if b == op::HHCURVETO {
                            self.curveto(st, [c[0], l, c[1], c[2], c[3], 0.0]);
                        } else {
                            self.curveto(st, [l, c[0], c[1], c[2], 0.0, c[3]]);
                        }
                    }
                }
                op::HVCURVETO | op::VHCURVETO => {
                    need_open(st)?;
                    let n_args = grab(st, &mut buf)?;
                    let a = &buf[..n_args];
                    let n = a.len() / 4;
                    if n == 0 || !(a.len() % 4 == 0 || a.len() % 4 == 1) {
                        return Err("hvcurveto operands".into());
                    }
                    let tail = if a.len() % 4 == 1 { a[a.len() - 1] } else { 0.0 };
                    let mut h = b == op::HVCURVETO;
                    for (j, c) in a[..4 * n].chunks(4).enumerate() {
                        let t = if j + 1 == n { tail } else { 0.0 };
                        if h {
                            self.curveto(st, [c[0], 0.0, c[1], c[2], t, c[3]]);
                        } else {
                            self.curveto(st, [0.0, c[0], c[1], c[2], c[3], t]);
                        }
                        h = !h;
                    }
                }
                op::ESCAPE => {
                    let b2 = *cs.get(i).ok_or("truncated")?;
                    i += 1;
                    need_open(st)?;
                    let n_args = grab(st, &mut buf)?;
                    let a = &buf[..n_args];
                    let (x0, y0) = (st.x, st.y);
                    match b2 {
                        op::FLEX => {
                            if a.len() != 13 {
                                return Err("flex operands".into());
                            }
                            self.curveto(st, [a[0], a[1], a[2], a[3], a[4], a[5]]);
                            self.curveto(st, [a[6], a[7], a[8], a[9], a[10], a[11]]);
                        }
                        op::HFLEX => {
                            if a.len() != 7 {
                                return Err("hflex operands".into());
                            }
                            self.curveto(st, [a[0], 0.0, a[1], a[2], a[3], 0.0]);
                            self.curveto(st, [a[4], 0.0, a[5], -a[2], a[6], 0.0]);
                        }
                        op::HFLEX1 => {
                            if a.len() != 9 {
                                return Err("hflex1 operands".into());
                            }
                            self.curveto(st, [a[0], a[1], a[2], a[3], a[4], 0.0]);
                            let dy6 = -(a[1] + a[3] + a[7]);
                            self.curveto(st, [a[5], 0.0, a[6], a[7], a[8], dy6]);
                        }
                        op::FLEX1 => {
                            if a.len() != 11 {
                                return Err("flex1 operands".into());
                            }
                            let dx = a[0] + a[2] + a[4] + a[6] + a[8];
                            let dy = a[1] + a[3] + a[5] + a[7] + a[9];
                            self.curveto(st, [a[0], a[1], a[2], a[3], a[4], a[5]]);
                            let (dx6, dy6) = if dx.abs() > dy.abs() { (a[10], -dy) } else { (-dx, a[10]) };
                            self.curveto(st, [a[6], a[7], a[8], a[9], dx6, dy6]);
                        }
                        _ => return Err(format!("escape operator {}", b2)),
                    }
                    let _ = (x0, y0);
                }
                op::CALLSUBR | op::CALLGSUBR => {
                    let v = st.stack.pop().ok_or("callsubr without operand")?;
                    if depth >= MAX_NEST {
                        return Err("nesting limit".into());
                    }
                    let idx = if b == op::CALLSUBR { self.lsubrs_by_fd.get(fd).copied().flatten().ok_or("no local subrs")? } else { self.gsubrs };
                    let n = v as i64 + subr_bias(idx.count) as i64;
                    if v.fract() != 0.0 || n < 0 || n as usize >= idx.count {
                        return Err("subr number out of range".into());
                    }
                    self.run(idx.get(n as usize), fd, depth + 1, st)?;
                    if st.ended {
                        return Ok(());
                    }
                }
                op::RETURN => {
                    if self.cff2 {
                        return Err("return in CFF2".into());
                    }
                    return Ok(());
                }
                op::ENDCHAR => {
                    if self.cff2 {
                        return Err("endchar in CFF2".into());
                    }
                    let n = st.stack.len();
                    let width_ok = st.first_clear && !st.width_locked;
                    if n == 4 || (n == 5 && width_ok) {
                        if n == 5 {
                            st.width = Some(st.stack[0]);
                        }
                        let a = st.stack.split_off(n - 4);
                        st.stack.clear();
                        let (adx, ady, bchar, achar) = (a[0], a[1], a[2], a[3]);
                        // the components are nested charstrings: they count towards the nesting limit like subroutines
                        if depth >= MAX_NEST {
                            return Err("nesting limit".into());
                        }
                        let bg = (self.seac_gid)(bchar as u8).ok_or("seac base code")?;
                        let ag = (self.seac_gid)(achar as u8).ok_or("seac accent code")?;
                        if st.open {
                            st.out.push((4, [0.; 6]));
                            st.open = false;
                        }
                        let mut carried = 0usize;
                        for (g, ox, oy) in [(bg, 0.0, 0.0), (ag, adx, ady)] {
                            let mut sub = St { width: None, stack: Vec::new(), x: ox, y: oy, open: false, first_clear: true, width_locked: self.dev.seac_width_flag_shared, nstems: if self.dev.seac_stem_count_carried { carried } else { 0 }, out: Vec::new(), ended: false, vsindex: None, scal: None, seen_blend: false };
                            let cs2 = self.charstrings.get(g as usize).ok_or("seac glyph")?;
                            self.run(cs2, (self.fd_of_glyph)(g), depth + 1, &mut sub)?;
                            if !sub.ended {
                                return Err("component without endchar".into());
                            }
                            carried = sub.nstems;
                            st.out.extend(sub.out);
                        }
                    } else if n == 0 || (n == 1 && width_ok) {
                        if n == 1 {
                            st.width = Some(st.stack[0]);
                        }
                        st.stack.clear();
                    } else {
                        return Err(format!("endchar with {} operands", n));
                    }
                    if st.open {
                        st.out.push((4, [0.; 6]));
                        st.open = false;
                    }
                    st.ended = true;
                    return Ok(());
                }
                op::VSINDEX => {
                    if !self.cff2 {
                        return Err("vsindex in Type 2".into());
                    }
                    if st.stack.len() != 1 || st.seen_blend || st.vsindex.is_some() {
                        return Err("vsindex misuse".into());
                    }
                    st.vsindex = Some(st.stack.pop().unwrap() as usize);
                }
                op::BLEND => {
                    if !self.cff2 {
                        return Err("blend in Type 2".into());
                    }
                    st.seen_blend = true;
                    if st.scal.is_none() {
                        let vi = st.vsindex.unwrap_or(self.default_vsindex_by_fd[fd]);
                        st.scal = Some((self.scalars)(vi).ok_or("no variation data for vsindex")?);
                    }
                    let sc = st.scal.clone().unwrap();
                    let k = sc.len();
                    let n = st.stack.pop().ok_or("blend without count")? as usize;
                    let need = n * (k + 1);
                    if st.stack.len() < need {
                        return Err("blend operands".into());
                    }
                    let ops = st.stack.split_off(st.stack.len() - need);
                    for j in 0..n {
                        let mut v = ops[j];
                        for r in 0..k {
                            v += sc[r] * ops[n + j * k + r];
                        }
                        st.stack.push(v);
                    }
                }
                _ => return Err(format!("reserved operator {}", b)),
            }
        }
        Ok(())
    }
}

// ------------------------------------------------------------------------------------------------
// independent readers (CFF 1 table, DICT, INDEX, charset, FDSelect) — for reading *outputs* of the code under test
// ------------------------------------------------------------------------------------------------

/// An INDEX inside a table, read lazily.
#[derive(Clone, Copy, Debug)]
pub struct IndexRef<'a> {
    d: &'a [u8],
    pub count: usize,
    off_size: usize,
    offs: usize,
    /// position of the byte preceding the object data (offsets are relative to it)
    base: usize,
    /// position just after the INDEX
    pub end: usize,
}

impl<'a> IndexRef<'a> {
    /// `count32`: CFF2 (uint32 count) instead of CFF 1 (uint16 count)
    pub fn read(d: &'a [u8], pos: usize, count32: bool) -> Result<IndexRef<'a>, String> {
        let mut r = crate::be::R::at(d, pos);
        let count = if count32 { r.u32().ok_or("INDEX: truncated count")? as usize } else { r.u16().ok_or("INDEX: truncated count")? as usize };
        if count == 0 {
            return Ok(IndexRef { d, count, off_size: 1, offs: r.p, base: r.p, end: r.p });
        }
        let off_size = r.u8().ok_or("INDEX: truncated offSize")? as usize;
        if !(1..=4).contains(&off_size) {
            return Err(format!("INDEX: offSize {}", off_size));
        }
        let offs = r.p;
        let base = offs + (count + 1) * off_size - 1;
        let ix = IndexRef { d, count, off_size, offs, base, end: 0 };
        let last = ix.offset(count).ok_or("INDEX: truncated offset array")?;
        if last < 1 || base + last > d.len() {
            return Err("INDEX: data beyond the table".into());
        }
        Ok(IndexRef { end: base + last, ..ix })
    }
    fn offset(&self, i: usize) -> Option<usize> {
        let s = self.d.get(self.offs + i * self.off_size..self.offs + (i + 1) * self.off_size)?;
        Some(s.iter().fold(0usize, |a, b| (a << 8) | *b as usize))
    }
    pub fn get(&self, i: usize) -> Option<&'a [u8]> {
        if i >= self.count {
            return None;
        }
        let (a, b) = (self.offset(i)?, self.offset(i + 1)?);
        if a < 1 || b < a {
            return None;
        }
        self.d.get(self.base + a..self.base + b)
    }
    pub fn to_vec(&self) -> Result<Vec<Vec<u8>>, String> {
        (0..self.count).map(|i| self.get(i).map(|s| s.to_vec()).ok_or_else(|| format!("INDEX: object {} unreadable", i))).collect()
    }
}

/// DICT data -> (operator, operands); escaped operators are 0x0c00 | second byte (TN 5176 section 4)
pub fn read_dict(d: &[u8]) -> Result<Vec<(u16, Vec<f64>)>, String> {
    let mut out = Vec::new();
    let mut ops: Vec<f64> = Vec::new();
    let mut i = 0;
    while i < d.len() {
        let b = d[i];
        i += 1;
        match b {
            0..=11 | 13..=24 => out.push((b as u16, std::mem::take(&mut ops))),
            12 => {
                let b1 = *d.get(i).ok_or("DICT: truncated escape")?;
                i += 1;
                out.push((0x0c00 | b1 as u16, std::mem::take(&mut ops)));
            }
            28 => {
                let s = d.get(i..i + 2).ok_or("DICT: truncated int16")?;
                i += 2;
                ops.push(i16::from_be_bytes([s[0], s[1]]) as f64);
            }
            29 => {
                let s = d.get(i..i + 4).ok_or("DICT: truncated int32")?;
                i += 4;
                ops.push(i32::from_be_bytes([s[0], s[1], s[2], s[3]]) as f64);
            }
            30 => {
                let mut text = String::new();
                'outer: loop {
                    let byte = *d.get(i).ok_or("DICT: truncated real")?;
                    i += 1;
                    for nib in [byte >> 4, byte & 15] {
                        match nib {
                            0..=9 => text.push((b'0' + nib) as char),
                            10 => text.push('.'),
                            11 => text.push('E'),
                            12 => text.push_str("E-"),
                            14 => text.push('-'),
                            15 => break 'outer,
                            _ => return Err("DICT: reserved nibble".into()),
                        }
                    }
                }
                ops.push(text.parse::<f64>().map_err(|_| format!("DICT: bad real {:?}", text))?);
            }
            32..=246 => ops.push(b as f64 - 139.0),
            247..=250 => {
                let b1 = *d.get(i).ok_or("DICT: truncated")? as f64;
                i += 1;
                ops.push((b as f64 - 247.0) * 256.0 + b1 + 108.0);
            }
            251..=254 => {
                let b1 = *d.get(i).ok_or("DICT: truncated")? as f64;
                i += 1;
                ops.push(-(b as f64 - 251.0) * 256.0 - b1 - 108.0);
            }
            _ => return Err(format!("DICT: reserved byte {}", b)),
        }
    }
    if !ops.is_empty() {
        return Err("DICT: operands without operator".into());
    }
    Ok(out)
}

fn dict_get(dict: &[(u16, Vec<f64>)], o: u16) -> Option<&Vec<f64>> {
    dict.iter().find(|e| e.0 == o).map(|e| &e.1)
}

/// A CFF 1 table (first font), read lazily.
pub struct Cff1Ref<'a> {
    d: &'a [u8],
    /// the String INDEX (custom strings; SID = 391 + index)
    pub strings: IndexRef<'a>,
    /// Top DICT, Font DICTs (CID-keyed fonts) and Private DICTs (one per font DICT; exactly one for name-keyed fonts)
    pub top: Vec<(u16, Vec<f64>)>,
    pub font_dicts: Vec<Vec<(u16, Vec<f64>)>>,
    pub privates: Vec<Vec<(u16, Vec<f64>)>>,
    pub hdr_size: u8,
    pub charstrings: IndexRef<'a>,
    pub gsubrs: IndexRef<'a>,
    pub cid: bool,
    /// per font DICT: local Subrs INDEX (name-keyed fonts have exactly one entry)
    pub lsubrs: Vec<Option<IndexRef<'a>>>,
    /// charset operand: 0, 1, 2 = predefined; otherwise an offset
    charset_off: usize,
    fdselect_off: Option<usize>,
}

impl<'a> Cff1Ref<'a> {
    pub fn read(d: &'a [u8]) -> Result<Cff1Ref<'a>, String> {
        let mut r = crate::be::R::new(d);
        let major = r.u8().ok_or("CFF header")?;
        let _minor = r.u8().ok_or("CFF header")?;
        let hdr = r.u8().ok_or("CFF header")? as usize;
        if major != 1 {
            return Err(format!("CFF major version {}", major));
        }
        let names = IndexRef::read(d, hdr, false)?;
        let tops = IndexRef::read(d, names.end, false)?;
        let strings = IndexRef::read(d, tops.end, false)?;
        let gsubrs = IndexRef::read(d, strings.end, false)?;
        let top = read_dict(tops.get(0).ok_or("no Top DICT")?)?;
        let one = |o: u16| dict_get(&top, o).and_then(|v| v.first().copied()).map(|v| v as usize);
        let charstrings = IndexRef::read(d, one(dop::CHARSTRINGS).ok_or("Top DICT without CharStrings")?, false)?;
        let cid = top.first().map(|e| e.0) == Some(dop::ROS);
        let mut privates: Vec<Vec<(u16, Vec<f64>)>> = Vec::new();
        let mut font_dicts: Vec<Vec<(u16, Vec<f64>)>> = Vec::new();
        let mut private_of = |dict: &[(u16, Vec<f64>)]| -> Result<Option<IndexRef<'a>>, String> {
            let p = dict_get(dict, dop::PRIVATE).ok_or("DICT without Private")?;
            if p.len() != 2 {
                return Err("Private needs two operands".into());
            }
            let (size, off) = (p[0] as usize, p[1] as usize);
            let pd = read_dict(d.get(off..off + size).ok_or("Private DICT beyond the table")?)?;
            let r = match dict_get(&pd, dop::SUBRS).and_then(|v| v.first().copied()) {
                Some(rel) => Some(IndexRef::read(d, off + rel as usize, false)?),
                None => None,
            };
            privates.push(pd);
            Ok(r)
        };
        let mut lsubrs = Vec::new();
        let mut fdselect_off = None;
        if cid {
            let fda = IndexRef::read(d, one(dop::FD_ARRAY).ok_or("CID font without FDArray")?, false)?;
            for i in 0..fda.count {
                let fdict = read_dict(fda.get(i).ok_or("Font DICT unreadable")?)?;
                lsubrs.push(private_of(&fdict)?);
                font_dicts.push(fdict);
            }
            fdselect_off = Some(one(dop::FD_SELECT).ok_or("CID font without FDSelect")?);
        } else {
            lsubrs.push(private_of(&top)?);
        }
        let charset_off = one(dop::CHARSET).unwrap_or(0);
        Ok(Cff1Ref { d, strings, top, font_dicts, privates, hdr_size: hdr as u8, charstrings, gsubrs, cid, lsubrs, charset_off, fdselect_off })
    }

    /// font DICT index of a glyph (0 for name-keyed fonts)
    pub fn fd_of(&self, gid: u16) -> Result<usize, String> {
        let pos = match self.fdselect_off {
            None => return Ok(0),
            Some(p) => p,
        };
        let mut r = crate::be::R::at(self.d, pos);
        let fd = match r.u8().ok_or("FDSelect")? {
            0 => *self.d.get(pos + 1 + gid as usize).ok_or("FDSelect format 0 truncated")?,
            3 => {
                let nr = r.u16().ok_or("FDSelect")? as usize;
                let mut found = None;
                let mut prev: Option<(u16, u8)> = None;
                for _ in 0..nr {
                    let first = r.u16().ok_or("FDSelect")?;
                    let fd = r.u8().ok_or("FDSelect")?;
                    if let Some((pf, pfd)) = prev {
                        if gid >= pf && gid < first {
                            found = Some(pfd);
                        }
                    }
                    prev = Some((first, fd));
                }
                let sentinel = r.u16().ok_or("FDSelect")?;
                if let Some((pf, pfd)) = prev {
                    if gid >= pf && gid < sentinel {
                        found = Some(pfd);
                    }
                }
                found.ok_or("glyph not covered by FDSelect")?
            }
            f => return Err(format!("FDSelect format {}", f)),
        };
        if fd as usize >= self.lsubrs.len() {
            return Err("FDSelect names a missing Font DICT".into());
        }
        Ok(fd as usize)
    }

    /// charset entries of glyphs 1.. (SIDs for a name-keyed font, CIDs for a CID-keyed one); None for the predefined Expert
    /// charsets, the identity for ISOAdobe
    pub fn charset_ids(&self) -> Option<Vec<u16>> {
        let n = self.charstrings.count;
        match self.charset_off {
            0 => Some((1..n as u16).collect()),
            1 | 2 => None,
            off => {
                let mut r = crate::be::R::at(self.d, off);
                let fmt = r.u8()?;
                let mut v: Vec<u16> = Vec::with_capacity(n);
                match fmt {
                    0 => {
                        while v.len() + 1 < n {
                            v.push(r.u16()?);
                        }
                    }
                    1 | 2 => {
                        while v.len() + 1 < n {
                            let first = r.u16()? as u32;
                            let left = if fmt == 1 { r.u8()? as u32 } else { r.u16()? as u32 };
                            for k in 0..=left {
                                if v.len() + 1 < n {
                                    v.push((first + k) as u16);
                                }
                            }
                        }
                    }
                    _ => return None,
                }
                Some(v)
            }
        }
    }

    /// glyph id of the glyph whose charset SID is `sid` (name-keyed fonts; None if absent or charset is Expert / ExpertSubset)
    pub fn gid_for_sid(&self, sid: u16) -> Option<u16> {
        let n = self.charstrings.count;
        if sid == 0 {
            return Some(0);
        }
        match self.charset_off {
            0 => {
                if (sid as usize) < n && sid <= 228 {
                    Some(sid)
                } else {
                    None
                }
            }
            1 | 2 => None,
            off => {
                let mut r = crate::be::R::at(self.d, off);
                let fmt = r.u8()?;
                let mut g = 1usize;
                match fmt {
                    0 => {
                        while g < n {
                            if r.u16()? == sid {
                                return Some(g as u16);
                            }
                            g += 1;
                        }
                        None
                    }
                    1 | 2 => {
                        while g < n {
                            let first = r.u16()? as usize;
                            let left = if fmt == 1 { r.u8()? as usize } else { r.u16()? as usize };
                            if (sid as usize) >= first && (sid as usize) <= first + left && g + (sid as usize - first) < n {
                                return Some((g + sid as usize - first) as u16);
                            }
                            g += left + 1;
                        }
                        None
                    }
                    _ => None,
                }
            }
        }
    }
}
