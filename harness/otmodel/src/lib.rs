//! otmodel — independent encoders, decoders and reference semantics written from the OpenType /
//! WOFF / Type 2 specifications. This crate must never depend on allsorts.

pub mod be;
pub mod bitmapenc;
pub mod cffenc;
pub mod cmapenc;
pub mod glyfenc;
pub mod gposenc;
pub mod gsubenc;
pub mod varenc;
pub mod woff2enc;
pub mod read;
pub mod rt;
pub mod sfnt;
pub mod tables;

pub const fn tag(s: &[u8; 4]) -> u32 {
    ((s[0] as u32) << 24) | ((s[1] as u32) << 16) | ((s[2] as u32) << 8) | (s[3] as u32)
}

pub fn tag_str(t: u32) -> String {
    t.to_be_bytes().iter().map(|b| if b.is_ascii_graphic() || *b == b' ' { *b as char } else { '?' }).collect()
}
