pub fn placeholder() {}
