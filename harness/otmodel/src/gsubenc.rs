//! gsubenc — abstract model, binary encoder and reference semantics for GSUB, written from the OpenType
//! specification (chapters "OpenType Layout Common Table Formats" and "GSUB"). Independent of allsorts.
//!
//! Part 1: abstract GSUB program (lookup types 1-8, FeatureVariations).
//! Part 2: binary encoder (Coverage / ClassDef / offset patching shared with `gposenc`).
//! Part 3: reference interpreter `apply_gsub` — a list-rewriting interpreter of the abstract program that
//!         follows the "lookup application" text of the specification. Where the specification is silent
//!         the interpreter has *variant* options (all legitimate) and, separately, *deviation switches*
//!         that reproduce systematic departures of an implementation under test; the switches are used
//!         only to attribute an observed mismatch to a precise finding.

use crate::be::W;
pub use crate::gposenc::{
    class_of, classdef, coverage, ChainRule, Enc, Gdef, Rule, SeqLookup, Tb, G, IGNORE_BASE, IGNORE_LIG, IGNORE_MARKS,
    USE_MARK_FILTERING_SET,
};

// =====================================================================================================
// Part 1: abstract program
// =====================================================================================================

#[derive(Clone, Debug, PartialEq, Eq)]
pub enum Sub {
    /// SingleSubstFormat1: substitute = (glyph + delta) mod 65536
    Single1 { cov: Vec<G>, delta: i16 },
    /// SingleSubstFormat2: subst[coverage index]
    Single2 { cov: Vec<G>, subst: Vec<G> },
    /// MultipleSubstFormat1: seqs[coverage index]
    Multiple { cov: Vec<G>, seqs: Vec<Vec<G>> },
    /// AlternateSubstFormat1: alts[coverage index]
    Alternate { cov: Vec<G>, alts: Vec<Vec<G>> },
    /// LigatureSubstFormat1: sets[coverage index] = ligatures in order of preference:
    /// (ligature glyph, components after the first)
    Ligature { cov: Vec<G>, sets: Vec<Vec<(G, Vec<G>)>> },
    Context1 { cov: Vec<G>, sets: Vec<Option<Vec<Rule>>> },
    Context2 { cov: Vec<G>, classes: Vec<(G, u16)>, sets: Vec<Option<Vec<Rule>>> },
    Context3 { covs: Vec<Vec<G>>, records: Vec<SeqLookup> },
    Chain1 { cov: Vec<G>, sets: Vec<Option<Vec<ChainRule>>> },
    Chain2 {
        cov: Vec<G>,
        back_classes: Vec<(G, u16)>,
        in_classes: Vec<(G, u16)>,
        ahead_classes: Vec<(G, u16)>,
        sets: Vec<Option<Vec<ChainRule>>>,
    },
    /// backtrack coverages closest glyph first
    Chain3 { back: Vec<Vec<G>>, input: Vec<Vec<G>>, ahead: Vec<Vec<G>>, records: Vec<SeqLookup> },
    /// ReverseChainSingleSubstFormat1; backtrack coverages closest glyph first
    Reverse { cov: Vec<G>, back: Vec<Vec<G>>, ahead: Vec<Vec<G>>, subst: Vec<G> },
}

impl Sub {
    pub fn lookup_type(&self) -> u16 {
        match self {
            Sub::Single1 { .. } | Sub::Single2 { .. } => 1,
            Sub::Multiple { .. } => 2,
            Sub::Alternate { .. } => 3,
            Sub::Ligature { .. } => 4,
            Sub::Context1 { .. } | Sub::Context2 { .. } | Sub::Context3 { .. } => 5,
            Sub::Chain1 { .. } | Sub::Chain2 { .. } | Sub::Chain3 { .. } => 6,
            Sub::Reverse { .. } => 8,
        }
    }
}

#[derive(Clone, Debug, PartialEq, Eq)]
pub struct Lookup {
    /// lookupFlag including markAttachmentType in the high byte
    pub flag: u16,
    /// markFilteringSet (encoded only when the flag has USE_MARK_FILTERING_SET)
    pub mark_set: u16,
    pub subs: Vec<Sub>,
}

impl Lookup {
    pub fn lookup_type(&self) -> u16 {
        self.subs[0].lookup_type()
    }
    pub fn is_contextual(&self) -> bool {
        matches!(self.lookup_type(), 5 | 6)
    }
}

/// Condition table format 1 (font variation axis range); values are raw F2Dot14.
#[derive(Clone, Debug, PartialEq, Eq)]
pub struct Cond {
    pub axis: u16,
    pub min: i16,
    pub max: i16,
}

#[derive(Clone, Debug, PartialEq, Eq)]
pub struct FvRecord {
    /// None = conditionSetOffset 0 (universal condition); Some(vec![]) = an empty condition set (matches everything)
    pub conds: Option<Vec<Cond>>,
    /// None = featureTableSubstitutionOffset 0 (no substitutions); records (feature index, alternate lookup list),
    /// sorted by feature index
    pub subst: Option<Vec<(u16, Vec<u16>)>>,
}

#[derive(Clone, Debug, PartialEq, Eq)]
pub struct Feature {
    pub tag: u32,
    /// lookupListIndices exactly as stored in the feature table (any order)
    pub lookups: Vec<u16>,
}

/// A GSUB program: one script whose default language system lists `langsys` (feature indices in the
/// stored order), a FeatureList (stored in the given order; the catalogue keeps it sorted by tag as the
/// specification asks), a LookupList and optional FeatureVariations.
#[derive(Clone, Debug, PartialEq, Eq)]
pub struct Gsub {
    pub script: u32,
    pub langsys: Vec<u16>,
    pub features: Vec<Feature>,
    pub lookups: Vec<Lookup>,
    pub variations: Option<Vec<FvRecord>>,
}

// =====================================================================================================
// Part 2: encoder
// =====================================================================================================

fn rule_set(rules: &[Rule]) -> Vec<u8> {
    let mut t = Tb::new();
    t.u16(rules.len() as u16);
    for r in rules {
        let mut w = W::new();
        w.u16(r.input.len() as u16 + 1).u16(r.records.len() as u16);
        for g in &r.input {
            w.u16(*g);
        }
        for s in &r.records {
            w.u16(s.0).u16(s.1);
        }
        t.off16(w.done());
    }
    t.done()
}

fn chain_rule_set(rules: &[ChainRule]) -> Vec<u8> {
    let mut t = Tb::new();
    t.u16(rules.len() as u16);
    for r in rules {
        let mut w = W::new();
        w.u16(r.backtrack.len() as u16);
        for g in &r.backtrack {
            w.u16(*g);
        }
        w.u16(r.input.len() as u16 + 1);
        for g in &r.input {
            w.u16(*g);
        }
        w.u16(r.lookahead.len() as u16);
        for g in &r.lookahead {
            w.u16(*g);
        }
        w.u16(r.records.len() as u16);
        for s in &r.records {
            w.u16(s.0).u16(s.1);
        }
        t.off16(w.done());
    }
    t.done()
}

fn glyph_list(gs: &[G]) -> Vec<u8> {
    let mut w = W::new();
    w.u16(gs.len() as u16);
    for g in gs {
        w.u16(*g);
    }
    w.done()
}

impl Sub {
    pub fn encode(&self, enc: &Enc) -> Vec<u8> {
        let cv = |g: &Vec<G>| coverage(g, enc.cov_fmt);
        let cd = |c: &Vec<(G, u16)>| classdef(c, enc.class_fmt);
        let mut t = Tb::new();
        match self {
            Sub::Single1 { cov, delta } => {
                t.u16(1).off16(cv(cov)).i16(*delta);
            }
            Sub::Single2 { cov, subst } => {
                assert_eq!(cov.len(), subst.len());
                t.u16(2).off16(cv(cov)).u16(subst.len() as u16);
                for g in subst {
                    t.u16(*g);
                }
            }
            Sub::Multiple { cov, seqs } => {
                assert_eq!(cov.len(), seqs.len());
                t.u16(1).off16(cv(cov)).u16(seqs.len() as u16);
                for s in seqs {
                    t.off16(glyph_list(s));
                }
            }
            Sub::Alternate { cov, alts } => {
                assert_eq!(cov.len(), alts.len());
                t.u16(1).off16(cv(cov)).u16(alts.len() as u16);
                for s in alts {
                    assert!(!s.is_empty());
                    t.off16(glyph_list(s));
                }
            }
            Sub::Ligature { cov, sets } => {
                assert_eq!(cov.len(), sets.len());
                t.u16(1).off16(cv(cov)).u16(sets.len() as u16);
                for set in sets {
                    let mut st = Tb::new();
                    st.u16(set.len() as u16);
                    for (lig, rest) in set {
                        let mut w = W::new();
                        w.u16(*lig).u16(rest.len() as u16 + 1);
                        for g in rest {
                            w.u16(*g);
                        }
                        st.off16(w.done());
                    }
                    t.off16(st.done());
                }
            }
            Sub::Context1 { cov, sets } => {
                assert_eq!(cov.len(), sets.len());
                t.u16(1).off16(cv(cov)).u16(sets.len() as u16);
                for s in sets {
                    t.off16_opt(s.as_ref().map(|r| rule_set(r)));
                }
            }
            Sub::Context2 { cov, classes, sets } => {
                t.u16(2).off16(cv(cov)).off16(cd(classes)).u16(sets.len() as u16);
                for s in sets {
                    t.off16_opt(s.as_ref().map(|r| rule_set(r)));
                }
            }
            Sub::Context3 { covs, records } => {
                t.u16(3).u16(covs.len() as u16).u16(records.len() as u16);
                for c in covs {
                    t.off16(cv(c));
                }
                for r in records {
                    t.u16(r.0).u16(r.1);
                }
            }
            Sub::Chain1 { cov, sets } => {
                assert_eq!(cov.len(), sets.len());
                t.u16(1).off16(cv(cov)).u16(sets.len() as u16);
                for s in sets {
                    t.off16_opt(s.as_ref().map(|r| chain_rule_set(r)));
                }
            }
            Sub::Chain2 { cov, back_classes, in_classes, ahead_classes, sets } => {
                t.u16(2).off16(cv(cov)).off16(cd(back_classes)).off16(cd(in_classes)).off16(cd(ahead_classes));
                t.u16(sets.len() as u16);
                for s in sets {
                    t.off16_opt(s.as_ref().map(|r| chain_rule_set(r)));
                }
            }
            Sub::Chain3 { back, input, ahead, records } => {
                t.u16(3).u16(back.len() as u16);
                for c in back {
                    t.off16(cv(c));
                }
                t.u16(input.len() as u16);
                for c in input {
                    t.off16(cv(c));
                }
                t.u16(ahead.len() as u16);
                for c in ahead {
                    t.off16(cv(c));
                }
                t.u16(records.len() as u16);
                for r in records {
                    t.u16(r.0).u16(r.1);
                }
            }
            Sub::Reverse { cov, back, ahead, subst } => {
                assert_eq!(cov.len(), subst.len());
                t.u16(1).off16(cv(cov)).u16(back.len() as u16);
                for c in back {
                    t.off16(cv(c));
                }
                t.u16(ahead.len() as u16);
                for c in ahead {
                    t.off16(cv(c));
                }
                t.u16(subst.len() as u16);
                for g in subst {
                    t.u16(*g);
                }
            }
        }
        t.done()
    }
}

impl Lookup {
    pub fn encode(&self, enc: &Enc) -> Vec<u8> {
        let ty = self.lookup_type();
        assert!(self.subs.iter().all(|s| s.lookup_type() == ty), "all subtables of a lookup have one type");
        let mut t = Tb::new();
        t.u16(if enc.ext { 7 } else { ty }).u16(self.flag).u16(self.subs.len() as u16);
        for s in &self.subs {
            let body = s.encode(enc);
            if enc.ext {
                // ExtensionSubstFormat1: format, extensionLookupType, Offset32 from the extension subtable
                let mut e = Tb::new();
                e.u16(1).u16(ty).off32(body);
                t.off16(e.done());
            } else {
                t.off16(body);
            }
        }
        if self.flag & USE_MARK_FILTERING_SET != 0 {
            t.u16(self.mark_set);
        }
        t.done()
    }
}

fn feature_table(lookups: &[u16]) -> Vec<u8> {
    let mut f = W::new();
    f.u16(0).u16(lookups.len() as u16);
    for i in lookups {
        f.u16(*i);
    }
    f.done()
}

fn feature_variations(recs: &[FvRecord]) -> Vec<u8> {
    let mut t = Tb::new();
    t.u16(1).u16(0).u32(recs.len() as u32);
    for r in recs {
        match &r.conds {
            None => {
                t.u32(0);
            }
            Some(cs) => {
                let mut set = Tb::new();
                set.u16(cs.len() as u16);
                for c in cs {
                    let mut w = W::new();
                    w.u16(1).u16(c.axis).i16(c.min).i16(c.max);
                    set.off32(w.done());
                }
                t.off32(set.done());
            }
        }
        match &r.subst {
            None => {
                t.u32(0);
            }
            Some(subs) => {
                assert!(subs.windows(2).all(|w| w[0].0 < w[1].0), "substitution records are sorted by feature index");
                let mut st = Tb::new();
                st.u16(1).u16(0).u16(subs.len() as u16);
                for (fi, lookups) in subs {
                    st.u16(*fi).off32(feature_table(lookups));
                }
                t.off32(st.done());
            }
        }
    }
    t.done()
}

impl Gsub {
    pub fn encode(&self, enc: &Enc) -> Vec<u8> {
        let mut langsys = W::new();
        langsys.u16(0).u16(0xFFFF).u16(self.langsys.len() as u16);
        for i in &self.langsys {
            langsys.u16(*i);
        }
        let mut script = Tb::new();
        script.off16(langsys.done()).u16(0);
        let mut sl = Tb::new();
        sl.u16(1).u32(self.script).off16(script.done());
        let mut fl = Tb::new();
        fl.u16(self.features.len() as u16);
        for f in &self.features {
            fl.u32(f.tag).off16(feature_table(&f.lookups));
        }
        let mut ll = Tb::new();
        ll.u16(self.lookups.len() as u16);
        for l in &self.lookups {
            ll.off16(l.encode(enc));
        }
        let mut t = Tb::new();
        t.u16(1).u16(if self.variations.is_some() { 1 } else { 0 });
        t.off16(sl.done()).off16(fl.done()).off16(ll.done());
        if let Some(v) = &self.variations {
            t.off32(feature_variations(v));
        }
        t.done()
    }
}

// =====================================================================================================
// Part 3: reference interpreter
// =====================================================================================================

/// One glyph of the run.
#[derive(Clone, Debug, PartialEq, Eq)]
pub struct Gl {
    pub gid: G,
    /// the characters this glyph stands for, in text order
    pub chars: Vec<u32>,
    /// formed by a ligature substitution with at least two components
    pub lig: bool,
    /// second or later glyph of a multiple substitution
    pub dup: bool,
    /// for a mark: the ligature component (0-based) it belongs to; None = the model does not define it
    pub comp: Option<u16>,
}

impl Gl {
    pub fn input(gid: G, ch: u32) -> Gl {
        Gl { gid, chars: vec![ch], lig: false, dup: false, comp: Some(0) }
    }
}

/// How a sequenceIndex is resolved after a nested lookup changed the length of the run.
#[derive(Clone, Copy, Debug, PartialEq, Eq)]
pub enum SeqMode {
    /// literal reading: the index counts the glyphs of the *current* input sequence (glyphs the parent
    /// lookup does not skip, from the first matched glyph up to the current end of the matched input)
    Spec,
    /// HarfBuzz: array of match positions, shifted by the length difference after each nested lookup
    Hb,
}

/// Legitimate alternatives (the specification is silent or implementations differ).
#[derive(Clone, Copy, Debug, PartialEq, Eq)]
pub struct Variant {
    pub seq: SeqMode,
    /// an empty Sequence table (forbidden by the specification, accepted by all implementations) deletes the glyph
    pub empty_seq_deletes: bool,
    /// no variation tuple supplied = the default instance (all coordinates 0) for FeatureVariations
    pub none_is_default_instance: bool,
    /// where the walk resumes when a nested lookup consumed glyphs beyond the matched input: false = HarfBuzz
    /// (never before the glyph the nested lookup was applied to, i.e. that glyph is examined again), true = the
    /// literal reading (after the matched input, of which that glyph is a member, i.e. after it)
    pub resume_after_applied: bool,
}

impl Default for Variant {
    fn default() -> Self {
        Variant { seq: SeqMode::Hb, empty_seq_deletes: true, none_is_default_instance: false, resume_after_applied: false }
    }
}

/// Deviation switches (bit set). All off = the specification.
pub const SW_MFS_SKIPS_NONMARKS: u32 = 1 << 0;
pub const SW_ATTACH_OVER_MFS: u32 = 1 << 1;
pub const SW_SEQ_UNBOUNDED: u32 = 1 << 2;
pub const SW_END_UNCLAMPED: u32 = 1 << 3;
pub const SW_RVRN_FEATURE_ORDER: u32 = 1 << 4;
pub const SW_COUNT: usize = 5;

pub const SW_NAMES: [&str; SW_COUNT] = [
    // UseMarkFilteringSet also skips every glyph that is not a mark
    "flags:mark-filtering-set-skips-non-marks",
    // a non-zero MarkAttachmentType is honoured and the mark filtering set ignored (the specification says the
    // filtering set supersedes the attachment type)
    "flags:mark-attachment-type-overrides-mark-filtering-set",
    // sequenceIndex is counted over non-skipped glyphs from the first matched glyph without stopping at the end
    // of the (possibly shrunken) matched input: a nested lookup can be applied to a glyph after the context
    "context:sequence-index-counted-past-end-of-matched-input",
    // after a context match the walk resumes at start + matched length + net length change even when a nested
    // ligature consumed glyphs beyond the matched input (position before the glyph the nested lookup was applied to)
    "context:resume-position-before-nested-lookup-position",
    // the lookups of 'rvrn' are applied in the order (and multiplicity) of the feature table's index array
    "rvrn:lookups-applied-in-feature-table-order",
];

/// ambiguity / interest markers collected during a run
pub const T_EMPTY_SEQ: u32 = 1 << 0;
pub const T_LEN_CHANGE_IN_CONTEXT: u32 = 1 << 1;
pub const T_NONE_TUPLE_WITH_VARIATIONS: u32 = 1 << 2;
pub const T_SPANNED_SKIPPED: u32 = 1 << 3;
pub const T_FIRED: u32 = 1 << 4;
pub const T_NEGATIVE_LENGTH: u32 = 1 << 5;
pub const T_DEPTH_CAP: u32 = 1 << 6;
pub const T_VARIATION_MATCHED: u32 = 1 << 7;
pub const T_CONTEXT_MATCHED: u32 = 1 << 8;
pub const T_END_CLAMPED: u32 = 1 << 9;

#[derive(Clone, Debug, PartialEq, Eq)]
pub struct Res {
    pub run: Vec<Gl>,
    pub touched: u32,
    /// deepest level of nested contextual lookups entered (0 = none nested, 1 = context inside context ...)
    pub max_nested_ctx: u32,
}

const MODEL_DEPTH_CAP: u32 = 12;

struct Interp<'a> {
    prog: &'a Gsub,
    gdef: &'a Gdef,
    var: Variant,
    sw: u32,
    run: Vec<Gl>,
    touched: u32,
    max_nested_ctx: u32,
}

fn cov_index(cov: &[G], g: G) -> Option<usize> {
    cov.iter().position(|&x| x == g)
}

impl<'a> Interp<'a> {
    /// Does the glyph take part in a lookup with these flags (i.e. is it *not* skipped)?
    /// "Lookup flags": IgnoreBaseGlyphs / IgnoreLigatures / IgnoreMarks skip the respective GDEF classes;
    /// a mark filtering set skips all marks not in the set and supersedes the mark attachment type;
    /// IgnoreMarks supersedes both; glyphs that are not marks are never affected by the latter two.
    fn passes(&self, flag: u16, ms: u16, gid: G) -> bool {
        let cls = self.gdef.glyph_class(gid);
        if flag & IGNORE_BASE != 0 && cls == 1 {
            return false;
        }
        if flag & IGNORE_LIG != 0 && cls == 2 {
            return false;
        }
        let mat = flag >> 8;
        if cls == 3 {
            if flag & IGNORE_MARKS != 0 {
                return false;
            }
            if flag & USE_MARK_FILTERING_SET != 0 && !(self.sw & SW_ATTACH_OVER_MFS != 0 && mat != 0) {
                return self.gdef.in_set(ms, gid);
            }
            if mat != 0 {
                return self.gdef.attach_class(gid) == mat;
            }
            true
        } else {
            if self.sw & SW_MFS_SKIPS_NONMARKS != 0
                && flag & USE_MARK_FILTERING_SET != 0
                && flag & IGNORE_MARKS == 0
                && mat == 0
            {
                return false;
            }
            true
        }
    }

    fn next_passing(&self, flag: u16, ms: u16, i: usize) -> Option<usize> {
        (i + 1..self.run.len()).find(|&k| self.passes(flag, ms, self.run[k].gid))
    }

    fn prev_passing(&self, flag: u16, ms: u16, i: usize) -> Option<usize> {
        (0..i).rev().find(|&k| self.passes(flag, ms, self.run[k].gid))
    }

    /// positions of the next `n` non-skipped glyphs after `start`, each accepted by `ok(k, glyph)`
    fn seq_fwd(&self, flag: u16, ms: u16, start: usize, n: usize, ok: &dyn Fn(usize, G) -> bool) -> Option<Vec<usize>> {
        let mut v = Vec::with_capacity(n);
        let mut p = start;
        for k in 0..n {
            p = self.next_passing(flag, ms, p)?;
            if !ok(k, self.run[p].gid) {
                return None;
            }
            v.push(p);
        }
        Some(v)
    }

    fn seq_back(&self, flag: u16, ms: u16, start: usize, n: usize, ok: &dyn Fn(usize, G) -> bool) -> bool {
        let mut p = start;
        for k in 0..n {
            p = match self.prev_passing(flag, ms, p) {
                Some(q) => q,
                None => return false,
            };
            if !ok(k, self.run[p].gid) {
                return false;
            }
        }
        true
    }

    fn note_span(&mut self, first: usize, positions: &[usize]) {
        let mut prev = first;
        for &p in positions {
            if p != prev + 1 {
                self.touched |= T_SPANNED_SKIPPED;
            }
            prev = p;
        }
    }

    /// Walk one lookup over the whole run ("each lookup is applied to the whole glyph run before the next").
    fn walk(&mut self, li: usize, alt: usize) {
        let l = match self.prog.lookups.get(li) {
            Some(l) => l,
            None => return,
        };
        let (flag, ms) = (l.flag, l.mark_set);
        if l.lookup_type() == 8 {
            // reverse chaining: from the last glyph to the first
            let mut i = self.run.len();
            while i > 0 {
                i -= 1;
                if i < self.run.len() && self.passes(flag, ms, self.run[i].gid) {
                    self.apply_at(li, i, alt, 0);
                }
            }
            return;
        }
        let mut i = 0;
        while i < self.run.len() {
            if self.passes(flag, ms, self.run[i].gid) {
                let before = self.run.len();
                if let Some(next) = self.apply_at(li, i, alt, 0) {
                    // progress guard: a lookup that neither advanced nor shortened the run moves on
                    i = if next <= i && self.run.len() >= before { i + 1 } else { next };
                    continue;
                }
            }
            i += 1;
        }
    }

    /// Apply lookup `li` with the current glyph at `i` (the caller decided that this glyph is not skipped).
    /// Some(position where the walk resumes) if a subtable applied ("first subtable that applies wins").
    fn apply_at(&mut self, li: usize, i: usize, alt: usize, depth: u32) -> Option<usize> {
        let prog = self.prog;
        let l = prog.lookups.get(li)?;
        let (flag, ms) = (l.flag, l.mark_set);
        let g = self.run[i].gid;
        for s in &l.subs {
            match s {
                Sub::Single1 { cov, delta } => {
                    if cov_index(cov, g).is_some() {
                        self.run[i].gid = (g as i32 + *delta as i32).rem_euclid(65536) as u16;
                        self.touched |= T_FIRED;
                        return Some(i + 1);
                    }
                }
                Sub::Single2 { cov, subst } => {
                    if let Some(ci) = cov_index(cov, g) {
                        self.run[i].gid = subst[ci];
                        self.touched |= T_FIRED;
                        return Some(i + 1);
                    }
                }
                Sub::Multiple { cov, seqs } => {
                    if let Some(ci) = cov_index(cov, g) {
                        let seq = &seqs[ci];
                        self.touched |= T_FIRED;
                        if seq.is_empty() {
                            self.touched |= T_EMPTY_SEQ;
                            if self.var.empty_seq_deletes {
                                self.run.remove(i);
                                return Some(i);
                            }
                            return Some(i + 1);
                        }
                        self.run[i].gid = seq[0];
                        for (j, &out) in seq.iter().enumerate().skip(1) {
                            let copy = Gl { gid: out, chars: self.run[i].chars.clone(), lig: false, dup: true, comp: None };
                            self.run.insert(i + j, copy);
                        }
                        return Some(i + seq.len());
                    }
                }
                Sub::Alternate { cov, alts } => {
                    if let Some(ci) = cov_index(cov, g) {
                        if let Some(&out) = alts[ci].get(alt) {
                            self.run[i].gid = out;
                            self.touched |= T_FIRED;
                        }
                        return Some(i + 1);
                    }
                }
                Sub::Ligature { cov, sets } => {
                    if let Some(ci) = cov_index(cov, g) {
                        for (lig, rest) in &sets[ci] {
                            if let Some(pos) = self.seq_fwd(flag, ms, i, rest.len(), &|k, gg| rest[k] == gg) {
                                self.note_span(i, &pos);
                                return Some(self.ligate(i, &pos, *lig));
                            }
                        }
                    }
                }
                Sub::Reverse { cov, back, ahead, subst } => {
                    if let Some(ci) = cov_index(cov, g) {
                        if self.seq_back(flag, ms, i, back.len(), &|k, gg| back[k].contains(&gg))
                            && self.seq_fwd(flag, ms, i, ahead.len(), &|k, gg| ahead[k].contains(&gg)).is_some()
                        {
                            self.run[i].gid = subst[ci];
                            self.touched |= T_FIRED;
                            return Some(i + 1);
                        }
                    }
                }
                _ => {
                    if let Some((positions, records)) = self.match_context(s, flag, ms, i) {
                        self.touched |= T_CONTEXT_MATCHED;
                        self.note_span(i, &positions[1..]);
                        return Some(self.apply_records(flag, ms, i, positions, &records, depth));
                    }
                }
            }
        }
        None
    }

    /// Replace the glyph at `i` and the components at `pos` by the ligature glyph. The ligature stands for the
    /// characters of all components in order. Glyphs skipped between the components stay in the run after the
    /// ligature and belong to the component they followed; marks directly after the last component belong to it.
    /// Returns the position after the last component.
    fn ligate(&mut self, i: usize, pos: &[usize], lig: G) -> usize {
        self.touched |= T_FIRED;
        let mut removed = 0usize;
        let mut comp_of_skipped: Vec<(usize, u16)> = Vec::new();
        let mut prev = i;
        for (k, &p) in pos.iter().enumerate() {
            for q in prev + 1..p {
                comp_of_skipped.push((q, k as u16));
            }
            prev = p;
        }
        for (q, c) in comp_of_skipped {
            self.run[q].comp = Some(c);
        }
        for &p in pos {
            let g = self.run.remove(p - removed);
            removed += 1;
            self.run[i].chars.extend(g.chars);
        }
        self.run[i].gid = lig;
        if !pos.is_empty() {
            self.run[i].lig = true;
        }
        let last = pos.last().copied().unwrap_or(i);
        let mut k = last + 1 - removed;
        let after = k;
        while k < self.run.len() && self.gdef.is_mark(self.run[k].gid) {
            self.run[k].comp = Some(pos.len() as u16);
            k += 1;
        }
        // marks separated from the ligature only by unclassified glyphs (GDEF class 0) do not belong to it; the
        // model leaves their component undefined
        while k < self.run.len() && matches!(self.gdef.glyph_class(self.run[k].gid), 0 | 3) {
            if self.gdef.is_mark(self.run[k].gid) {
                self.run[k].comp = None;
            }
            k += 1;
        }
        after
    }

    /// Match one context subtable with the first input glyph at `i`: positions of the input glyphs (including
    /// `i`) and the sequence lookup records of the first matching rule.
    fn match_context(&self, s: &Sub, flag: u16, ms: u16, i: usize) -> Option<(Vec<usize>, Vec<SeqLookup>)> {
        let g = self.run[i].gid;
        let fwd = |start: usize, n: usize, ok: &dyn Fn(usize, G) -> bool| self.seq_fwd(flag, ms, start, n, ok);
        let back = |n: usize, ok: &dyn Fn(usize, G) -> bool| self.seq_back(flag, ms, i, n, ok);
        match s {
            Sub::Context1 { cov, sets } => {
                let rules = sets[cov_index(cov, g)?].as_ref()?;
                for r in rules {
                    if let Some(mut v) = fwd(i, r.input.len(), &|k, gg| r.input[k] == gg) {
                        v.insert(0, i);
                        return Some((v, r.records.clone()));
                    }
                }
                None
            }
            Sub::Context2 { cov, classes, sets } => {
                cov_index(cov, g)?;
                let rules = sets.get(class_of(classes, g) as usize)?.as_ref()?;
                for r in rules {
                    if let Some(mut v) = fwd(i, r.input.len(), &|k, gg| r.input[k] == class_of(classes, gg)) {
                        v.insert(0, i);
                        return Some((v, r.records.clone()));
                    }
                }
                None
            }
            Sub::Context3 { covs, records } => {
                cov_index(&covs[0], g)?;
                let mut v = fwd(i, covs.len() - 1, &|k, gg| covs[k + 1].contains(&gg))?;
                v.insert(0, i);
                Some((v, records.clone()))
            }
            Sub::Chain1 { cov, sets } => {
                let rules = sets[cov_index(cov, g)?].as_ref()?;
                for r in rules {
                    if !back(r.backtrack.len(), &|k, gg| r.backtrack[k] == gg) {
                        continue;
                    }
                    if let Some(mut v) = fwd(i, r.input.len(), &|k, gg| r.input[k] == gg) {
                        let last = v.last().copied().unwrap_or(i);
                        if fwd(last, r.lookahead.len(), &|k, gg| r.lookahead[k] == gg).is_some() {
                            v.insert(0, i);
                            return Some((v, r.records.clone()));
                        }
                    }
                }
                None
            }
            Sub::Chain2 { cov, back_classes, in_classes, ahead_classes, sets } => {
                cov_index(cov, g)?;
                let rules = sets.get(class_of(in_classes, g) as usize)?.as_ref()?;
                for r in rules {
                    if !back(r.backtrack.len(), &|k, gg| r.backtrack[k] == class_of(back_classes, gg)) {
                        continue;
                    }
                    if let Some(mut v) = fwd(i, r.input.len(), &|k, gg| r.input[k] == class_of(in_classes, gg)) {
                        let last = v.last().copied().unwrap_or(i);
                        if fwd(last, r.lookahead.len(), &|k, gg| r.lookahead[k] == class_of(ahead_classes, gg)).is_some() {
                            v.insert(0, i);
                            return Some((v, r.records.clone()));
                        }
                    }
                }
                None
            }
            Sub::Chain3 { back: bk, input, ahead, records } => {
                cov_index(&input[0], g)?;
                if !back(bk.len(), &|k, gg| bk[k].contains(&gg)) {
                    return None;
                }
                let mut v = fwd(i, input.len() - 1, &|k, gg| input[k + 1].contains(&gg))?;
                let last = v.last().copied().unwrap_or(i);
                fwd(last, ahead.len(), &|k, gg| ahead[k].contains(&gg))?;
                v.insert(0, i);
                Some((v, records.clone()))
            }
            _ => None,
        }
    }

    /// Apply the sequence lookup records of a matched rule in order. Returns the position where the walk resumes
    /// (the glyph after the matched input sequence, corrected for length changes).
    fn apply_records(&mut self, flag: u16, ms: u16, i: usize, positions: Vec<usize>, records: &[SeqLookup], depth: u32) -> usize {
        let mut pos = positions;
        let mut end: isize = (*pos.last().unwrap() + 1) as isize;
        for &(seq, nli) in records {
            let seq = seq as usize;
            let p = if self.sw & SW_SEQ_UNBOUNDED != 0 || self.var.seq == SeqMode::Spec {
                let bounded = self.sw & SW_SEQ_UNBOUNDED == 0;
                let mut q = i;
                let mut ok = true;
                for _ in 0..seq {
                    match self.next_passing(flag, ms, q) {
                        Some(n) if !bounded || (n as isize) < end => q = n,
                        _ => {
                            ok = false;
                            break;
                        }
                    }
                }
                if !ok {
                    continue;
                }
                q
            } else {
                if seq >= pos.len() {
                    continue;
                }
                pos[seq]
            };
            if p >= self.run.len() {
                continue;
            }
            let orig = self.run.len() as isize;
            if !self.apply_nested(nli as usize, p, depth + 1) {
                continue;
            }
            let mut delta = self.run.len() as isize - orig;
            if delta == 0 {
                continue;
            }
            self.touched |= T_LEN_CHANGE_IN_CONTEXT;
            end += delta;
            if self.sw & SW_END_UNCLAMPED != 0 {
                if end < i as isize {
                    self.touched |= T_NEGATIVE_LENGTH;
                    end = i as isize;
                }
            } else {
                // the glyph at `p` disappears only through an empty Sequence table
                let deleted = delta < 0 && self.prog.lookups.get(nli as usize).map_or(false, |l| l.lookup_type() == 2);
                if !deleted && end < p as isize + 1 {
                    self.touched |= T_END_CLAMPED;
                }
                let min_end = if self.var.resume_after_applied && !deleted { p as isize + 1 } else { p as isize };
                if end < min_end {
                    delta += min_end - end;
                    end = min_end;
                }
            }
            if self.var.seq == SeqMode::Hb && self.sw & SW_SEQ_UNBOUNDED == 0 {
                // HarfBuzz apply_lookup(): n new glyphs are assumed to follow the current position, n removed
                // glyphs are assumed to be the following match positions
                let count = pos.len() as isize;
                let idx = seq;
                let mut next = idx as isize + 1;
                if delta < 0 {
                    delta = delta.max(next - count);
                    next -= delta;
                }
                let tail: Vec<usize> = pos[(next as usize).min(pos.len())..].to_vec();
                let nn = next + delta;
                pos.truncate(idx + 1);
                for j in idx + 1..nn as usize {
                    let v = pos[j - 1] + 1;
                    pos.push(v);
                }
                for t in tail {
                    pos.push((t as isize + delta) as usize);
                }
            }
        }
        end.max(0) as usize
    }

    /// Apply a nested lookup once at position `p` (the glyph at `p` is not tested against the nested lookup's
    /// flags; its flags govern the glyphs that follow). true if it applied.
    fn apply_nested(&mut self, nli: usize, p: usize, depth: u32) -> bool {
        let l = match self.prog.lookups.get(nli) {
            Some(l) => l,
            None => return false,
        };
        if l.lookup_type() == 8 {
            // not defined for nested use; the catalogue never does this
            return false;
        }
        if l.is_contextual() {
            self.max_nested_ctx = self.max_nested_ctx.max(depth);
            if depth > MODEL_DEPTH_CAP {
                self.touched |= T_DEPTH_CAP;
                return false;
            }
        }
        self.apply_at(nli, p, 0, depth).is_some()
    }
}

/// Which substitution record applies for these coordinates: Some(index of the first record whose condition
/// set holds). Range ends are inclusive. Axes beyond the supplied coordinates fail the condition.
pub fn matching_variation(prog: &Gsub, coords: &[i16]) -> Option<usize> {
    let recs = prog.variations.as_ref()?;
    recs.iter().position(|r| match &r.conds {
        None => true,
        Some(cs) => cs.iter().all(|c| match coords.get(c.axis as usize) {
            Some(&v) => c.min <= v && v <= c.max,
            None => false,
        }),
    })
}

/// The lookups that will be applied, in order, with the alternate index of their feature:
/// ("rvrn" stage, main stage). `feats` = enabled features (tag, alternate index) in the caller's order.
pub fn lookup_plan(prog: &Gsub, feats: &[(u32, usize)], coords: Option<&[i16]>, var: Variant, sw: u32, touched: &mut u32) -> (Vec<(u16, usize)>, Vec<(u16, usize)>) {
    let zero = [0i16; 8];
    let eff: Option<&[i16]> = match coords {
        Some(c) => Some(c),
        None => {
            if prog.variations.is_some() {
                *touched |= T_NONE_TUPLE_WITH_VARIATIONS;
            }
            if var.none_is_default_instance {
                Some(&zero[..])
            } else {
                None
            }
        }
    };
    let subst: Option<&Vec<(u16, Vec<u16>)>> = eff.and_then(|c| matching_variation(prog, c)).and_then(|ri| {
        *touched |= T_VARIATION_MATCHED;
        prog.variations.as_ref().unwrap()[ri].subst.as_ref()
    });
    let mut rvrn: Vec<(u16, usize)> = Vec::new();
    let mut main: Vec<(u16, usize)> = Vec::new();
    for &(tag, alt) in feats {
        // the first feature of the language system that carries the tag
        let fi = match prog.langsys.iter().copied().find(|&fi| prog.features.get(fi as usize).map_or(false, |f| f.tag == tag)) {
            Some(fi) => fi,
            None => continue,
        };
        let lookups: &Vec<u16> = subst
            .and_then(|s| s.iter().find(|r| r.0 == fi))
            .map(|r| &r.1)
            .unwrap_or(&prog.features[fi as usize].lookups);
        if tag == crate::tag(b"rvrn") {
            rvrn.extend(lookups.iter().map(|&l| (l, alt)));
        } else {
            for &l in lookups {
                if !main.iter().any(|m| m.0 == l) {
                    main.push((l, alt));
                }
            }
        }
    }
    if sw & SW_RVRN_FEATURE_ORDER == 0 {
        rvrn.sort();
        rvrn.dedup_by_key(|x| x.0);
    }
    main.sort_by_key(|x| x.0);
    (rvrn, main)
}

/// Reference GSUB application for a run in script `script` (default language system): the lookups of 'rvrn' first (the feature is to be processed before all others),
/// then the lookups of all other enabled features in LookupList order, each lookup over the whole run.
pub fn apply_gsub(
    prog: &Gsub,
    gdef: &Gdef,
    script: u32,
    feats: &[(u32, usize)],
    coords: Option<&[i16]>,
    input: &[Gl],
    var: Variant,
    sw: u32,
) -> Res {
    let mut touched = 0u32;
    // script selection: the script record with the requested tag, else the 'DFLT' script, else nothing applies
    let selected = prog.script == script || prog.script == crate::tag(b"DFLT");
    let (rvrn, main) = if selected { lookup_plan(prog, feats, coords, var, sw, &mut touched) } else { (Vec::new(), Vec::new()) };
    let mut it = Interp { prog, gdef, var, sw, run: input.to_vec(), touched, max_nested_ctx: 0 };
    for (li, alt) in rvrn.into_iter().chain(main.into_iter()) {
        it.walk(li as usize, alt);
    }
    Res { run: it.run, touched: it.touched, max_nested_ctx: it.max_nested_ctx }
}

/// Does any lookup reachable from the enabled features use these flag bits? (static relevance of a switch)
pub fn any_lookup(prog: &Gsub, pred: impl Fn(&Lookup) -> bool) -> bool {
    prog.lookups.iter().any(|l| pred(l))
}

#[cfg(test)]
mod tests {
    use super::*;
    use crate::tag;

    fn run(prog: &Gsub, s: &[G]) -> Vec<G> {
        let input: Vec<Gl> = s.iter().enumerate().map(|(i, &g)| Gl::input(g, 0x41 + i as u32)).collect();
        apply_gsub(prog, &Gdef::universe(), tag(b"latn"), &[(tag(b"liga"), 0)], None, &input, Variant::default(), 0).run.iter().map(|g| g.gid).collect()
    }

    fn one(l: Lookup) -> Gsub {
        Gsub { script: tag(b"DFLT"), langsys: vec![0], features: vec![Feature { tag: tag(b"liga"), lookups: vec![0] }], lookups: vec![l], variations: None }
    }

    #[test]
    fn ligature_skips_marks() {
        let p = one(Lookup { flag: IGNORE_MARKS, mark_set: 0, subs: vec![Sub::Ligature { cov: vec![1], sets: vec![vec![(4, vec![2])]] }] });
        assert_eq!(run(&p, &[1, 5, 2, 6]), vec![4, 5, 6]);
        assert_eq!(run(&p, &[1, 4, 2]), vec![1, 4, 2]);
    }

    #[test]
    fn filtering_set_keeps_bases() {
        let p = one(Lookup { flag: USE_MARK_FILTERING_SET, mark_set: 0, subs: vec![Sub::Single1 { cov: vec![1], delta: 1 }] });
        assert_eq!(run(&p, &[1, 5, 1, 6]), vec![2, 5, 2, 6]);
    }

    #[test]
    fn reverse_goes_backwards() {
        let p = one(Lookup { flag: 0, mark_set: 0, subs: vec![Sub::Reverse { cov: vec![1], back: vec![], ahead: vec![vec![2]], subst: vec![2] }] });
        assert_eq!(run(&p, &[1, 1, 2]), vec![2, 2, 2]);
    }

    #[test]
    fn encodes() {
        let p = one(Lookup { flag: USE_MARK_FILTERING_SET, mark_set: 1, subs: vec![Sub::Single1 { cov: vec![1], delta: 1 }] });
        let b = p.encode(&Enc::default());
        assert_eq!(&b[..4], &[0, 1, 0, 0]);
        let e = p.encode(&Enc { ext: true, ..Enc::default() });
        assert!(e.len() > b.len());
    }
}
