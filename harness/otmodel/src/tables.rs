//! Minimal well-formed tables, enough for `Font::new` to accept a font wrapped around a generated
//! table (cmap / GSUB / GPOS / glyf ...).

use crate::be::W;
use crate::{sfnt, tag};

pub fn head(units_per_em: u16, index_to_loc_format: i16) -> Vec<u8> {
    let mut w = W::new();
    w.u16(1).u16(0); // version
    w.u32(0x0001_0000); // fontRevision
    w.u32(0); // checkSumAdjustment
    w.u32(0x5F0F3CF5); // magic
    w.u16(0x000B); // flags
    w.u16(units_per_em);
    w.u64(0).u64(0); // created, modified
    w.i16(0).i16(-200).i16(1000).i16(800); // bbox
    w.u16(0); // macStyle
    w.u16(8); // lowestRecPPEM
    w.i16(2); // fontDirectionHint
    w.i16(index_to_loc_format);
    w.i16(0); // glyphDataFormat
    w.done()
}

pub fn maxp_05(num_glyphs: u16) -> Vec<u8> {
    let mut w = W::new();
    w.u32(0x0000_5000).u16(num_glyphs);
    w.done()
}

pub fn maxp_10(num_glyphs: u16) -> Vec<u8> {
    let mut w = W::new();
    w.u32(0x0001_0000).u16(num_glyphs);
    // maxPoints, maxContours, maxCompositePoints, maxCompositeContours, maxZones, maxTwilightPoints,
    // maxStorage, maxFunctionDefs, maxInstructionDefs, maxStackElements, maxSizeOfInstructions,
    // maxComponentElements, maxComponentDepth
    for v in [64u16, 8, 64, 8, 1, 0, 0, 0, 0, 0, 0, 4, 8] {
        w.u16(v);
    }
    w.done()
}

pub fn hhea(num_h_metrics: u16) -> Vec<u8> {
    let mut w = W::new();
    w.u16(1).u16(0);
    w.i16(800).i16(-200).i16(0); // ascender, descender, lineGap
    w.u16(1000); // advanceWidthMax
    w.i16(0).i16(0).i16(1000); // minLSB, minRSB, xMaxExtent
    w.i16(1).i16(0).i16(0); // caretSlopeRise, Run, Offset
    w.i16(0).i16(0).i16(0).i16(0);
    w.i16(0); // metricDataFormat
    w.u16(num_h_metrics);
    w.done()
}

/// `metrics`: (advance, lsb) for the first numberOfHMetrics glyphs; `extra_lsb` for the rest.
pub fn hmtx(metrics: &[(u16, i16)], extra_lsb: &[i16]) -> Vec<u8> {
    let mut w = W::new();
    for (a, l) in metrics {
        w.u16(*a).i16(*l);
    }
    for l in extra_lsb {
        w.i16(*l);
    }
    w.done()
}

pub fn post3() -> Vec<u8> {
    let mut w = W::new();
    w.u32(0x0003_0000).u32(0).i16(-100).i16(50).u32(0).u32(0).u32(0).u32(0).u32(0);
    w.done()
}

pub fn name_empty() -> Vec<u8> {
    let mut w = W::new();
    w.u16(0).u16(0).u16(6);
    w.done()
}

pub fn os2_v4(first_char: u16, last_char: u16) -> Vec<u8> {
    let mut w = W::new();
    w.u16(4); // version
    w.i16(500).u16(400).u16(5).u16(0); // xAvgCharWidth, weight, width, fsType
    for _ in 0..10 {
        w.i16(0);
    } // subscript/superscript/strikeout
    w.i16(0); // sFamilyClass
    w.bytes(&[0u8; 10]); // panose
    w.u32(0).u32(0).u32(0).u32(0); // unicode ranges
    w.bytes(b"VRIF"); // achVendID
    w.u16(0x0040); // fsSelection
    w.u16(first_char).u16(last_char);
    w.i16(800).i16(-200).i16(0); // typo asc/desc/linegap
    w.u16(800).u16(200); // win asc/desc
    w.u32(0).u32(0); // codepage ranges
    w.i16(500).i16(700).u16(0).u16(32).u16(1); // xHeight, capHeight, default, break, maxContext
    w.done()
}

/// cmap subtable format 4 from a sorted list of (code, gid) with code <= 0xFFFF, one segment per run of
/// consecutive codes with consecutive gids (delta mode). Always appends the 0xFFFF terminator segment.
pub fn cmap4_subtable(map: &[(u16, u16)]) -> Vec<u8> {
    let mut segs: Vec<(u16, u16, u16)> = Vec::new(); // start, end, start gid
    for &(c, g) in map {
        if c == 0xFFFF {
            continue;
        }
        if let Some(last) = segs.last_mut() {
            if last.1.wrapping_add(1) == c && last.1 != 0xFFFF && last.2.wrapping_add(last.1 - last.0).wrapping_add(1) == g {
                last.1 = c;
                continue;
            }
        }
        segs.push((c, c, g));
    }
    let n = segs.len() as u16 + 1;
    let (sr, es, rs) = sfnt::search_fields(n, 2);
    let mut w = W::new();
    w.u16(4).u16(16 + 8 * n).u16(0).u16(n * 2).u16(sr).u16(es).u16(rs);
    for s in &segs {
        w.u16(s.1);
    }
    w.u16(0xFFFF).u16(0);
    for s in &segs {
        w.u16(s.0);
    }
    w.u16(0xFFFF);
    for s in &segs {
        w.u16(s.2.wrapping_sub(s.0));
    }
    w.u16(1);
    for _ in 0..n {
        w.u16(0);
    }
    w.done()
}

/// cmap subtable format 12 from sorted (code, gid).
pub fn cmap12_subtable(map: &[(u32, u32)]) -> Vec<u8> {
    let mut groups: Vec<(u32, u32, u32)> = Vec::new();
    for &(c, g) in map {
        if let Some(last) = groups.last_mut() {
            if last.1 + 1 == c && last.2 + (last.1 - last.0) + 1 == g {
                last.1 = c;
                continue;
            }
        }
        groups.push((c, c, g));
    }
    let mut w = W::new();
    w.u16(12).u16(0).u32(16 + 12 * groups.len() as u32).u32(0).u32(groups.len() as u32);
    for g in &groups {
        w.u32(g.0).u32(g.1).u32(g.2);
    }
    w.done()
}

/// cmap table from encoding records (platform, encoding, subtable bytes); identical subtables are not shared.
pub fn cmap_table(records: &[(u16, u16, Vec<u8>)]) -> Vec<u8> {
    let mut w = W::new();
    w.u16(0).u16(records.len() as u16);
    let mut off = 4 + 8 * records.len();
    for r in records {
        w.u16(r.0).u16(r.1).u32(off as u32);
        off += r.2.len();
    }
    for r in records {
        w.bytes(&r.2);
    }
    w.done()
}

/// glyf + loca (long format) with `n` empty glyphs.
pub fn empty_glyf_loca(n: u16) -> (Vec<u8>, Vec<u8>) {
    let mut loca = W::new();
    for _ in 0..=n {
        loca.u32(0);
    }
    (Vec::new(), loca.done())
}

/// A minimal TrueType-flavoured font with `n` glyphs (all empty, advance 500 + 10*gid, lsb 0),
/// a Windows Unicode BMP cmap (plus a format 12 full-repertoire record when a code is astral),
/// and any `extra` tables (which override the defaults with the same tag).
pub fn minimal_tables(n: u16, cmap: &[(u32, u16)], extra: &[(u32, Vec<u8>)]) -> Vec<(u32, Vec<u8>)> {
    let mut map: Vec<(u32, u16)> = cmap.to_vec();
    map.sort();
    map.dedup_by_key(|x| x.0);
    let bmp: Vec<(u16, u16)> = map.iter().filter(|x| x.0 < 0xFFFF).map(|x| (x.0 as u16, x.1)).collect();
    let mut recs = vec![(3u16, 1u16, cmap4_subtable(&bmp))];
    if map.iter().any(|x| x.0 > 0xFFFF) {
        let all: Vec<(u32, u32)> = map.iter().map(|x| (x.0, x.1 as u32)).collect();
        recs.push((3, 10, cmap12_subtable(&all)));
    }
    let metrics: Vec<(u16, i16)> = (0..n).map(|g| (500 + 10 * (g % 5000), 0)).collect();
    let (glyf, loca) = empty_glyf_loca(n);
    let mut t: Vec<(u32, Vec<u8>)> = vec![
        (tag(b"head"), head(1000, 1)),
        (tag(b"maxp"), maxp_10(n)),
        (tag(b"hhea"), hhea(n)),
        (tag(b"hmtx"), hmtx(&metrics, &[])),
        (tag(b"cmap"), cmap_table(&recs)),
        (tag(b"post"), post3()),
        (tag(b"name"), name_empty()),
        (tag(b"OS/2"), os2_v4(0x20, 0xFFFF)),
        (tag(b"glyf"), glyf),
        (tag(b"loca"), loca),
    ];
    for (tg, d) in extra {
        if let Some(e) = t.iter_mut().find(|x| x.0 == *tg) {
            e.1 = d.clone();
        } else {
            t.push((*tg, d.clone()));
        }
    }
    t
}

pub fn minimal_font(n: u16, cmap: &[(u32, u16)], extra: &[(u32, Vec<u8>)]) -> Vec<u8> {
    sfnt::build(sfnt::TTF, &minimal_tables(n, cmap, extra))
}
