//! Independent readers (no allsorts): cmap lookup/enumeration, basic table fields, and the C09
//! cross-table consistency validator for fonts that a producer wrote.

use crate::be::R;
use crate::sfnt;
use crate::{tag, tag_str};
use std::collections::BTreeMap;

// ------------------------------------------------------------------------------------------------ cmap

#[derive(Clone, Debug, PartialEq, Eq)]
pub struct CmapRecord {
    pub platform: u16,
    pub encoding: u16,
    pub offset: u32,
}

pub fn cmap_records(cmap: &[u8]) -> Option<Vec<CmapRecord>> {
    let mut r = R::new(cmap);
    if r.u16()? != 0 {
        return None;
    }
    let n = r.u16()?;
    let mut v = Vec::new();
    for _ in 0..n {
        v.push(CmapRecord { platform: r.u16()?, encoding: r.u16()?, offset: r.u32()? });
    }
    Some(v)
}

/// All (code, glyph) pairs a subtable maps with glyph != 0, per the OpenType format rules.
/// `None` = malformed or unsupported format.
pub fn cmap_mappings(sub: &[u8]) -> Option<BTreeMap<u32, u16>> {
    let mut m = BTreeMap::new();
    // a reader that honours the subtable's own length field (FreeType validates it, and a table directory may place other
    // data right behind the subtable): nothing beyond the declared length is visible
    let declared = match crate::be::u16_at(sub, 0)? {
        0 | 2 | 4 | 6 => crate::be::u16_at(sub, 2)? as usize,
        _ => crate::be::u32_at(sub, 4)? as usize,
    };
    let sub = sub.get(..declared)?;
    let mut r = R::new(sub);
    let format = r.u16()?;
    match format {
        0 => {
            let _len = r.u16()?;
            let _lang = r.u16()?;
            for c in 0..256u32 {
                let g = r.u8()? as u16;
                if g != 0 {
                    m.insert(c, g);
                }
            }
        }
        4 => {
            let _len = r.u16()?;
            let _lang = r.u16()?;
            let segx2 = r.u16()? as usize;
            let n = segx2 / 2;
            r.take(6)?;
            let ends: Vec<u16> = (0..n).map(|_| r.u16()).collect::<Option<_>>()?;
            r.u16()?;
            let starts: Vec<u16> = (0..n).map(|_| r.u16()).collect::<Option<_>>()?;
            let deltas: Vec<i16> = (0..n).map(|_| r.i16()).collect::<Option<_>>()?;
            let ro_pos = r.p;
            let ros: Vec<u16> = (0..n).map(|_| r.u16()).collect::<Option<_>>()?;
            for i in 0..n {
                if starts[i] > ends[i] {
                    continue;
                }
                for c in starts[i] as u32..=ends[i] as u32 {
                    let g = if ros[i] == 0 {
                        (c as i32 + deltas[i] as i32).rem_euclid(65536) as u16
                    } else {
                        let p = ro_pos + 2 * i + ros[i] as usize + 2 * (c as usize - starts[i] as usize);
                        match crate::be::u16_at(sub, p) {
                            Some(0) | None => 0,
                            Some(e) => (e as i32 + deltas[i] as i32).rem_euclid(65536) as u16,
                        }
                    };
                    if g != 0 && !m.contains_key(&c) {
                        m.insert(c, g);
                    }
                }
            }
        }
        6 => {
            let _len = r.u16()?;
            let _lang = r.u16()?;
            let first = r.u16()? as u32;
            let n = r.u16()? as u32;
            for i in 0..n {
                let g = r.u16()?;
                if g != 0 {
                    m.insert(first + i, g);
                }
            }
        }
        10 => {
            r.u16()?;
            let _len = r.u32()?;
            let _lang = r.u32()?;
            let start = r.u32()?;
            let n = r.u32()?;
            for i in 0..n {
                let g = r.u16()?;
                if g != 0 {
                    m.insert(start.checked_add(i)?, g);
                }
            }
        }
        12 => {
            r.u16()?;
            let _len = r.u32()?;
            let _lang = r.u32()?;
            let n = r.u32()?;
            for _ in 0..n {
                let (s, e, g) = (r.u32()?, r.u32()?, r.u32()?);
                if e < s || e - s > 0x110000 {
                    return None;
                }
                for c in s..=e {
                    let gid = g.checked_add(c - s)?;
                    if gid != 0 && gid <= 0xFFFF && !m.contains_key(&c) {
                        m.insert(c, gid as u16);
                    }
                }
            }
        }
        _ => return None,
    }
    Some(m)
}

// ------------------------------------------------------------------------------------------------ basic fields

pub struct Basics {
    pub num_glyphs: u16,
    pub num_h_metrics: u16,
    pub index_to_loc_format: i16,
    pub units_per_em: u16,
}

pub fn basics(f: &sfnt::Sfnt<'_>) -> Result<Basics, String> {
    let head = f.table(tag(b"head")).ok_or("no head")?;
    let maxp = f.table(tag(b"maxp")).ok_or("no maxp")?;
    let hhea = f.table(tag(b"hhea")).ok_or("no hhea")?;
    if head.len() < 54 {
        return Err(format!("head is {} bytes", head.len()));
    }
    if crate::be::u32_at(head, 12) != Some(0x5F0F3CF5) {
        return Err("head magic".into());
    }
    if hhea.len() < 36 {
        return Err(format!("hhea is {} bytes", hhea.len()));
    }
    if maxp.len() < 6 {
        return Err("maxp too short".into());
    }
    Ok(Basics {
        num_glyphs: crate::be::u16_at(maxp, 4).unwrap(),
        num_h_metrics: crate::be::u16_at(hhea, 34).unwrap(),
        index_to_loc_format: crate::be::u16_at(head, 50).unwrap() as i16,
        units_per_em: crate::be::u16_at(head, 18).unwrap(),
    })
}

/// (advance, lsb) of every glyph from hmtx.
pub fn hmtx_metrics(hmtx: &[u8], num_glyphs: u16, num_h_metrics: u16) -> Option<Vec<(u16, i16)>> {
    let mut r = R::new(hmtx);
    let mut v = Vec::new();
    let mut last = 0u16;
    for _ in 0..num_h_metrics.min(num_glyphs) {
        last = r.u16()?;
        v.push((last, r.i16()?));
    }
    for _ in num_h_metrics.min(num_glyphs)..num_glyphs {
        v.push((last, r.i16()?));
    }
    Some(v)
}

pub fn loca_offsets(loca: &[u8], num_glyphs: u16, long: bool) -> Option<Vec<u32>> {
    let mut r = R::new(loca);
    (0..=num_glyphs as usize).map(|_| if long { r.u32() } else { r.u16().map(|v| v as u32 * 2) }).collect()
}

/// Component glyph ids of a composite glyph record (empty for simple / empty glyphs). None = malformed.
pub fn composite_components(glyph: &[u8]) -> Option<Vec<u16>> {
    if glyph.is_empty() {
        return Some(vec![]);
    }
    let mut r = R::new(glyph);
    let nc = r.i16()?;
    r.take(8)?;
    if nc >= 0 {
        return Some(vec![]);
    }
    let mut v = Vec::new();
    loop {
        let flags = r.u16()?;
        v.push(r.u16()?);
        r.take(if flags & 1 != 0 { 4 } else { 2 })?;
        if flags & 0x0008 != 0 {
            r.take(2)?;
        } else if flags & 0x0040 != 0 {
            r.take(4)?;
        } else if flags & 0x0080 != 0 {
            r.take(8)?;
        }
        if flags & 0x0020 == 0 {
            if flags & 0x0100 != 0 {
                let n = r.u16()? as usize;
                r.take(n)?;
            }
            break;
        }
        if v.len() > 4096 {
            return None;
        }
    }
    Some(v)
}

/// Does a simple glyph record parse to exactly its declared points (length check)? None = malformed.
pub fn simple_glyph_len_ok(glyph: &[u8]) -> Option<()> {
    let mut r = R::new(glyph);
    let nc = r.i16()?;
    r.take(8)?;
    if nc < 0 {
        return Some(());
    }
    let mut npts = 0usize;
    for _ in 0..nc {
        let e = r.u16()? as usize + 1;
        if e < npts {
            return None;
        }
        npts = e;
    }
    let ni = r.u16()? as usize;
    r.take(ni)?;
    let mut flags = Vec::with_capacity(npts);
    while flags.len() < npts {
        let f = r.u8()?;
        flags.push(f);
        if f & 8 != 0 {
            let rep = r.u8()?;
            for _ in 0..rep {
                flags.push(f);
            }
        }
    }
    if flags.len() != npts {
        return None;
    }
    for f in &flags {
        if f & 2 != 0 {
            r.take(1)?;
        } else if f & 16 == 0 {
            r.take(2)?;
        }
    }
    for f in &flags {
        if f & 4 != 0 {
            r.take(1)?;
        } else if f & 32 == 0 {
            r.take(2)?;
        }
    }
    Some(())
}

// ------------------------------------------------------------------------------------------------ minimal CFF

fn cff_index(d: &[u8], pos: usize) -> Option<(u32, usize, Vec<(usize, usize)>)> {
    // returns (count, end position, object spans)
    let mut r = R::at(d, pos);
    let count = r.u16()? as u32;
    if count == 0 {
        return Some((0, r.p, vec![]));
    }
    let off_size = r.u8()? as usize;
    if !(1..=4).contains(&off_size) {
        return None;
    }
    let mut offs = Vec::new();
    for _ in 0..=count {
        let b = r.take(off_size)?;
        offs.push(b.iter().fold(0usize, |a, x| (a << 8) | *x as usize));
    }
    let base = r.p - 1;
    let mut spans = Vec::new();
    for w in offs.windows(2) {
        if w[0] < 1 || w[1] < w[0] || base + w[1] > d.len() {
            return None;
        }
        spans.push((base + w[0], base + w[1]));
    }
    Some((count, base + *offs.last()?, spans))
}

/// Number of charstrings of the first font of a CFF table.
pub fn cff_charstrings_count(cff: &[u8]) -> Option<u32> {
    let hdr_size = *cff.get(2)? as usize;
    let (_, p, _) = cff_index(cff, hdr_size)?; // Name
    let (n, _, spans) = cff_index(cff, p)?; // Top DICT
    if n == 0 {
        return None;
    }
    let dict = cff.get(spans[0].0..spans[0].1)?;
    // scan operands / operators for operator 17 (CharStrings)
    let mut i = 0;
    let mut operands: Vec<i64> = Vec::new();
    while i < dict.len() {
        let b = dict[i];
        match b {
            0..=21 => {
                let op = if b == 12 {
                    i += 1;
                    1200 + *dict.get(i)? as u32
                } else {
                    b as u32
                };
                if op == 17 {
                    let off = *operands.last()? as usize;
                    return cff_index(cff, off).map(|x| x.0);
                }
                operands.clear();
                i += 1;
            }
            28 => {
                operands.push(i16::from_be_bytes([*dict.get(i + 1)?, *dict.get(i + 2)?]) as i64);
                i += 3;
            }
            29 => {
                operands.push(i32::from_be_bytes([*dict.get(i + 1)?, *dict.get(i + 2)?, *dict.get(i + 3)?, *dict.get(i + 4)?]) as i64);
                i += 5;
            }
            30 => {
                i += 1;
                while i < dict.len() {
                    let n = dict[i];
                    i += 1;
                    if n & 0xF == 0xF || n >> 4 == 0xF {
                        break;
                    }
                }
                operands.push(0);
            }
            32..=246 => {
                operands.push(b as i64 - 139);
                i += 1;
            }
            247..=250 => {
                operands.push((b as i64 - 247) * 256 + *dict.get(i + 1)? as i64 + 108);
                i += 2;
            }
            251..=254 => {
                operands.push(-(b as i64 - 251) * 256 - *dict.get(i + 1)? as i64 - 108);
                i += 2;
            }
            _ => return None,
        }
    }
    None
}

// ------------------------------------------------------------------------------------------------ validator

/// C09: structural validity (sfnt::validate) plus cross-table consistency of a written font.
pub fn validate_font(data: &[u8]) -> Vec<String> {
    let mut p = sfnt::validate(data);
    let f = match sfnt::parse(data) {
        Some(f) => f,
        None => return p,
    };
    let b = match basics(&f) {
        Ok(b) => b,
        Err(e) => {
            p.push(e);
            return p;
        }
    };
    let ng = b.num_glyphs;
    if b.num_h_metrics > ng {
        p.push(format!("hhea.numberOfHMetrics {} > maxp.numGlyphs {}", b.num_h_metrics, ng));
    }
    if ng > 0 && b.num_h_metrics == 0 {
        p.push("hhea.numberOfHMetrics is 0".into());
    }
    match f.table(tag(b"hmtx")) {
        Some(h) => {
            let want = 4 * b.num_h_metrics.min(ng) as usize + 2 * (ng.saturating_sub(b.num_h_metrics)) as usize;
            if h.len() != want {
                p.push(format!("hmtx is {} bytes, numGlyphs {} / numberOfHMetrics {} need {}", h.len(), ng, b.num_h_metrics, want));
            }
        }
        None => p.push("no hmtx".into()),
    }
    if !(0..=1).contains(&b.index_to_loc_format) {
        p.push(format!("head.indexToLocFormat {}", b.index_to_loc_format));
    }
    let has_glyf = f.table(tag(b"glyf")).is_some();
    let has_cff = f.table(tag(b"CFF ")).is_some();
    if has_glyf != f.table(tag(b"loca")).is_some() {
        p.push("glyf and loca must both be present or both absent".into());
    }
    if has_glyf && has_cff {
        p.push("both glyf and CFF".into());
    }
    if f.flavor == sfnt::OTTO && !has_cff && f.table(tag(b"CFF2")).is_none() {
        p.push("OTTO flavour without CFF/CFF2".into());
    }
    if let (Some(glyf), Some(loca)) = (f.table(tag(b"glyf")), f.table(tag(b"loca"))) {
        let long = b.index_to_loc_format == 1;
        let want = (ng as usize + 1) * if long { 4 } else { 2 };
        if loca.len() != want {
            p.push(format!("loca is {} bytes, expected {} for {} glyphs ({} format)", loca.len(), want, ng, if long { "long" } else { "short" }));
        }
        match loca_offsets(loca, ng, long) {
            None => p.push("loca too short".into()),
            Some(offs) => {
                for w in offs.windows(2) {
                    if w[1] < w[0] {
                        p.push(format!("loca not monotone: {} then {}", w[0], w[1]));
                        break;
                    }
                }
                if let Some(&last) = offs.last() {
                    if last as usize > glyf.len() {
                        p.push(format!("loca end {} beyond glyf length {}", last, glyf.len()));
                    } else if glyf.len() - last as usize >= 4 {
                        p.push(format!("glyf has {} unreferenced trailing bytes", glyf.len() - last as usize));
                    }
                }
                for (g, w) in offs.windows(2).enumerate() {
                    if w[1] > w[0] && (w[1] as usize) <= glyf.len() {
                        let rec = &glyf[w[0] as usize..w[1] as usize];
                        if rec.len() < 10 {
                            p.push(format!("glyph {} record is {} bytes", g, rec.len()));
                            continue;
                        }
                        match composite_components(rec) {
                            None => p.push(format!("glyph {}: malformed composite", g)),
                            Some(cs) => {
                                for c in cs {
                                    if c >= ng {
                                        p.push(format!("glyph {} references component {} >= numGlyphs {}", g, c, ng));
                                    }
                                }
                            }
                        }
                        if simple_glyph_len_ok(rec).is_none() {
                            p.push(format!("glyph {}: simple glyph data does not fit its record", g));
                        }
                        if !long && w[0] % 2 != 0 {
                            p.push(format!("glyph {} at odd offset with short loca", g));
                        }
                    }
                }
            }
        }
    }
    if let Some(cff) = f.table(tag(b"CFF ")) {
        match cff_charstrings_count(cff) {
            Some(n) if n == ng as u32 => {}
            Some(n) => p.push(format!("CFF has {} charstrings, maxp.numGlyphs is {}", n, ng)),
            None => p.push("CFF CharStrings INDEX not found".into()),
        }
    }
    if let Some(cmap) = f.table(tag(b"cmap")) {
        match cmap_records(cmap) {
            None => p.push("cmap header malformed".into()),
            Some(recs) => {
                for w in recs.windows(2) {
                    if (w[0].platform, w[0].encoding) >= (w[1].platform, w[1].encoding) {
                        p.push("cmap encoding records not sorted by (platform, encoding)".into());
                    }
                }
                for r in &recs {
                    let sub = match cmap.get(r.offset as usize..) {
                        Some(s) if s.len() >= 4 => s,
                        _ => {
                            p.push(format!("cmap record ({},{}) offset {} out of range", r.platform, r.encoding, r.offset));
                            continue;
                        }
                    };
                    p.extend(validate_cmap_subtable(sub, ng).into_iter().map(|e| format!("cmap ({},{}): {}", r.platform, r.encoding, e)));
                }
            }
        }
    }
    if let Some(post) = f.table(tag(b"post")) {
        let v = crate::be::u32_at(post, 0).unwrap_or(0);
        if ![0x0001_0000, 0x0002_0000, 0x0002_5000, 0x0003_0000].contains(&v) {
            p.push(format!("post version {:08x}", v));
        }
        if post.len() < 32 {
            p.push(format!("post is {} bytes", post.len()));
        }
        if v == 0x0002_0000 {
            match crate::be::u16_at(post, 32) {
                Some(n) if n == ng => {
                    // glyphNameIndex values and the Pascal strings they refer to
                    let mut max_idx = 0usize;
                    for i in 0..n as usize {
                        match crate::be::u16_at(post, 34 + 2 * i) {
                            Some(ix) if ix >= 258 => max_idx = max_idx.max(ix as usize - 257),
                            Some(_) => {}
                            None => {
                                p.push("post v2 glyphNameIndex truncated".into());
                                break;
                            }
                        }
                    }
                    let mut pos = 34 + 2 * n as usize;
                    let mut count = 0usize;
                    while pos < post.len() {
                        let l = post[pos] as usize;
                        pos += 1 + l;
                        count += 1;
                    }
                    if pos != post.len() {
                        p.push("post v2 string data overruns the table".into());
                    }
                    if count < max_idx {
                        p.push(format!("post v2 refers to name {} but only {} names are stored", max_idx, count));
                    }
                }
                Some(n) => p.push(format!("post v2 numGlyphs {} != maxp.numGlyphs {}", n, ng)),
                None => p.push("post v2 truncated".into()),
            }
        }
    }
    p
}

pub fn validate_cmap_subtable(sub: &[u8], num_glyphs: u16) -> Vec<String> {
    let mut p = Vec::new();
    let format = crate::be::u16_at(sub, 0).unwrap_or(0xFFFF);
    match format {
        0 => {
            if crate::be::u16_at(sub, 2) != Some(262) || sub.len() < 262 {
                p.push("format 0 length != 262".into());
            }
        }
        4 => {
            let len = crate::be::u16_at(sub, 2).unwrap_or(0) as usize;
            if len > sub.len() || len < 16 {
                p.push(format!("format 4 length {} but {} bytes available", len, sub.len()));
                return p;
            }
            let segx2 = crate::be::u16_at(sub, 6).unwrap_or(0);
            if segx2 % 2 != 0 || segx2 == 0 {
                p.push(format!("format 4 segCountX2 {}", segx2));
                return p;
            }
            let n = (segx2 / 2) as usize;
            let want = sfnt::search_fields(n as u16, 2);
            let got = (crate::be::u16_at(sub, 8).unwrap_or(0), crate::be::u16_at(sub, 10).unwrap_or(0), crate::be::u16_at(sub, 12).unwrap_or(0));
            if got != want {
                p.push(format!("format 4 search fields {:?}, expected {:?}", got, want));
            }
            if 16 + 8 * n > len {
                p.push("format 4 arrays exceed length".into());
                return p;
            }
            let ends: Vec<u16> = (0..n).map(|i| crate::be::u16_at(sub, 14 + 2 * i).unwrap()).collect();
            let starts: Vec<u16> = (0..n).map(|i| crate::be::u16_at(sub, 16 + 2 * n + 2 * i).unwrap()).collect();
            if crate::be::u16_at(sub, 14 + 2 * n) != Some(0) {
                p.push("format 4 reservedPad != 0".into());
            }
            if *ends.last().unwrap() != 0xFFFF {
                p.push("format 4 last endCode != 0xFFFF".into());
            }
            for i in 0..n {
                if starts[i] > ends[i] {
                    p.push(format!("format 4 segment {} start {:#x} > end {:#x}", i, starts[i], ends[i]));
                }
                if i > 0 && ends[i - 1] >= starts[i] {
                    p.push(format!("format 4 segments {} and {} overlap or are unsorted", i - 1, i));
                }
                if i > 0 && ends[i - 1] >= ends[i] {
                    p.push(format!("format 4 endCodes not strictly increasing at {}", i));
                }
            }
            if (len - 16 - 8 * n) % 2 != 0 {
                p.push("format 4 odd glyphIdArray size".into());
            }
        }
        6 => {
            let len = crate::be::u16_at(sub, 2).unwrap_or(0) as usize;
            let n = crate::be::u16_at(sub, 8).unwrap_or(0) as usize;
            if len != 10 + 2 * n || len > sub.len() {
                p.push(format!("format 6 length {} entryCount {}", len, n));
            }
        }
        12 => {
            let len = crate::be::u32_at(sub, 4).unwrap_or(0) as usize;
            let n = crate::be::u32_at(sub, 12).unwrap_or(0) as usize;
            if len != 16 + 12 * n || len > sub.len() {
                p.push(format!("format 12 length {} numGroups {}", len, n));
                return p;
            }
            let mut prev_end: Option<u32> = None;
            for i in 0..n {
                let (s, e, g) = (crate::be::u32_at(sub, 16 + 12 * i).unwrap(), crate::be::u32_at(sub, 20 + 12 * i).unwrap(), crate::be::u32_at(sub, 24 + 12 * i).unwrap());
                if s > e {
                    p.push(format!("format 12 group {} start > end", i));
                }
                if let Some(pe) = prev_end {
                    if s <= pe {
                        p.push(format!("format 12 groups {} and {} overlap or are unsorted", i - 1, i));
                    }
                }
                if e > 0x10FFFF {
                    p.push(format!("format 12 group {} ends at {:#x}", i, e));
                }
                if (g as u64 + (e - s.min(e)) as u64) >= num_glyphs as u64 {
                    p.push(format!("format 12 group {} maps to glyph {} >= numGlyphs {}", i, g as u64 + (e - s.min(e)) as u64, num_glyphs));
                }
                prev_end = Some(e);
            }
        }
        f => p.push(format!("cmap subtable format {} not expected from a writer", f)),
    }
    if let Some(m) = cmap_mappings(sub) {
        for (c, g) in m {
            if g >= num_glyphs {
                p.push(format!("code {:#x} maps to glyph {} >= numGlyphs {}", c, g, num_glyphs));
                break;
            }
        }
    }
    let _ = tag_str;
    p
}
