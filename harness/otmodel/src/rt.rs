//! rt — independent byte-level encoders/decoders for the structures allsorts can *write* (used by C15 to
//! detect truncated or mis-laid-out writes). Everything here is written from the OpenType specification and
//! Adobe Technical Note #5176 (CFF) / the CFF2 chapter of the OpenType specification; nothing depends on allsorts.

use crate::be::{R, W};

// ---------------------------------------------------------------------------------------------
// Fixed layouts
// ---------------------------------------------------------------------------------------------

#[derive(Clone, Copy, Debug, PartialEq, Eq)]
pub enum K {
    U8,
    I8,
    U16,
    I16,
    U32,
    I32,
    I64,
}

impl K {
    pub fn size(self) -> usize {
        match self {
            K::U8 | K::I8 => 1,
            K::U16 | K::I16 => 2,
            K::U32 | K::I32 => 4,
            K::I64 => 8,
        }
    }
    pub fn min(self) -> i64 {
        match self {
            K::U8 | K::U16 | K::U32 => 0,
            K::I8 => -128,
            K::I16 => -32768,
            K::I32 => i32::MIN as i64,
            K::I64 => i64::MIN,
        }
    }
    pub fn max(self) -> i64 {
        match self {
            K::U8 => 255,
            K::I8 => 127,
            K::U16 => 65535,
            K::I16 => 32767,
            K::U32 => u32::MAX as i64,
            K::I32 => i32::MAX as i64,
            K::I64 => i64::MAX,
        }
    }
}

pub type Layout = [(&'static str, K)];

pub fn layout_size(l: &Layout) -> usize {
    l.iter().map(|(_, k)| k.size()).sum()
}

pub fn enc(l: &Layout, vals: &[i64]) -> Vec<u8> {
    assert_eq!(l.len(), vals.len());
    let mut w = W::new();
    for ((_, k), v) in l.iter().zip(vals) {
        assert!(*v >= k.min() && *v <= k.max(), "rt::enc: value out of range for its field");
        match k {
            K::U8 => w.u8(*v as u8),
            K::I8 => w.i8(*v as i8),
            K::U16 => w.u16(*v as u16),
            K::I16 => w.i16(*v as i16),
            K::U32 => w.u32(*v as u32),
            K::I32 => w.i32(*v as i32),
            K::I64 => w.u64(*v as u64),
        };
    }
    w.done()
}

/// Decode exactly `layout_size(l)` bytes (no more, no less).
pub fn dec(l: &Layout, b: &[u8]) -> Option<Vec<i64>> {
    if b.len() != layout_size(l) {
        return None;
    }
    let mut r = R::new(b);
    let mut out = Vec::with_capacity(l.len());
    for (_, k) in l {
        out.push(match k {
            K::U8 => r.u8()? as i64,
            K::I8 => r.i8()? as i64,
            K::U16 => r.u16()? as i64,
            K::I16 => r.i16()? as i64,
            K::U32 => r.u32()? as i64,
            K::I32 => r.i32()? as i64,
            K::I64 => {
                let hi = r.u32()? as u64;
                let lo = r.u32()? as u64;
                ((hi << 32) | lo) as i64
            }
        });
    }
    Some(out)
}

// OpenType `head` (54 bytes)
pub const HEAD: &Layout = &[
    ("majorVersion", K::U16),
    ("minorVersion", K::U16),
    ("fontRevision", K::I32),
    ("checksumAdjustment", K::U32),
    ("magicNumber", K::U32),
    ("flags", K::U16),
    ("unitsPerEm", K::U16),
    ("created", K::I64),
    ("modified", K::I64),
    ("xMin", K::I16),
    ("yMin", K::I16),
    ("xMax", K::I16),
    ("yMax", K::I16),
    ("macStyle", K::U16),
    ("lowestRecPPEM", K::U16),
    ("fontDirectionHint", K::I16),
    ("indexToLocFormat", K::I16),
    ("glyphDataFormat", K::I16),
];

// OpenType `hhea` / `vhea` (36 bytes)
pub const HHEA: &Layout = &[
    ("majorVersion", K::U16),
    ("minorVersion", K::U16),
    ("ascender", K::I16),
    ("descender", K::I16),
    ("lineGap", K::I16),
    ("advanceWidthMax", K::U16),
    ("minLeftSideBearing", K::I16),
    ("minRightSideBearing", K::I16),
    ("xMaxExtent", K::I16),
    ("caretSlopeRise", K::I16),
    ("caretSlopeRun", K::I16),
    ("caretOffset", K::I16),
    ("reserved1", K::I16),
    ("reserved2", K::I16),
    ("reserved3", K::I16),
    ("reserved4", K::I16),
    ("metricDataFormat", K::I16),
    ("numberOfHMetrics", K::U16),
];

pub const MAXP05: &Layout = &[("version", K::U32), ("numGlyphs", K::U16)];

pub const MAXP10: &Layout = &[
    ("version", K::U32),
    ("numGlyphs", K::U16),
    ("maxPoints", K::U16),
    ("maxContours", K::U16),
    ("maxCompositePoints", K::U16),
    ("maxCompositeContours", K::U16),
    ("maxZones", K::U16),
    ("maxTwilightPoints", K::U16),
    ("maxStorage", K::U16),
    ("maxFunctionDefs", K::U16),
    ("maxInstructionDefs", K::U16),
    ("maxStackElements", K::U16),
    ("maxSizeOfInstructions", K::U16),
    ("maxComponentElements", K::U16),
    ("maxComponentDepth", K::U16),
];

/// OS/2 fields common to all versions (68 bytes, the Apple "short version 0" table)
pub const OS2_BASE: &Layout = &[
    ("version", K::U16),
    ("xAvgCharWidth", K::I16),
    ("usWeightClass", K::U16),
    ("usWidthClass", K::U16),
    ("fsType", K::U16),
    ("ySubscriptXSize", K::I16),
    ("ySubscriptYSize", K::I16),
    ("ySubscriptXOffset", K::I16),
    ("ySubscriptYOffset", K::I16),
    ("ySuperscriptXSize", K::I16),
    ("ySuperscriptYSize", K::I16),
    ("ySuperscriptXOffset", K::I16),
    ("ySuperscriptYOffset", K::I16),
    ("yStrikeoutSize", K::I16),
    ("yStrikeoutPosition", K::I16),
    ("sFamilyClass", K::I16),
    ("panose0", K::U8),
    ("panose1", K::U8),
    ("panose2", K::U8),
    ("panose3", K::U8),
    ("panose4", K::U8),
    ("panose5", K::U8),
    ("panose6", K::U8),
    ("panose7", K::U8),
    ("panose8", K::U8),
    ("panose9", K::U8),
    ("ulUnicodeRange1", K::U32),
    ("ulUnicodeRange2", K::U32),
    ("ulUnicodeRange3", K::U32),
    ("ulUnicodeRange4", K::U32),
    ("achVendID", K::U32),
    ("fsSelection", K::U16),
    ("usFirstCharIndex", K::U16),
    ("usLastCharIndex", K::U16),
];
pub const OS2_V0: &Layout = &[
    ("sTypoAscender", K::I16),
    ("sTypoDescender", K::I16),
    ("sTypoLineGap", K::I16),
    ("usWinAscent", K::U16),
    ("usWinDescent", K::U16),
];
pub const OS2_V1: &Layout = &[("ulCodePageRange1", K::U32), ("ulCodePageRange2", K::U32)];
pub const OS2_V2: &Layout = &[
    ("sxHeight", K::I16),
    ("sCapHeight", K::I16),
    ("usDefaultChar", K::U16),
    ("usBreakChar", K::U16),
    ("usMaxContext", K::U16),
];
pub const OS2_V5: &Layout = &[("usLowerOpticalPointSize", K::U16), ("usUpperOpticalPointSize", K::U16)];

/// The OS/2 layout for a table of the given shape: 0 = 68-byte version 0, 1 = 78-byte version 0, 2 = version 1,
/// 3 = versions 2-4, 4 = version 5.
pub fn os2_layout(shape: usize) -> Vec<(&'static str, K)> {
    let mut l = OS2_BASE.to_vec();
    if shape >= 1 {
        l.extend_from_slice(OS2_V0);
    }
    if shape >= 2 {
        l.extend_from_slice(OS2_V1);
    }
    if shape >= 3 {
        l.extend_from_slice(OS2_V2);
    }
    if shape >= 4 {
        l.extend_from_slice(OS2_V5);
    }
    l
}

pub const POST_HEADER: &Layout = &[
    ("version", K::I32),
    ("italicAngle", K::I32),
    ("underlinePosition", K::I16),
    ("underlineThickness", K::I16),
    ("isFixedPitch", K::U32),
    ("minMemType42", K::U32),
    ("maxMemType42", K::U32),
    ("minMemType1", K::U32),
    ("maxMemType1", K::U32),
];

pub const TABLE_RECORD: &Layout = &[("tag", K::U32), ("checksum", K::U32), ("offset", K::U32), ("length", K::U32)];

// ---------------------------------------------------------------------------------------------
// name
// ---------------------------------------------------------------------------------------------

#[derive(Clone, Debug, PartialEq, Eq)]
pub struct NameModel {
    /// platformID, encodingID, languageID, nameID, length, offset
    pub records: Vec<[u16; 6]>,
    /// length, offset (None: format 0)
    pub langtags: Option<Vec<[u16; 2]>>,
    pub storage: Vec<u8>,
}

pub fn name_encode(m: &NameModel) -> Vec<u8> {
    let mut w = W::new();
    let header = 6 + 12 * m.records.len() + m.langtags.as_ref().map_or(0, |l| 2 + 4 * l.len());
    w.u16(if m.langtags.is_some() { 1 } else { 0 });
    w.u16(m.records.len() as u16);
    w.u16(header as u16);
    for r in &m.records {
        for v in r {
            w.u16(*v);
        }
    }
    if let Some(l) = &m.langtags {
        w.u16(l.len() as u16);
        for r in l {
            w.u16(r[0]).u16(r[1]);
        }
    }
    w.bytes(&m.storage);
    w.done()
}

/// Decode a name table; the storage is everything from stringOffset to the end. Fails when the header arrays
/// overlap the storage offset or the data is short.
pub fn name_decode(b: &[u8]) -> Result<NameModel, String> {
    let mut r = R::new(b);
    let e = || "short name table".to_string();
    let format = r.u16().ok_or_else(e)?;
    if format > 1 {
        return Err(format!("format {}", format));
    }
    let count = r.u16().ok_or_else(e)? as usize;
    let so = r.u16().ok_or_else(e)? as usize;
    let mut records = Vec::with_capacity(count);
    for _ in 0..count {
        let mut rec = [0u16; 6];
        for v in rec.iter_mut() {
            *v = r.u16().ok_or_else(e)?;
        }
        records.push(rec);
    }
    let langtags = if format == 1 {
        let n = r.u16().ok_or_else(e)? as usize;
        let mut l = Vec::with_capacity(n);
        for _ in 0..n {
            l.push([r.u16().ok_or_else(e)?, r.u16().ok_or_else(e)?]);
        }
        Some(l)
    } else {
        None
    };
    if so != r.p {
        return Err(format!("stringOffset {} but the header arrays end at {}", so, r.p));
    }
    Ok(NameModel { records, langtags, storage: b[so..].to_vec() })
}

// ---------------------------------------------------------------------------------------------
// post version 2
// ---------------------------------------------------------------------------------------------

#[derive(Clone, Debug, PartialEq, Eq)]
pub struct Post2 {
    pub header: Vec<i64>,
    pub glyph_name_index: Vec<u16>,
    pub names: Vec<Vec<u8>>,
}

pub fn post2_encode(m: &Post2) -> Vec<u8> {
    let mut w = W::new();
    w.bytes(&enc(POST_HEADER, &m.header));
    w.u16(m.glyph_name_index.len() as u16);
    for v in &m.glyph_name_index {
        w.u16(*v);
    }
    for n in &m.names {
        w.u8(n.len() as u8).bytes(n);
    }
    w.done()
}

/// Decode header + numGlyphs + index array + all Pascal strings up to the end of the table.
pub fn post2_decode(b: &[u8]) -> Result<Post2, String> {
    if b.len() < 34 {
        return Err("short post table".into());
    }
    let header = dec(POST_HEADER, &b[..32]).unwrap();
    let mut r = R::at(b, 32);
    let n = r.u16().unwrap() as usize;
    let mut idx = Vec::with_capacity(n);
    for _ in 0..n {
        idx.push(r.u16().ok_or("short glyphNameIndex")?);
    }
    let mut names = Vec::new();
    while r.left() > 0 {
        let l = r.u8().unwrap() as usize;
        names.push(r.take(l).ok_or("Pascal string runs past the end of the table")?.to_vec());
    }
    Ok(Post2 { header, glyph_name_index: idx, names })
}

// ---------------------------------------------------------------------------------------------
// cmap subtables (structural: the stored arrays, not the mapping)
// ---------------------------------------------------------------------------------------------

#[derive(Clone, Debug, PartialEq, Eq)]
pub enum CmapSub {
    F0 { language: u16, glyphs: Vec<u8> },
    F4 { language: u16, end: Vec<u16>, start: Vec<u16>, delta: Vec<i16>, range_offset: Vec<u16>, glyphs: Vec<u16> },
    F6 { language: u16, first: u16, glyphs: Vec<u16> },
    F10 { language: u32, start: u32, glyphs: Vec<u16> },
    F12 { language: u32, groups: Vec<[u32; 3]> },
}

/// searchRange, entrySelector, rangeShift for a format 4 subtable with `n` segments (n >= 1).
pub fn f4_search(n: usize) -> (u16, u16, u16) {
    let mut p = 1usize;
    let mut e = 0u16;
    while p * 2 <= n {
        p *= 2;
        e += 1;
    }
    ((2 * p) as u16, e, (2 * n - 2 * p) as u16)
}

pub fn cmap_sub_encode(m: &CmapSub) -> Vec<u8> {
    let mut w = W::new();
    match m {
        CmapSub::F0 { language, glyphs } => {
            w.u16(0).u16((6 + glyphs.len()) as u16).u16(*language).bytes(glyphs);
        }
        CmapSub::F4 { language, end, start, delta, range_offset, glyphs } => {
            let n = start.len();
            let len = 16 + 8 * n + 2 * glyphs.len();
            let (sr, es, rs) = if n > 0 { f4_search(n) } else { (0, 0, 0) };
            w.u16(4).u16(len as u16).u16(*language).u16((2 * n) as u16).u16(sr).u16(es).u16(rs);
            for v in end {
                w.u16(*v);
            }
            w.u16(0);
            for v in start {
                w.u16(*v);
            }
            for v in delta {
                w.i16(*v);
            }
            for v in range_offset {
                w.u16(*v);
            }
            for v in glyphs {
                w.u16(*v);
            }
        }
        CmapSub::F6 { language, first, glyphs } => {
            w.u16(6).u16((10 + 2 * glyphs.len()) as u16).u16(*language).u16(*first).u16(glyphs.len() as u16);
            for v in glyphs {
                w.u16(*v);
            }
        }
        CmapSub::F10 { language, start, glyphs } => {
            w.u16(10).u16(0).u32((20 + 2 * glyphs.len()) as u32).u32(*language).u32(*start).u32(glyphs.len() as u32);
            for v in glyphs {
                w.u16(*v);
            }
        }
        CmapSub::F12 { language, groups } => {
            w.u16(12).u16(0).u32((16 + 12 * groups.len()) as u32).u32(*language).u32(groups.len() as u32);
            for g in groups {
                w.u32(g[0]).u32(g[1]).u32(g[2]);
            }
        }
    }
    w.done()
}

/// Strict structural decode: the length field must equal the number of bytes given and every count must agree
/// with it; format 4 search fields must have their specified values.
pub fn cmap_sub_decode(b: &[u8]) -> Result<CmapSub, String> {
    let mut r = R::new(b);
    let s = || "short subtable".to_string();
    let format = r.u16().ok_or_else(s)?;
    match format {
        0 => {
            let len = r.u16().ok_or_else(s)? as usize;
            let language = r.u16().ok_or_else(s)?;
            if len != b.len() || len != 262 {
                return Err(format!("format 0 length field {} for {} bytes", len, b.len()));
            }
            Ok(CmapSub::F0 { language, glyphs: b[6..].to_vec() })
        }
        4 => {
            let len = r.u16().ok_or_else(s)? as usize;
            let language = r.u16().ok_or_else(s)?;
            let n2 = r.u16().ok_or_else(s)? as usize;
            let (sr, es, rs) = (r.u16().ok_or_else(s)?, r.u16().ok_or_else(s)?, r.u16().ok_or_else(s)?);
            if len != b.len() {
                return Err(format!("format 4 length field {} for {} bytes", len, b.len()));
            }
            if n2 % 2 != 0 {
                return Err("odd segCountX2".into());
            }
            let n = n2 / 2;
            if n > 0 && (sr, es, rs) != f4_search(n) {
                return Err(format!("search fields {:?} for {} segments, expected {:?}", (sr, es, rs), n, f4_search(n)));
            }
            let mut rd = |k: usize| -> Result<Vec<u16>, String> { (0..k).map(|_| r.u16().ok_or_else(s)).collect() };
            let end = rd(n)?;
            let pad = rd(1)?;
            if pad[0] != 0 {
                return Err("reservedPad != 0".into());
            }
            let start = rd(n)?;
            let delta: Vec<i16> = rd(n)?.into_iter().map(|v| v as i16).collect();
            let range_offset = rd(n)?;
            let rest = b.len().checked_sub(16 + 8 * n).ok_or_else(s)?;
            if rest % 2 != 0 {
                return Err("odd glyphIdArray size".into());
            }
            let glyphs = rd(rest / 2)?;
            Ok(CmapSub::F4 { language, end, start, delta, range_offset, glyphs })
        }
        6 => {
            let len = r.u16().ok_or_else(s)? as usize;
            let language = r.u16().ok_or_else(s)?;
            let first = r.u16().ok_or_else(s)?;
            let n = r.u16().ok_or_else(s)? as usize;
            if len != b.len() || len != 10 + 2 * n {
                return Err(format!("format 6 length {} entryCount {} for {} bytes", len, n, b.len()));
            }
            let glyphs = (0..n).map(|_| r.u16().ok_or_else(s)).collect::<Result<_, _>>()?;
            Ok(CmapSub::F6 { language, first, glyphs })
        }
        10 => {
            if r.u16().ok_or_else(s)? != 0 {
                return Err("reserved != 0".into());
            }
            let len = r.u32().ok_or_else(s)? as usize;
            let language = r.u32().ok_or_else(s)?;
            let start = r.u32().ok_or_else(s)?;
            let n = r.u32().ok_or_else(s)? as usize;
            if len != b.len() || len != 20 + 2 * n {
                return Err(format!("format 10 length {} numChars {} for {} bytes", len, n, b.len()));
            }
            let glyphs = (0..n).map(|_| r.u16().ok_or_else(s)).collect::<Result<_, _>>()?;
            Ok(CmapSub::F10 { language, start, glyphs })
        }
        12 => {
            if r.u16().ok_or_else(s)? != 0 {
                return Err("reserved != 0".into());
            }
            let len = r.u32().ok_or_else(s)? as usize;
            let language = r.u32().ok_or_else(s)?;
            let n = r.u32().ok_or_else(s)? as usize;
            if len != b.len() || len != 16 + 12 * n {
                return Err(format!("format 12 length {} numGroups {} for {} bytes", len, n, b.len()));
            }
            let groups = (0..n)
                .map(|_| Some([r.u32()?, r.u32()?, r.u32()?]))
                .collect::<Option<Vec<_>>>()
                .ok_or_else(s)?;
            Ok(CmapSub::F12 { language, groups })
        }
        f => Err(format!("format {}", f)),
    }
}

/// cmap header: (platform, encoding, offset) records
pub fn cmap_header_decode(b: &[u8]) -> Result<Vec<(u16, u16, u32)>, String> {
    let mut r = R::new(b);
    let s = || "short cmap".to_string();
    if r.u16().ok_or_else(s)? != 0 {
        return Err("version".into());
    }
    let n = r.u16().ok_or_else(s)? as usize;
    (0..n).map(|_| Some((r.u16()?, r.u16()?, r.u32()?))).collect::<Option<Vec<_>>>().ok_or_else(s)
}

/// The byte length a subtable at the start of `b` claims.
pub fn cmap_sub_len(b: &[u8]) -> Option<usize> {
    let f = crate::be::u16_at(b, 0)?;
    match f {
        0 | 2 | 4 | 6 => Some(crate::be::u16_at(b, 2)? as usize),
        8 | 10 | 12 | 13 => Some(crate::be::u32_at(b, 4)? as usize),
        14 => Some(crate::be::u32_at(b, 2)? as usize),
        _ => None,
    }
}

// ---------------------------------------------------------------------------------------------
// glyf glyph records
// ---------------------------------------------------------------------------------------------

#[derive(Clone, Debug, PartialEq, Eq)]
pub struct SimpleModel {
    pub bbox: [i16; 4], // xMin yMin xMax yMax
    pub end_pts: Vec<u16>,
    pub instructions: Vec<u8>,
    /// (on curve, x, y) absolute coordinates (wrapping 16-bit accumulation)
    pub points: Vec<(bool, i16, i16)>,
}

/// How to encode the coordinates of a simple glyph (all give the same abstract glyph).
#[derive(Clone, Copy, Debug, PartialEq, Eq)]
pub enum CoordEnc {
    /// always 16-bit deltas, no repeat
    Long,
    /// shortest per point (short vectors, "same" bit), no repeat
    Short,
    /// shortest per point and REPEAT runs for equal flags
    ShortRepeat,
}

pub fn simple_encode(m: &SimpleModel, e: CoordEnc) -> Vec<u8> {
    let mut w = W::new();
    w.i16(m.end_pts.len() as i16);
    for v in m.bbox {
        w.i16(v);
    }
    for v in &m.end_pts {
        w.u16(*v);
    }
    w.u16(m.instructions.len() as u16).bytes(&m.instructions);
    let mut flags = Vec::new();
    let mut xs = W::new();
    let mut ys = W::new();
    let (mut px, mut py) = (0i16, 0i16);
    for (on, x, y) in &m.points {
        let dx = x.wrapping_sub(px);
        let dy = y.wrapping_sub(py);
        px = *x;
        py = *y;
        let mut f = if *on { 1u8 } else { 0 };
        if e == CoordEnc::Long {
            xs.i16(dx);
            ys.i16(dy);
        } else {
            if dx == 0 {
                f |= 0x10;
            } else if (-255..=255).contains(&dx) {
                f |= 0x02;
                if dx > 0 {
                    f |= 0x10;
                }
                xs.u8(dx.unsigned_abs() as u8);
            } else {
                xs.i16(dx);
            }
            if dy == 0 {
                f |= 0x20;
            } else if (-255..=255).contains(&dy) {
                f |= 0x04;
                if dy > 0 {
                    f |= 0x20;
                }
                ys.u8(dy.unsigned_abs() as u8);
            } else {
                ys.i16(dy);
            }
        }
        flags.push(f);
    }
    if e == CoordEnc::ShortRepeat {
        let mut i = 0;
        while i < flags.len() {
            let mut j = i;
            while j + 1 < flags.len() && flags[j + 1] == flags[i] && j - i < 255 {
                j += 1;
            }
            if j > i {
                w.u8(flags[i] | 0x08).u8((j - i) as u8);
            } else {
                w.u8(flags[i]);
            }
            i = j + 1;
        }
    } else {
        w.bytes(&flags);
    }
    w.bytes(&xs.b).bytes(&ys.b);
    w.done()
}

/// Decode a simple glyph record; `b` must be consumed exactly (up to `slack` trailing zero padding bytes).
pub fn simple_decode(b: &[u8], slack: usize) -> Result<SimpleModel, String> {
    let mut r = R::new(b);
    let s = || "short glyph".to_string();
    let nc = r.i16().ok_or_else(s)?;
    if nc < 0 {
        return Err(format!("numberOfContours {}", nc));
    }
    let bbox = [r.i16().ok_or_else(s)?, r.i16().ok_or_else(s)?, r.i16().ok_or_else(s)?, r.i16().ok_or_else(s)?];
    let end_pts: Vec<u16> = (0..nc).map(|_| r.u16().ok_or_else(s)).collect::<Result<_, _>>()?;
    let il = r.u16().ok_or_else(s)? as usize;
    let instructions = r.take(il).ok_or_else(s)?.to_vec();
    let n = end_pts.last().map_or(0, |l| *l as usize + 1);
    let mut flags = Vec::with_capacity(n);
    while flags.len() < n {
        let f = r.u8().ok_or_else(s)?;
        flags.push(f);
        if f & 8 != 0 {
            let k = r.u8().ok_or_else(s)?;
            for _ in 0..k {
                flags.push(f);
            }
        }
    }
    if flags.len() != n {
        return Err("repeat run overshoots the point count".into());
    }
    let mut xs = Vec::with_capacity(n);
    let mut x = 0i16;
    for f in &flags {
        let d = if f & 2 != 0 {
            let v = r.u8().ok_or_else(s)? as i16;
            if f & 0x10 != 0 {
                v
            } else {
                -v
            }
        } else if f & 0x10 != 0 {
            0
        } else {
            r.i16().ok_or_else(s)?
        };
        x = x.wrapping_add(d);
        xs.push(x);
    }
    let mut points = Vec::with_capacity(n);
    let mut y = 0i16;
    for (i, f) in flags.iter().enumerate() {
        let d = if f & 4 != 0 {
            let v = r.u8().ok_or_else(s)? as i16;
            if f & 0x20 != 0 {
                v
            } else {
                -v
            }
        } else if f & 0x20 != 0 {
            0
        } else {
            r.i16().ok_or_else(s)?
        };
        y = y.wrapping_add(d);
        points.push((f & 1 != 0, xs[i], y));
    }
    if r.left() > slack || b[r.p..].iter().any(|v| *v != 0) {
        return Err(format!("{} unexplained trailing bytes", r.left()));
    }
    Ok(SimpleModel { bbox, end_pts, instructions, points })
}

#[derive(Clone, Debug, PartialEq, Eq)]
pub struct Component {
    pub flags: u16,
    pub glyph: u16,
    /// raw argument values as stored (interpretation depends on the flags)
    pub arg1: i32,
    pub arg2: i32,
    /// raw F2Dot14 values: 0, 1, 2 or 4 of them
    pub scale: Vec<i16>,
}

#[derive(Clone, Debug, PartialEq, Eq)]
pub struct CompositeModel {
    pub bbox: [i16; 4],
    pub components: Vec<Component>,
    pub instructions: Option<Vec<u8>>,
}

pub const ARG_WORDS: u16 = 0x0001;
pub const ARGS_XY: u16 = 0x0002;
pub const HAVE_SCALE: u16 = 0x0008;
pub const MORE: u16 = 0x0020;
pub const HAVE_XY_SCALE: u16 = 0x0040;
pub const HAVE_2X2: u16 = 0x0080;
pub const HAVE_INSTR: u16 = 0x0100;

pub fn composite_encode(m: &CompositeModel) -> Vec<u8> {
    let mut w = W::new();
    w.i16(-1);
    for v in m.bbox {
        w.i16(v);
    }
    for c in &m.components {
        w.u16(c.flags).u16(c.glyph);
        match (c.flags & ARG_WORDS != 0, c.flags & ARGS_XY != 0) {
            (true, true) => w.i16(c.arg1 as i16).i16(c.arg2 as i16),
            (true, false) => w.u16(c.arg1 as u16).u16(c.arg2 as u16),
            (false, true) => w.i8(c.arg1 as i8).i8(c.arg2 as i8),
            (false, false) => w.u8(c.arg1 as u8).u8(c.arg2 as u8),
        };
        for s in &c.scale {
            w.i16(*s);
        }
    }
    if let Some(i) = &m.instructions {
        w.u16(i.len() as u16).bytes(i);
    }
    w.done()
}

pub fn composite_decode(b: &[u8], slack: usize) -> Result<CompositeModel, String> {
    let mut r = R::new(b);
    let s = || "short glyph".to_string();
    let nc = r.i16().ok_or_else(s)?;
    if nc >= 0 {
        return Err(format!("numberOfContours {}", nc));
    }
    let bbox = [r.i16().ok_or_else(s)?, r.i16().ok_or_else(s)?, r.i16().ok_or_else(s)?, r.i16().ok_or_else(s)?];
    let mut components = Vec::new();
    let mut instr = false;
    loop {
        let flags = r.u16().ok_or_else(s)?;
        let glyph = r.u16().ok_or_else(s)?;
        let (arg1, arg2) = match (flags & ARG_WORDS != 0, flags & ARGS_XY != 0) {
            (true, true) => (r.i16().ok_or_else(s)? as i32, r.i16().ok_or_else(s)? as i32),
            (true, false) => (r.u16().ok_or_else(s)? as i32, r.u16().ok_or_else(s)? as i32),
            (false, true) => (r.i8().ok_or_else(s)? as i32, r.i8().ok_or_else(s)? as i32),
            (false, false) => (r.u8().ok_or_else(s)? as i32, r.u8().ok_or_else(s)? as i32),
        };
        let ns = if flags & HAVE_SCALE != 0 {
            1
        } else if flags & HAVE_XY_SCALE != 0 {
            2
        } else if flags & HAVE_2X2 != 0 {
            4
        } else {
            0
        };
        let scale = (0..ns).map(|_| r.i16().ok_or_else(s)).collect::<Result<_, _>>()?;
        instr |= flags & HAVE_INSTR != 0;
        components.push(Component { flags, glyph, arg1, arg2, scale });
        if flags & MORE == 0 {
            break;
        }
    }
    let instructions = if instr {
        let n = r.u16().ok_or_else(s)? as usize;
        Some(r.take(n).ok_or_else(s)?.to_vec())
    } else {
        None
    };
    if r.left() > slack || b[r.p..].iter().any(|v| *v != 0) {
        return Err(format!("{} unexplained trailing bytes", r.left()));
    }
    Ok(CompositeModel { bbox, components, instructions })
}

// ---------------------------------------------------------------------------------------------
// CFF primitives (Technical Note #5176)
// ---------------------------------------------------------------------------------------------

/// Smallest offSize that can hold `v`.
pub fn off_size_for(v: usize) -> u8 {
    if v <= 0xFF {
        1
    } else if v <= 0xFFFF {
        2
    } else if v <= 0xFF_FFFF {
        3
    } else {
        4
    }
}

/// Encode an INDEX. `count_width` is 2 (CFF) or 4 (CFF2); `off_size` 0 = minimal.
pub fn index_encode(objects: &[Vec<u8>], count_width: usize, off_size: u8) -> Vec<u8> {
    let mut w = W::new();
    if count_width == 2 {
        w.u16(objects.len() as u16);
    } else {
        w.u32(objects.len() as u32);
    }
    if objects.is_empty() {
        return w.done();
    }
    let total: usize = objects.iter().map(|o| o.len()).sum();
    let os = if off_size == 0 { off_size_for(total + 1) } else { off_size };
    assert!(os >= off_size_for(total + 1));
    w.u8(os);
    let mut off = 1usize;
    let put = |w: &mut W, v: usize| {
        let b = (v as u32).to_be_bytes();
        w.bytes(&b[4 - os as usize..]);
    };
    for o in objects {
        put(&mut w, off);
        off += o.len();
    }
    put(&mut w, off);
    for o in objects {
        w.bytes(o);
    }
    w.done()
}

#[derive(Clone, Debug, PartialEq, Eq)]
pub struct IndexModel {
    pub off_size: u8,
    pub objects: Vec<Vec<u8>>,
    /// bytes consumed
    pub len: usize,
}

pub fn index_decode(b: &[u8], count_width: usize) -> Result<IndexModel, String> {
    let mut r = R::new(b);
    let s = || "short INDEX".to_string();
    let count = if count_width == 2 { r.u16().ok_or_else(s)? as usize } else { r.u32().ok_or_else(s)? as usize };
    if count == 0 {
        return Ok(IndexModel { off_size: 0, objects: vec![], len: r.p });
    }
    let os = r.u8().ok_or_else(s)?;
    if !(1..=4).contains(&os) {
        return Err(format!("offSize {}", os));
    }
    let mut offs = Vec::with_capacity(count + 1);
    for _ in 0..=count {
        let x = r.take(os as usize).ok_or_else(s)?;
        offs.push(x.iter().fold(0usize, |a, v| (a << 8) | *v as usize));
    }
    if offs[0] != 1 {
        return Err(format!("first offset {}", offs[0]));
    }
    let base = r.p - 1;
    let mut objects = Vec::with_capacity(count);
    for k in 0..count {
        if offs[k + 1] < offs[k] {
            return Err("decreasing offsets".into());
        }
        objects.push(b.get(base + offs[k]..base + offs[k + 1]).ok_or_else(s)?.to_vec());
    }
    Ok(IndexModel { off_size: os, objects, len: base + offs[count] })
}

/// A DICT token.
#[derive(Clone, Debug, PartialEq, Eq)]
pub enum Tok {
    Int(i32),
    /// the packed BCD bytes that follow the 30 prefix, including the byte that holds the terminating nibble
    Real(Vec<u8>),
    /// operator: one-byte operators 0..=24, two-byte operators 0x0C00 | b1
    Op(u16),
}

#[derive(Clone, Copy, Debug, PartialEq, Eq)]
pub enum IntForm {
    Shortest,
    /// 28 + int16
    Short,
    /// 29 + int32
    Long,
}

pub fn int_encode(v: i32, form: IntForm, w: &mut W) {
    match form {
        IntForm::Long => {
            w.u8(29).i32(v);
        }
        IntForm::Short => {
            if (-32768..=32767).contains(&v) {
                w.u8(28).i16(v as i16);
            } else {
                w.u8(29).i32(v);
            }
        }
        IntForm::Shortest => {
            if (-107..=107).contains(&v) {
                w.u8((v + 139) as u8);
            } else if (108..=1131).contains(&v) {
                let x = v - 108;
                w.u8((x / 256 + 247) as u8).u8((x % 256) as u8);
            } else if (-1131..=-108).contains(&v) {
                let x = -v - 108;
                w.u8((x / 256 + 251) as u8).u8((x % 256) as u8);
            } else if (-32768..=32767).contains(&v) {
                w.u8(28).i16(v as i16);
            } else {
                w.u8(29).i32(v);
            }
        }
    }
}

pub fn tok_encode(t: &Tok, form: IntForm, w: &mut W) {
    match t {
        Tok::Int(v) => int_encode(*v, form, w),
        Tok::Real(b) => {
            w.u8(30).bytes(b);
        }
        Tok::Op(o) => {
            if *o > 0xFF {
                w.u8(12).u8(*o as u8);
            } else {
                w.u8(*o as u8);
            }
        }
    }
}

/// Decode a whole DICT into tokens (with the number of bytes each integer used).
pub fn dict_tokens(b: &[u8]) -> Result<Vec<(Tok, usize)>, String> {
    let mut r = R::new(b);
    let mut out = Vec::new();
    let s = || "short DICT".to_string();
    while r.left() > 0 {
        let p0 = r.p;
        let b0 = r.u8().unwrap();
        let t = match b0 {
            12 => Tok::Op(0x0C00 | r.u8().ok_or_else(s)? as u16),
            0..=24 => Tok::Op(b0 as u16),
            28 => Tok::Int(r.i16().ok_or_else(s)? as i32),
            29 => Tok::Int(r.i32().ok_or_else(s)?),
            30 => {
                let mut v = Vec::new();
                loop {
                    let x = r.u8().ok_or_else(s)?;
                    v.push(x);
                    if x >> 4 == 0xF || x & 0xF == 0xF {
                        break;
                    }
                }
                Tok::Real(v)
            }
            32..=246 => Tok::Int(b0 as i32 - 139),
            247..=250 => Tok::Int((b0 as i32 - 247) * 256 + r.u8().ok_or_else(s)? as i32 + 108),
            251..=254 => Tok::Int(-(b0 as i32 - 251) * 256 - r.u8().ok_or_else(s)? as i32 - 108),
            _ => return Err(format!("reserved DICT byte {}", b0)),
        };
        out.push((t, r.p - p0));
    }
    Ok(out)
}

pub type DictModel = Vec<(u16, Vec<Tok>)>;

/// Group tokens into (operator, operands) entries; trailing operands without an operator are an error.
pub fn dict_decode(b: &[u8]) -> Result<DictModel, String> {
    let mut out = Vec::new();
    let mut cur = Vec::new();
    for (t, _) in dict_tokens(b)? {
        match t {
            Tok::Op(o) => out.push((o, std::mem::take(&mut cur))),
            t => cur.push(t),
        }
    }
    if !cur.is_empty() {
        return Err("operands without operator at the end of the DICT".into());
    }
    Ok(out)
}

pub fn dict_encode(d: &DictModel, form: IntForm) -> Vec<u8> {
    let mut w = W::new();
    for (op, operands) in d {
        for t in operands {
            tok_encode(t, form, &mut w);
        }
        tok_encode(&Tok::Op(*op), form, &mut w);
    }
    w.done()
}

/// The text of a real operand per Table 5 of TN5176 (None for reserved nibble 0xd or a missing terminator).
pub fn real_text(b: &[u8]) -> Option<String> {
    let mut s = String::new();
    for x in b {
        for n in [x >> 4, x & 0xF] {
            match n {
                0..=9 => s.push((b'0' + n) as char),
                0xA => s.push('.'),
                0xB => s.push('E'),
                0xC => s.push_str("E-"),
                0xD => return None,
                0xE => s.push('-'),
                _ => return Some(s),
            }
        }
    }
    None
}

/// Numeric value of a token, when it has one.
pub fn tok_value(t: &Tok) -> Option<f64> {
    match t {
        Tok::Int(v) => Some(*v as f64),
        Tok::Real(b) => real_text(b)?.parse::<f64>().ok(),
        Tok::Op(_) => None,
    }
}

pub mod op {
    pub const VERSION: u16 = 0;
    pub const NOTICE: u16 = 1;
    pub const FULL_NAME: u16 = 2;
    pub const FAMILY_NAME: u16 = 3;
    pub const WEIGHT: u16 = 4;
    pub const FONT_BBOX: u16 = 5;
    pub const BLUE_VALUES: u16 = 6;
    pub const OTHER_BLUES: u16 = 7;
    pub const STD_HW: u16 = 10;
    pub const STD_VW: u16 = 11;
    pub const UNIQUE_ID: u16 = 13;
    pub const XUID: u16 = 14;
    pub const CHARSET: u16 = 15;
    pub const ENCODING: u16 = 16;
    pub const CHAR_STRINGS: u16 = 17;
    pub const PRIVATE: u16 = 18;
    pub const SUBRS: u16 = 19;
    pub const DEFAULT_WIDTH_X: u16 = 20;
    pub const NOMINAL_WIDTH_X: u16 = 21;
    pub const VSINDEX: u16 = 22;
    pub const BLEND: u16 = 23;
    pub const VSTORE: u16 = 24;
    pub const IS_FIXED_PITCH: u16 = 0x0C01;
    pub const ITALIC_ANGLE: u16 = 0x0C02;
    pub const UNDERLINE_POSITION: u16 = 0x0C03;
    pub const UNDERLINE_THICKNESS: u16 = 0x0C04;
    pub const PAINT_TYPE: u16 = 0x0C05;
    pub const CHARSTRING_TYPE: u16 = 0x0C06;
    pub const FONT_MATRIX: u16 = 0x0C07;
    pub const STROKE_WIDTH: u16 = 0x0C08;
    pub const BLUE_SCALE: u16 = 0x0C09;
    pub const BLUE_SHIFT: u16 = 0x0C0A;
    pub const BLUE_FUZZ: u16 = 0x0C0B;
    pub const STEM_SNAP_H: u16 = 0x0C0C;
    pub const FORCE_BOLD: u16 = 0x0C0E;
    pub const LANGUAGE_GROUP: u16 = 0x0C11;
    pub const EXPANSION_FACTOR: u16 = 0x0C12;
    pub const INITIAL_RANDOM_SEED: u16 = 0x0C13;
    pub const ROS: u16 = 0x0C1E;
    pub const CID_FONT_VERSION: u16 = 0x0C1F;
    pub const CID_FONT_REVISION: u16 = 0x0C20;
    pub const CID_FONT_TYPE: u16 = 0x0C21;
    pub const CID_COUNT: u16 = 0x0C22;
    pub const FD_ARRAY: u16 = 0x0C24;
    pub const FD_SELECT: u16 = 0x0C25;
    pub const FONT_NAME: u16 = 0x0C26;
}

#[derive(Clone, Copy, Debug, PartialEq, Eq)]
pub enum DictKind {
    Top,
    Private,
    Font,
    Top2,
    Private2,
}

/// Default operand values from TN5176 Tables 9, 10, 23 and the CFF2 Top / Private DICT tables.
pub fn dict_default(kind: DictKind, o: u16) -> Option<Vec<f64>> {
    use op::*;
    match kind {
        DictKind::Top => match o {
            IS_FIXED_PITCH | ITALIC_ANGLE | PAINT_TYPE | STROKE_WIDTH | CHARSET | ENCODING | CID_FONT_VERSION
            | CID_FONT_REVISION | CID_FONT_TYPE => Some(vec![0.0]),
            UNDERLINE_POSITION => Some(vec![-100.0]),
            UNDERLINE_THICKNESS => Some(vec![50.0]),
            CHARSTRING_TYPE => Some(vec![2.0]),
            FONT_MATRIX => Some(vec![0.001, 0.0, 0.0, 0.001, 0.0, 0.0]),
            FONT_BBOX => Some(vec![0.0, 0.0, 0.0, 0.0]),
            CID_COUNT => Some(vec![8720.0]),
            _ => None,
        },
        DictKind::Private => match o {
            BLUE_SCALE => Some(vec![0.039625]),
            BLUE_SHIFT => Some(vec![7.0]),
            BLUE_FUZZ => Some(vec![1.0]),
            FORCE_BOLD | LANGUAGE_GROUP | INITIAL_RANDOM_SEED | DEFAULT_WIDTH_X | NOMINAL_WIDTH_X => Some(vec![0.0]),
            EXPANSION_FACTOR => Some(vec![0.06]),
            _ => None,
        },
        DictKind::Font => None,
        DictKind::Top2 => match o {
            FONT_MATRIX => Some(vec![0.001, 0.0, 0.0, 0.001, 0.0, 0.0]),
            _ => None,
        },
        DictKind::Private2 => match o {
            BLUE_SCALE => Some(vec![0.039625]),
            BLUE_SHIFT => Some(vec![7.0]),
            BLUE_FUZZ => Some(vec![1.0]),
            LANGUAGE_GROUP | VSINDEX => Some(vec![0.0]),
            EXPANSION_FACTOR => Some(vec![0.06]),
            _ => None,
        },
    }
}

pub fn entry_is_default(kind: DictKind, o: u16, operands: &[Tok]) -> bool {
    match dict_default(kind, o) {
        Some(d) => {
            d.len() == operands.len() && d.iter().zip(operands).all(|(x, t)| tok_value(t).map_or(false, |v| v == *x))
        }
        None => false,
    }
}

/// `got` must be `want` with some default-valued entries removed, nothing else changed. Integer operands are
/// compared by value, reals by their nibble bytes.
pub fn dict_equal_modulo_defaults(kind: DictKind, want: &DictModel, got: &DictModel) -> Result<(), String> {
    let mut gi = 0;
    for (o, operands) in want {
        if gi < got.len() && got[gi].0 == *o && got[gi].1 == *operands {
            gi += 1;
        } else if !entry_is_default(kind, *o, operands) {
            return Err(format!("entry for operator {:#06x} with operands {:?} is missing or altered", o, operands));
        }
    }
    if gi != got.len() {
        return Err(format!("unexpected entry {:?}", got[gi]));
    }
    Ok(())
}

// charsets, encodings, FDSelect ---------------------------------------------------------------

#[derive(Clone, Debug, PartialEq, Eq)]
pub enum CharsetModel {
    F0(Vec<u16>),
    /// (first, nLeft)
    F1(Vec<(u16, u8)>),
    F2(Vec<(u16, u16)>),
}

pub fn charset_encode(m: &CharsetModel) -> Vec<u8> {
    let mut w = W::new();
    match m {
        CharsetModel::F0(g) => {
            w.u8(0);
            for v in g {
                w.u16(*v);
            }
        }
        CharsetModel::F1(r) => {
            w.u8(1);
            for (f, n) in r {
                w.u16(*f).u8(*n);
            }
        }
        CharsetModel::F2(r) => {
            w.u8(2);
            for (f, n) in r {
                w.u16(*f).u16(*n);
            }
        }
    }
    w.done()
}

impl CharsetModel {
    /// number of glyphs covered, excluding .notdef
    pub fn covered(&self) -> usize {
        match self {
            CharsetModel::F0(g) => g.len(),
            CharsetModel::F1(r) => r.iter().map(|x| x.1 as usize + 1).sum(),
            CharsetModel::F2(r) => r.iter().map(|x| x.1 as usize + 1).sum(),
        }
    }
}

/// Decode a charset for `n_glyphs` glyphs; returns the model and the bytes consumed.
pub fn charset_decode(b: &[u8], n_glyphs: usize) -> Result<(CharsetModel, usize), String> {
    let mut r = R::new(b);
    let s = || "short charset".to_string();
    let need = n_glyphs.checked_sub(1).ok_or("no glyphs")?;
    match r.u8().ok_or_else(s)? {
        0 => {
            let g = (0..need).map(|_| r.u16().ok_or_else(s)).collect::<Result<_, _>>()?;
            Ok((CharsetModel::F0(g), r.p))
        }
        1 => {
            let mut v = Vec::new();
            let mut c = 0;
            while c < need {
                let f = r.u16().ok_or_else(s)?;
                let n = r.u8().ok_or_else(s)?;
                c += n as usize + 1;
                v.push((f, n));
            }
            Ok((CharsetModel::F1(v), r.p))
        }
        2 => {
            let mut v = Vec::new();
            let mut c = 0;
            while c < need {
                let f = r.u16().ok_or_else(s)?;
                let n = r.u16().ok_or_else(s)?;
                c += n as usize + 1;
                v.push((f, n));
            }
            Ok((CharsetModel::F2(v), r.p))
        }
        f => Err(format!("charset format {}", f)),
    }
}

#[derive(Clone, Debug, PartialEq, Eq)]
pub enum EncodingModel {
    F0(Vec<u8>),
    F1(Vec<(u8, u8)>),
}

pub fn encoding_encode(m: &EncodingModel) -> Vec<u8> {
    let mut w = W::new();
    match m {
        EncodingModel::F0(c) => {
            w.u8(0).u8(c.len() as u8).bytes(c);
        }
        EncodingModel::F1(r) => {
            w.u8(1).u8(r.len() as u8);
            for (f, n) in r {
                w.u8(*f).u8(*n);
            }
        }
    }
    w.done()
}

pub fn encoding_decode(b: &[u8]) -> Result<(EncodingModel, usize), String> {
    let mut r = R::new(b);
    let s = || "short encoding".to_string();
    match r.u8().ok_or_else(s)? {
        0 => {
            let n = r.u8().ok_or_else(s)? as usize;
            Ok((EncodingModel::F0(r.take(n).ok_or_else(s)?.to_vec()), r.p))
        }
        1 => {
            let n = r.u8().ok_or_else(s)? as usize;
            let v = (0..n).map(|_| Some((r.u8()?, r.u8()?))).collect::<Option<Vec<_>>>().ok_or_else(s)?;
            Ok((EncodingModel::F1(v), r.p))
        }
        f => Err(format!("encoding format {}", f)),
    }
}

#[derive(Clone, Debug, PartialEq, Eq)]
pub enum FdSelectModel {
    F0(Vec<u8>),
    /// ranges (first glyph, fd) and sentinel
    F3(Vec<(u16, u8)>, u16),
}

pub fn fdselect_encode(m: &FdSelectModel) -> Vec<u8> {
    let mut w = W::new();
    match m {
        FdSelectModel::F0(v) => {
            w.u8(0).bytes(v);
        }
        FdSelectModel::F3(r, s) => {
            w.u8(3).u16(r.len() as u16);
            for (f, fd) in r {
                w.u16(*f).u8(*fd);
            }
            w.u16(*s);
        }
    }
    w.done()
}

pub fn fdselect_decode(b: &[u8], n_glyphs: usize) -> Result<(FdSelectModel, usize), String> {
    let mut r = R::new(b);
    let s = || "short FDSelect".to_string();
    match r.u8().ok_or_else(s)? {
        0 => Ok((FdSelectModel::F0(r.take(n_glyphs).ok_or_else(s)?.to_vec()), r.p)),
        3 => {
            let n = r.u16().ok_or_else(s)? as usize;
            let v = (0..n).map(|_| Some((r.u16()?, r.u8()?))).collect::<Option<Vec<_>>>().ok_or_else(s)?;
            let sent = r.u16().ok_or_else(s)?;
            Ok((FdSelectModel::F3(v, sent), r.p))
        }
        f => Err(format!("FDSelect format {}", f)),
    }
}

// ---------------------------------------------------------------------------------------------
// ItemVariationStore
// ---------------------------------------------------------------------------------------------

#[derive(Clone, Debug, PartialEq, Eq)]
pub struct IvdModel {
    pub item_count: u16,
    pub word_delta_count: u16,
    pub region_indexes: Vec<u16>,
    pub delta_sets: Vec<u8>,
}

impl IvdModel {
    pub fn row_len(&self) -> usize {
        let n = self.region_indexes.len() + (self.word_delta_count & 0x7FFF) as usize;
        if self.word_delta_count & 0x8000 != 0 {
            2 * n
        } else {
            n
        }
    }
}

#[derive(Clone, Debug, PartialEq, Eq)]
pub struct IvsModel {
    pub axis_count: u16,
    /// per region, per axis: start, peak, end (raw F2Dot14)
    pub regions: Vec<Vec<[i16; 3]>>,
    pub data: Vec<IvdModel>,
}

pub fn ivs_encode(m: &IvsModel) -> Vec<u8> {
    let mut w = W::new();
    let header = 8 + 4 * m.data.len();
    let rl_len = 4 + m.regions.len() * m.axis_count as usize * 6;
    w.u16(1).u32(header as u32).u16(m.data.len() as u16);
    let mut off = header + rl_len;
    for d in &m.data {
        w.u32(off as u32);
        off += 6 + 2 * d.region_indexes.len() + d.delta_sets.len();
    }
    w.u16(m.axis_count).u16(m.regions.len() as u16);
    for r in &m.regions {
        assert_eq!(r.len(), m.axis_count as usize);
        for a in r {
            w.i16(a[0]).i16(a[1]).i16(a[2]);
        }
    }
    for d in &m.data {
        w.u16(d.item_count).u16(d.word_delta_count).u16(d.region_indexes.len() as u16);
        for v in &d.region_indexes {
            w.u16(*v);
        }
        w.bytes(&d.delta_sets);
    }
    w.done()
}

/// Decode an ItemVariationStore whose offsets are relative to `b[0]`.
pub fn ivs_decode(b: &[u8]) -> Result<IvsModel, String> {
    let mut r = R::new(b);
    let s = || "short ItemVariationStore".to_string();
    let format = r.u16().ok_or_else(s)?;
    if format != 1 {
        return Err(format!("format {}", format));
    }
    let rl_off = r.u32().ok_or_else(s)? as usize;
    let n = r.u16().ok_or_else(s)? as usize;
    let offs: Vec<usize> = (0..n).map(|_| r.u32().map(|v| v as usize).ok_or_else(s)).collect::<Result<_, _>>()?;
    let mut q = R::at(b, rl_off);
    let axis_count = q.u16().ok_or_else(s)?;
    let rc = q.u16().ok_or_else(s)? as usize;
    let mut regions = Vec::with_capacity(rc);
    for _ in 0..rc {
        let mut reg = Vec::with_capacity(axis_count as usize);
        for _ in 0..axis_count {
            reg.push([q.i16().ok_or_else(s)?, q.i16().ok_or_else(s)?, q.i16().ok_or_else(s)?]);
        }
        regions.push(reg);
    }
    let mut data = Vec::with_capacity(n);
    for o in offs {
        let mut q = R::at(b, o);
        let item_count = q.u16().ok_or_else(s)?;
        let word_delta_count = q.u16().ok_or_else(s)?;
        let ric = q.u16().ok_or_else(s)? as usize;
        let region_indexes = (0..ric).map(|_| q.u16().ok_or_else(s)).collect::<Result<Vec<_>, _>>()?;
        let mut d = IvdModel { item_count, word_delta_count, region_indexes, delta_sets: vec![] };
        let len = d.row_len() * item_count as usize;
        d.delta_sets = q.take(len).ok_or_else(s)?.to_vec();
        data.push(d);
    }
    Ok(IvsModel { axis_count, regions, data })
}

// ---------------------------------------------------------------------------------------------
// Whole CFF / CFF2 tables: an abstract description ("digest") with an independent builder and parser.
// In a digest every operand that is an offset or a length of another structure is masked (Int(0)); the
// structures themselves are held by value.
// ---------------------------------------------------------------------------------------------

#[derive(Clone, Debug, PartialEq, Eq)]
pub struct PrivDigest {
    /// Subrs operand masked
    pub dict: DictModel,
    pub subrs: Option<Vec<Vec<u8>>>,
}

#[derive(Clone, Debug, PartialEq, Eq)]
pub enum CharsetD {
    /// 0 ISOAdobe, 1 Expert, 2 ExpertSubset
    Predefined(u8),
    Custom(CharsetModel),
}

#[derive(Clone, Debug, PartialEq, Eq)]
pub enum EncodingD {
    /// 0 Standard, 1 Expert
    Predefined(u8),
    Custom(EncodingModel),
}

#[derive(Clone, Debug, PartialEq, Eq)]
pub struct FontDigest {
    /// offsets/lengths masked: CharStrings, Private, FDArray, FDSelect always; Charset when > 2; Encoding when > 1
    pub top: DictModel,
    pub charstrings: Vec<Vec<u8>>,
    pub charset: CharsetD,
    /// None for CID-keyed fonts
    pub encoding: Option<EncodingD>,
    /// Type 1 fonts
    pub private: Option<PrivDigest>,
    /// CID-keyed fonts: font DICTs (Private operands masked) with their private data
    pub fdarray: Vec<(DictModel, PrivDigest)>,
    pub fdselect: Option<FdSelectModel>,
}

#[derive(Clone, Debug, PartialEq, Eq)]
pub struct CffDigest {
    pub minor: u8,
    pub off_size: u8,
    pub names: Vec<Vec<u8>>,
    pub strings: Vec<Vec<u8>>,
    pub gsubrs: Vec<Vec<u8>>,
    pub fonts: Vec<FontDigest>,
}

#[derive(Clone, Copy, Debug, PartialEq, Eq)]
pub struct BuildOpts {
    pub hdr_size: u8,
    pub form: IntForm,
    /// offSize used for every INDEX (0 = minimal)
    pub index_off_size: u8,
}

impl Default for BuildOpts {
    fn default() -> Self {
        BuildOpts { hdr_size: 4, form: IntForm::Shortest, index_off_size: 0 }
    }
}

fn is_offset_op(o: u16) -> bool {
    matches!(o, op::CHARSET | op::ENCODING | op::CHAR_STRINGS | op::PRIVATE | op::SUBRS | op::FD_ARRAY | op::FD_SELECT | op::VSTORE)
}

/// Encode a DICT; the operands of offset operators always use the 5-byte form so that sizes do not depend on
/// the offsets (except predefined charset / encoding ids, which are ordinary small integers).
pub fn dict_encode_off(d: &DictModel, form: IntForm) -> Vec<u8> {
    let mut w = W::new();
    for (o, operands) in d {
        for t in operands {
            let f = if is_offset_op(*o) { IntForm::Long } else { form };
            tok_encode(t, f, &mut w);
        }
        tok_encode(&Tok::Op(*o), form, &mut w);
    }
    w.done()
}

fn set_operands(d: &mut DictModel, o: u16, v: &[i32]) {
    for e in d.iter_mut() {
        if e.0 == o {
            e.1 = v.iter().map(|x| Tok::Int(*x)).collect();
        }
    }
}

fn priv_bytes(p: &PrivDigest, o: &BuildOpts) -> Vec<u8> {
    let mut d = p.dict.clone();
    let len = dict_encode_off(&d, o.form).len();
    set_operands(&mut d, op::SUBRS, &[len as i32]);
    let mut b = dict_encode_off(&d, o.form);
    if let Some(s) = &p.subrs {
        b.extend(index_encode(s, 2, o.index_off_size));
    }
    b
}

fn priv_dict_len(p: &PrivDigest, o: &BuildOpts) -> usize {
    dict_encode_off(&p.dict, o.form).len()
}

pub fn cff_build(d: &CffDigest, o: &BuildOpts) -> Vec<u8> {
    let mut w = W::new();
    w.u8(1).u8(d.minor).u8(o.hdr_size).u8(d.off_size);
    for _ in 4..o.hdr_size {
        w.u8(0xEE);
    }
    w.bytes(&index_encode(&d.names, 2, o.index_off_size));
    let top_objs: Vec<Vec<u8>> = d.fonts.iter().map(|f| dict_encode_off(&f.top, o.form)).collect();
    let top_index_len = index_encode(&top_objs, 2, o.index_off_size).len();
    let strings = index_encode(&d.strings, 2, o.index_off_size);
    let gsubrs = index_encode(&d.gsubrs, 2, o.index_off_size);
    let mut pos = w.len() + top_index_len + strings.len() + gsubrs.len();
    let mut body = W::new();
    let mut tops = Vec::new();
    for f in &d.fonts {
        let mut top = f.top.clone();
        let cs = index_encode(&f.charstrings, 2, o.index_off_size);
        set_operands(&mut top, op::CHAR_STRINGS, &[pos as i32]);
        body.bytes(&cs);
        pos += cs.len();
        match &f.charset {
            CharsetD::Predefined(_) => {}
            CharsetD::Custom(m) => {
                let b = charset_encode(m);
                set_operands(&mut top, op::CHARSET, &[pos as i32]);
                body.bytes(&b);
                pos += b.len();
            }
        }
        if let Some(p) = &f.private {
            let b = priv_bytes(p, o);
            set_operands(&mut top, op::PRIVATE, &[priv_dict_len(p, o) as i32, pos as i32]);
            body.bytes(&b);
            pos += b.len();
        }
        if let Some(EncodingD::Custom(m)) = &f.encoding {
            let b = encoding_encode(m);
            set_operands(&mut top, op::ENCODING, &[pos as i32]);
            body.bytes(&b);
            pos += b.len();
        }
        if !f.fdarray.is_empty() || f.fdselect.is_some() {
            let mut fds = Vec::new();
            for (fd, p) in &f.fdarray {
                let b = priv_bytes(p, o);
                let mut fd = fd.clone();
                set_operands(&mut fd, op::PRIVATE, &[priv_dict_len(p, o) as i32, pos as i32]);
                body.bytes(&b);
                pos += b.len();
                fds.push(dict_encode_off(&fd, o.form));
            }
            let b = index_encode(&fds, 2, o.index_off_size);
            set_operands(&mut top, op::FD_ARRAY, &[pos as i32]);
            body.bytes(&b);
            pos += b.len();
            if let Some(s) = &f.fdselect {
                let b = fdselect_encode(s);
                set_operands(&mut top, op::FD_SELECT, &[pos as i32]);
                body.bytes(&b);
                pos += b.len();
            }
        }
        tops.push(dict_encode_off(&top, o.form));
    }
    let top_index = index_encode(&tops, 2, o.index_off_size);
    assert_eq!(top_index.len(), top_index_len);
    w.bytes(&top_index).bytes(&strings).bytes(&gsubrs).bytes(&body.b);
    w.done()
}

fn one_int(d: &DictModel, o: u16) -> Option<i32> {
    d.iter().find(|e| e.0 == o).and_then(|e| match e.1.as_slice() {
        [Tok::Int(v)] => Some(*v),
        _ => None,
    })
}

fn mask(d: &mut DictModel, o: u16) {
    for e in d.iter_mut() {
        if e.0 == o {
            for t in e.1.iter_mut() {
                *t = Tok::Int(0);
            }
        }
    }
}

fn uz(v: i32) -> Result<usize, String> {
    usize::try_from(v).map_err(|_| format!("negative offset {}", v))
}

fn priv_parse(b: &[u8], fd: &DictModel, subr_count_width: usize, negative_subrs_ok: bool) -> Result<PrivDigest, String> {
    let e = fd.iter().find(|e| e.0 == op::PRIVATE).ok_or("no Private operator")?;
    let (len, off) = match e.1.as_slice() {
        [Tok::Int(l), Tok::Int(o)] if *l >= 0 && *o >= 0 => (*l as usize, *o as usize),
        _ => return Err("malformed Private operands".into()),
    };
    let pb = b.get(off..off.saturating_add(len)).ok_or("Private DICT outside the table")?;
    let mut dict = dict_decode(pb)?;
    let subrs = match one_int(&dict, op::SUBRS) {
        Some(so) => {
            let at = if negative_subrs_ok && so < 0 { off.checked_sub(so.unsigned_abs() as usize).ok_or("Subrs before the table")? } else { off.saturating_add(uz(so)?) };
            Some(index_decode(b.get(at..).ok_or("Subrs outside the table")?, subr_count_width)?.objects)
        }
        None => None,
    };
    mask(&mut dict, op::SUBRS);
    Ok(PrivDigest { dict, subrs })
}

pub fn cff_parse(b: &[u8]) -> Result<CffDigest, String> {
    if b.len() < 4 || b[0] != 1 {
        return Err("not a CFF 1 header".into());
    }
    let (minor, hdr, off_size) = (b[1], b[2] as usize, b[3]);
    let mut p = hdr;
    let next = |p: &mut usize| -> Result<Vec<Vec<u8>>, String> {
        let i = index_decode(b.get(*p..).ok_or("short CFF")?, 2)?;
        *p += i.len;
        Ok(i.objects)
    };
    let names = next(&mut p)?;
    let tops = next(&mut p)?;
    let strings = next(&mut p)?;
    let gsubrs = next(&mut p)?;
    if tops.len() != names.len() {
        return Err(format!("{} names but {} Top DICTs", names.len(), tops.len()));
    }
    let mut fonts = Vec::new();
    for t in &tops {
        let mut top = dict_decode(t)?;
        let cso = uz(one_int(&top, op::CHAR_STRINGS).ok_or("no CharStrings")?)?;
        let charstrings = index_decode(b.get(cso..).ok_or("CharStrings outside the table")?, 2)?.objects;
        let n = charstrings.len();
        let charset = match one_int(&top, op::CHARSET) {
            None => CharsetD::Predefined(0),
            Some(v @ 0..=2) => CharsetD::Predefined(v as u8),
            Some(v) => CharsetD::Custom(charset_decode(b.get(uz(v)?..).ok_or("charset outside the table")?, n)?.0),
        };
        let cid = top.first().map_or(false, |e| e.0 == op::ROS);
        let (encoding, private, fdarray, fdselect);
        if cid {
            encoding = None;
            private = None;
            let fo = uz(one_int(&top, op::FD_ARRAY).ok_or("no FDArray")?)?;
            let fds = index_decode(b.get(fo..).ok_or("FDArray outside the table")?, 2)?.objects;
            let mut v = Vec::new();
            for f in &fds {
                let mut fd = dict_decode(f)?;
                let pd = priv_parse(b, &fd, 2, false)?;
                mask(&mut fd, op::PRIVATE);
                v.push((fd, pd));
            }
            fdarray = v;
            let so = uz(one_int(&top, op::FD_SELECT).ok_or("no FDSelect")?)?;
            fdselect = Some(fdselect_decode(b.get(so..).ok_or("FDSelect outside the table")?, n)?.0);
        } else {
            encoding = Some(match one_int(&top, op::ENCODING) {
                None => EncodingD::Predefined(0),
                Some(v @ 0..=1) => EncodingD::Predefined(v as u8),
                Some(v) => EncodingD::Custom(encoding_decode(b.get(uz(v)?..).ok_or("encoding outside the table")?)?.0),
            });
            private = Some(priv_parse(b, &top, 2, false)?);
            fdarray = vec![];
            fdselect = None;
        }
        for o in [op::CHAR_STRINGS, op::PRIVATE, op::FD_ARRAY, op::FD_SELECT] {
            mask(&mut top, o);
        }
        if matches!(charset, CharsetD::Custom(_)) {
            mask(&mut top, op::CHARSET);
        }
        if matches!(encoding, Some(EncodingD::Custom(_))) {
            mask(&mut top, op::ENCODING);
        }
        fonts.push(FontDigest { top, charstrings, charset, encoding, private, fdarray, fdselect });
    }
    Ok(CffDigest { minor, off_size, names, strings, gsubrs, fonts })
}

fn priv_equiv(kind: DictKind, want: &PrivDigest, got: &PrivDigest) -> Result<(), String> {
    dict_equal_modulo_defaults(kind, &want.dict, &got.dict).map_err(|e| format!("Private DICT: {}", e))?;
    if want.subrs != got.subrs {
        return Err("local subrs differ".into());
    }
    Ok(())
}

/// `got` describes the same fonts as `want` (DICT entries that hold their default value may be missing).
pub fn cff_equiv(want: &CffDigest, got: &CffDigest) -> Result<(), String> {
    if (want.minor, want.off_size) != (got.minor, got.off_size) {
        return Err(format!("header minor/offSize {:?} expected {:?}", (got.minor, got.off_size), (want.minor, want.off_size)));
    }
    if want.names != got.names {
        return Err("Name INDEX differs".into());
    }
    if want.strings != got.strings {
        return Err("String INDEX differs".into());
    }
    if want.gsubrs != got.gsubrs {
        return Err(format!("Global Subr INDEX differs ({} objects of sizes {:?})", got.gsubrs.len(), got.gsubrs.iter().take(4).map(|o| o.len()).collect::<Vec<_>>()));
    }
    if want.fonts.len() != got.fonts.len() {
        return Err("font count differs".into());
    }
    for (w, g) in want.fonts.iter().zip(&got.fonts) {
        dict_equal_modulo_defaults(DictKind::Top, &w.top, &g.top).map_err(|e| format!("Top DICT: {}", e))?;
        if w.charstrings != g.charstrings {
            return Err("CharStrings INDEX differs".into());
        }
        if w.charset != g.charset {
            return Err(format!("charset {:?} expected {:?}", g.charset, w.charset));
        }
        if w.encoding != g.encoding {
            return Err(format!("encoding {:?} expected {:?}", g.encoding, w.encoding));
        }
        match (&w.private, &g.private) {
            (Some(a), Some(b)) => priv_equiv(DictKind::Private, a, b)?,
            (None, None) => {}
            _ => return Err("Private DICT presence differs".into()),
        }
        if w.fdarray.len() != g.fdarray.len() {
            return Err("FDArray count differs".into());
        }
        for ((wd, wp), (gd, gp)) in w.fdarray.iter().zip(&g.fdarray) {
            dict_equal_modulo_defaults(DictKind::Font, wd, gd).map_err(|e| format!("Font DICT: {}", e))?;
            priv_equiv(DictKind::Private, wp, gp)?;
        }
        if w.fdselect != g.fdselect {
            return Err(format!("FDSelect {:?} expected {:?}", g.fdselect, w.fdselect));
        }
    }
    Ok(())
}

// CFF2 ---------------------------------------------------------------------------------------

#[derive(Clone, Debug, PartialEq, Eq)]
pub struct Cff2Digest {
    pub minor: u8,
    /// CharStrings, FDArray, FDSelect, VStore operands masked
    pub top: DictModel,
    pub gsubrs: Vec<Vec<u8>>,
    pub charstrings: Vec<Vec<u8>>,
    pub vstore: Option<IvsModel>,
    pub fdselect: Option<FdSelectModel>,
    pub fonts: Vec<(DictModel, PrivDigest)>,
}

fn priv_bytes2(p: &PrivDigest, o: &BuildOpts) -> Vec<u8> {
    let mut d = p.dict.clone();
    let len = dict_encode_off(&d, o.form).len();
    set_operands(&mut d, op::SUBRS, &[len as i32]);
    let mut b = dict_encode_off(&d, o.form);
    if let Some(s) = &p.subrs {
        b.extend(index_encode(s, 4, o.index_off_size));
    }
    b
}

pub fn cff2_build(d: &Cff2Digest, o: &BuildOpts) -> Vec<u8> {
    let top_len = dict_encode_off(&d.top, o.form).len();
    let hdr = o.hdr_size.max(5) as usize;
    let gsubrs = index_encode(&d.gsubrs, 4, o.index_off_size);
    let mut pos = hdr + top_len + gsubrs.len();
    let mut body = W::new();
    let mut top = d.top.clone();
    let cs = index_encode(&d.charstrings, 4, o.index_off_size);
    set_operands(&mut top, op::CHAR_STRINGS, &[pos as i32]);
    body.bytes(&cs);
    pos += cs.len();
    if let Some(s) = &d.fdselect {
        let b = fdselect_encode(s);
        set_operands(&mut top, op::FD_SELECT, &[pos as i32]);
        body.bytes(&b);
        pos += b.len();
    }
    let mut fds = Vec::new();
    for (fd, p) in &d.fonts {
        let b = priv_bytes2(p, o);
        let mut fd = fd.clone();
        set_operands(&mut fd, op::PRIVATE, &[priv_dict_len(p, o) as i32, pos as i32]);
        body.bytes(&b);
        pos += b.len();
        fds.push(dict_encode_off(&fd, o.form));
    }
    let b = index_encode(&fds, 4, o.index_off_size);
    set_operands(&mut top, op::FD_ARRAY, &[pos as i32]);
    body.bytes(&b);
    pos += b.len();
    if let Some(v) = &d.vstore {
        let b = ivs_encode(v);
        set_operands(&mut top, op::VSTORE, &[pos as i32]);
        body.u16(b.len() as u16).bytes(&b);
    }
    let mut w = W::new();
    w.u8(2).u8(d.minor).u8(hdr as u8).u16(top_len as u16);
    for _ in 5..hdr {
        w.u8(0xEE);
    }
    let tb = dict_encode_off(&top, o.form);
    assert_eq!(tb.len(), top_len);
    w.bytes(&tb).bytes(&gsubrs).bytes(&body.b);
    w.done()
}

pub fn cff2_parse(b: &[u8]) -> Result<Cff2Digest, String> {
    cff2_parse_opt(b, true, false)
}

/// Like `cff2_parse` with two switches that describe known departures of a writer: `follow_vstore = false` does
/// not follow the VariationStore offset (its operand is still masked); `negative_subrs_ok` accepts a local Subrs
/// INDEX that lies *before* its Private DICT (negative relative offset).
pub fn cff2_parse_opt(b: &[u8], follow_vstore: bool, negative_subrs_ok: bool) -> Result<Cff2Digest, String> {
    if b.len() < 5 || b[0] != 2 {
        return Err("not a CFF2 header".into());
    }
    let (minor, hdr) = (b[1], b[2] as usize);
    let tl = u16::from_be_bytes([b[3], b[4]]) as usize;
    let mut top = dict_decode(b.get(hdr..hdr + tl).ok_or("Top DICT outside the table")?)?;
    let gsubrs = index_decode(b.get(hdr + tl..).ok_or("short CFF2")?, 4)?.objects;
    let cso = uz(one_int(&top, op::CHAR_STRINGS).ok_or("no CharStrings")?)?;
    let charstrings = index_decode(b.get(cso..).ok_or("CharStrings outside the table")?, 4)?.objects;
    let fo = uz(one_int(&top, op::FD_ARRAY).ok_or("no FDArray")?)?;
    let fds = index_decode(b.get(fo..).ok_or("FDArray outside the table")?, 4)?.objects;
    let mut fonts = Vec::new();
    for f in &fds {
        let mut fd = dict_decode(f)?;
        let pd = priv_parse(b, &fd, 4, negative_subrs_ok)?;
        mask(&mut fd, op::PRIVATE);
        fonts.push((fd, pd));
    }
    let fdselect = match one_int(&top, op::FD_SELECT) {
        Some(o) => Some(fdselect_decode(b.get(uz(o)?..).ok_or("FDSelect outside the table")?, charstrings.len())?.0),
        None => None,
    };
    let vstore = match one_int(&top, op::VSTORE).filter(|_| follow_vstore) {
        Some(o) => {
            let s = b.get(uz(o)?..).ok_or("VStore outside the table")?;
            if s.len() < 2 {
                return Err("short VStore".into());
            }
            let len = u16::from_be_bytes([s[0], s[1]]) as usize;
            let body = s.get(2..2 + len).ok_or_else(|| format!("VariationStore length {} runs past the table", len))?;
            Some(ivs_decode(body)?)
        }
        None => None,
    };
    for o in [op::CHAR_STRINGS, op::FD_ARRAY, op::FD_SELECT, op::VSTORE] {
        mask(&mut top, o);
    }
    Ok(Cff2Digest { minor, top, gsubrs, charstrings, vstore, fdselect, fonts })
}

pub fn cff2_equiv(want: &Cff2Digest, got: &Cff2Digest) -> Result<(), String> {
    if want.minor != got.minor {
        return Err("minor version differs".into());
    }
    // the CFF2 writer rebuilds the Top DICT: operator order is not significant
    let sorted = |d: &DictModel| {
        let mut d = d.clone();
        d.sort_by_key(|e| e.0);
        d
    };
    dict_equal_modulo_defaults(DictKind::Top2, &sorted(&want.top), &sorted(&got.top)).map_err(|e| format!("Top DICT: {}", e))?;
    if want.gsubrs != got.gsubrs {
        return Err("Global Subr INDEX differs".into());
    }
    if want.charstrings != got.charstrings {
        return Err("CharStrings INDEX differs".into());
    }
    if want.vstore != got.vstore {
        return Err(format!("VariationStore {:?} expected {:?}", got.vstore, want.vstore));
    }
    if want.fdselect != got.fdselect {
        return Err(format!("FDSelect {:?} expected {:?}", got.fdselect, want.fdselect));
    }
    if want.fonts.len() != got.fonts.len() {
        return Err("FDArray count differs".into());
    }
    for ((wd, wp), (gd, gp)) in want.fonts.iter().zip(&got.fonts) {
        dict_equal_modulo_defaults(DictKind::Font, wd, gd).map_err(|e| format!("Font DICT: {}", e))?;
        priv_equiv(DictKind::Private2, wp, gp)?;
    }
    Ok(())
}

#[cfg(test)]
mod tests {
    use super::*;

    #[test]
    fn cff_build_parse() {
        let p = PrivDigest { dict: vec![(op::BLUE_VALUES, vec![Tok::Int(-15), Tok::Int(0)]), (op::SUBRS, vec![Tok::Int(0)])], subrs: Some(vec![vec![11]]) };
        let d = CffDigest {
            minor: 0,
            off_size: 2,
            names: vec![b"F".to_vec()],
            strings: vec![b"hello".to_vec()],
            gsubrs: vec![vec![11], vec![]],
            fonts: vec![FontDigest {
                top: vec![(op::FONT_BBOX, vec![Tok::Int(0), Tok::Int(-200), Tok::Int(1000), Tok::Int(800)]), (op::CHARSET, vec![Tok::Int(0)]), (op::ENCODING, vec![Tok::Int(0)]), (op::CHAR_STRINGS, vec![Tok::Int(0)]), (op::PRIVATE, vec![Tok::Int(0), Tok::Int(0)])],
                charstrings: vec![vec![14], vec![14], vec![14]],
                charset: CharsetD::Custom(CharsetModel::F1(vec![(1, 1)])),
                encoding: Some(EncodingD::Custom(EncodingModel::F0(vec![65, 66]))),
                private: Some(p),
                fdarray: vec![],
                fdselect: None,
            }],
        };
        for o in [BuildOpts::default(), BuildOpts { hdr_size: 6, form: IntForm::Long, index_off_size: 3 }] {
            let b = cff_build(&d, &o);
            assert_eq!(cff_parse(&b).unwrap(), d);
        }
    }

    #[test]
    fn ivs_roundtrip() {
        let m = IvsModel { axis_count: 2, regions: vec![vec![[0, 1, 2], [3, 4, 5]]], data: vec![IvdModel { item_count: 2, word_delta_count: 1, region_indexes: vec![0, 0], delta_sets: vec![1, 2, 3, 4, 5, 6] }] };
        assert_eq!(ivs_decode(&ivs_encode(&m)).unwrap(), m);
    }
}
