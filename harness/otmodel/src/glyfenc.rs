//! glyfenc — abstract TrueType glyph model, an independent `glyf`/`loca` encoder with selectable
//! flag / coordinate encodings, an independent simple-glyph decoder (used as a self check of the encoder),
//! the reference flattening of composite glyphs and the reference path builder, all written from the
//! OpenType `glyf` chapter (and Apple's TrueType reference manual / FreeType / fontTools where the
//! OpenType text leaves a choice). Nothing here depends on allsorts.
//!
//! Specification summary used below
//! * simple glyph: int16 numberOfContours, bbox, uint16 endPtsOfContours[n], uint16 instructionLength,
//!   instructions, flags[], xCoordinates[], yCoordinates[]. Flag bits: 0x01 ON_CURVE_POINT, 0x02 X_SHORT_VECTOR,
//!   0x04 Y_SHORT_VECTOR, 0x08 REPEAT_FLAG (next byte = number of *additional* times the flag is repeated),
//!   0x10 X_IS_SAME_OR_POSITIVE_X_SHORT_VECTOR, 0x20 Y_IS_SAME_OR_POSITIVE_Y_SHORT_VECTOR, 0x40 OVERLAP_SIMPLE.
//!   Coordinates are deltas to the previous point (first point: to (0,0)); deltas run on across contours.
//! * contour semantics: points in order, closed; two consecutive off-curve points imply an on-curve point at
//!   their midpoint (also across the closing edge); a contour starts on the curve.
//! * composite glyph: numberOfContours < 0, bbox, then records {uint16 flags, uint16 glyphIndex, arg1, arg2,
//!   [transform]} while MORE_COMPONENTS; ARG_1_AND_2_ARE_WORDS 0x0001, ARGS_ARE_XY_VALUES 0x0002,
//!   ROUND_XY_TO_GRID 0x0004, WE_HAVE_A_SCALE 0x0008, MORE_COMPONENTS 0x0020, WE_HAVE_AN_X_AND_Y_SCALE 0x0040,
//!   WE_HAVE_A_TWO_BY_TWO 0x0080, WE_HAVE_INSTRUCTIONS 0x0100, USE_MY_METRICS 0x0200, OVERLAP_COMPOUND 0x0400,
//!   SCALED_COMPONENT_OFFSET 0x0800, UNSCALED_COMPONENT_OFFSET 0x1000.
//!   The 2x2 form stores F2DOT14 xscale, scale01, scale10, yscale and means
//!       x' = xscale*x + scale10*y + dx,   y' = scale01*x + yscale*y + dy.
//!   With ARGS_ARE_XY_VALUES clear, arg1 is a point number of the composite built so far and arg2 a point
//!   number of the (already transformed) component; the component is moved so that the two points coincide.

use crate::be::{R, W};

// ------------------------------------------------------------------------------------------------ model

#[derive(Clone, Copy, Debug, PartialEq, Eq, Hash)]
pub struct Pt {
    pub x: i16,
    pub y: i16,
    pub on: bool,
}

pub type Contour = Vec<Pt>;

/// How one coordinate delta is written.
#[derive(Clone, Copy, Debug, PartialEq, Eq, Hash)]
pub enum CoordEnc {
    /// shortest form: delta 0 -> "same" bit, |delta| <= 255 -> short vector, otherwise int16
    Min,
    /// int16 even if a shorter form exists
    Long,
    /// delta 0 written as a short vector of magnitude 0 with the positive sign bit (only for delta 0)
    ShortPosZero,
    /// delta 0 written as a short vector of magnitude 0 with the negative sign (only for delta 0)
    ShortNegZero,
}

#[derive(Clone, Copy, Debug, PartialEq, Eq, Hash)]
pub enum RepeatMode {
    /// one flag byte per point
    None,
    /// every run of >= 2 identical flag bytes becomes flag|REPEAT, count (runs split at 256)
    Greedy,
    /// runs are cut into pieces of at most 2 (flag|REPEAT, 1)
    Pairs,
    /// every flag is written as flag|REPEAT followed by a count of 0
    ZeroCountAll,
    /// runs are cut into pieces of at most this many points (so the largest count byte written is cap - 1);
    /// Capped(256) = Greedy, Capped(2) = Pairs, Capped(1) = None
    Capped(u16),
}

#[derive(Clone, Debug, PartialEq, Eq, Hash)]
pub struct SimpleEnc {
    /// per point (all contours concatenated); missing entries mean `Min`
    pub x: Vec<CoordEnc>,
    pub y: Vec<CoordEnc>,
    pub repeat: RepeatMode,
    /// number of instruction bytes to insert
    pub instructions: usize,
    /// set OVERLAP_SIMPLE (0x40) on the first flag
    pub overlap_simple: bool,
}

impl Default for SimpleEnc {
    fn default() -> Self {
        SimpleEnc { x: Vec::new(), y: Vec::new(), repeat: RepeatMode::None, instructions: 0, overlap_simple: false }
    }
}

/// Component transform, F2DOT14 raw values in file order.
#[derive(Clone, Copy, Debug, PartialEq, Eq, Hash)]
pub enum Xform {
    None,
    Scale(i16),
    XY(i16, i16),
    /// xscale, scale01, scale10, yscale
    M2x2(i16, i16, i16, i16),
}

#[derive(Clone, Copy, Debug, PartialEq, Eq, Hash)]
pub enum Args {
    Xy(i16, i16),
    /// (point of the composite so far, point of the component)
    Points(u16, u16),
}

#[derive(Clone, Copy, Debug, PartialEq, Eq, Hash)]
pub struct Component {
    pub glyph: u16,
    pub args: Args,
    /// write 16-bit arguments even if they fit in bytes
    pub force_words: bool,
    pub xform: Xform,
    pub scaled_offset: bool,
    pub unscaled_offset: bool,
    pub round_xy: bool,
    pub use_my_metrics: bool,
}

impl Component {
    pub fn new(glyph: u16, args: Args, xform: Xform) -> Component {
        Component { glyph, args, force_words: false, xform, scaled_offset: false, unscaled_offset: false, round_xy: false, use_my_metrics: false }
    }
}

#[derive(Clone, Debug, PartialEq, Eq, Hash)]
pub enum Glyph {
    /// zero-length entry in loca
    Empty,
    Simple(Vec<Contour>),
    Composite { components: Vec<Component>, instructions: usize, overlap_compound: bool },
}

pub fn f2dot14(raw: i16) -> f64 {
    raw as f64 / 16384.0
}

// ------------------------------------------------------------------------------------------------ encoder

const ON_CURVE: u8 = 0x01;
const X_SHORT: u8 = 0x02;
const Y_SHORT: u8 = 0x04;
const REPEAT: u8 = 0x08;
const X_SAME_OR_POS: u8 = 0x10;
const Y_SAME_OR_POS: u8 = 0x20;
const OVERLAP_SIMPLE: u8 = 0x40;

/// which alternatives exist for a delta (index 0 is always `Min`)
pub fn coord_alternatives(delta: i16) -> &'static [CoordEnc] {
    if delta == 0 {
        &[CoordEnc::Min, CoordEnc::Long, CoordEnc::ShortPosZero, CoordEnc::ShortNegZero]
    } else if (-255..=255).contains(&delta) {
        &[CoordEnc::Min, CoordEnc::Long]
    } else {
        &[CoordEnc::Min]
    }
}

/// deltas (x, y) of all points, contours concatenated, first relative to (0,0); 16-bit wrapping
pub fn deltas(contours: &[Contour]) -> Vec<(i16, i16)> {
    let mut out = Vec::new();
    deltas_into(&mut out, contours);
    out
}

/// as `deltas`, into a reusable buffer (cleared first)
pub fn deltas_into(out: &mut Vec<(i16, i16)>, contours: &[Contour]) {
    out.clear();
    let (mut px, mut py) = (0i16, 0i16);
    for c in contours {
        for p in c {
            out.push((p.x.wrapping_sub(px), p.y.wrapping_sub(py)));
            px = p.x;
            py = p.y;
        }
    }
}

/// returns (flag bits, number of bytes, bytes) for one coordinate
fn enc_coord(delta: i16, enc: CoordEnc, short_bit: u8, same_pos_bit: u8) -> (u8, usize, [u8; 2]) {
    let short_ok = (-255..=255).contains(&delta);
    let long = (0, 2, delta.to_be_bytes());
    match enc {
        CoordEnc::Long => long,
        CoordEnc::ShortPosZero if delta == 0 => (short_bit | same_pos_bit, 1, [0, 0]),
        CoordEnc::ShortNegZero if delta == 0 => (short_bit, 1, [0, 0]),
        _ => {
            if delta == 0 {
                (same_pos_bit, 0, [0, 0])
            } else if short_ok {
                if delta > 0 {
                    (short_bit | same_pos_bit, 1, [delta as u8, 0])
                } else {
                    (short_bit, 1, [(-(delta as i32)) as u8, 0])
                }
            } else {
                long
            }
        }
    }
}

fn bbox_of(contours: &[Contour]) -> (i16, i16, i16, i16) {
    let mut it = contours.iter().flatten();
    match it.next() {
        None => (0, 0, 0, 0),
        Some(p) => {
            let mut b = (p.x, p.y, p.x, p.y);
            for p in it {
                b = (b.0.min(p.x), b.1.min(p.y), b.2.max(p.x), b.3.max(p.y));
            }
            b
        }
    }
}

/// harmless looking TrueType instructions (never executed by anything here): SVTCA[0], SVTCA[1], ...
fn push_instructions(out: &mut Vec<u8>, n: usize) {
    for i in 0..n {
        out.push((i % 2) as u8);
    }
}

fn put_u16(out: &mut Vec<u8>, v: u16) {
    out.extend_from_slice(&v.to_be_bytes());
}

fn put_i16(out: &mut Vec<u8>, v: i16) {
    out.extend_from_slice(&v.to_be_bytes());
}

/// reusable buffers for the encoder / verifier (callers on a hot path keep one per thread)
#[derive(Default, Debug)]
pub struct EncScratch {
    flags: Vec<u8>,
    xs: Vec<u8>,
    ys: Vec<u8>,
}

/// Encode a simple glyph into `out` (cleared first). Contours must be non-empty (a contour of zero points
/// cannot be expressed).
pub fn encode_simple_into(out: &mut Vec<u8>, contours: &[Contour], enc: &SimpleEnc, s: &mut EncScratch) {
    assert!(contours.iter().all(|c| !c.is_empty()), "glyfenc: empty contour");
    out.clear();
    put_i16(out, contours.len() as i16);
    let bb = bbox_of(contours);
    put_i16(out, bb.0);
    put_i16(out, bb.1);
    put_i16(out, bb.2);
    put_i16(out, bb.3);
    let mut end = 0usize;
    for c in contours {
        end += c.len();
        put_u16(out, (end - 1) as u16);
    }
    put_u16(out, enc.instructions as u16);
    push_instructions(out, enc.instructions);
    s.flags.clear();
    s.xs.clear();
    s.ys.clear();
    let (mut px, mut py) = (0i16, 0i16);
    for (i, p) in contours.iter().flatten().enumerate() {
        let (dx, dy) = (p.x.wrapping_sub(px), p.y.wrapping_sub(py));
        px = p.x;
        py = p.y;
        let ex = enc.x.get(i).copied().unwrap_or(CoordEnc::Min);
        let ey = enc.y.get(i).copied().unwrap_or(CoordEnc::Min);
        let (fx, nx, bx) = enc_coord(dx, ex, X_SHORT, X_SAME_OR_POS);
        let (fy, ny, by) = enc_coord(dy, ey, Y_SHORT, Y_SAME_OR_POS);
        let mut f = fx | fy | if p.on { ON_CURVE } else { 0 };
        if i == 0 && enc.overlap_simple {
            f |= OVERLAP_SIMPLE;
        }
        s.flags.push(f);
        s.xs.extend_from_slice(&bx[..nx]);
        s.ys.extend_from_slice(&by[..ny]);
    }
    // run-length compression of the flag array
    let max_run = match enc.repeat {
        RepeatMode::None => 1,
        RepeatMode::Greedy => 256,
        RepeatMode::Pairs => 2,
        RepeatMode::ZeroCountAll => 1,
        RepeatMode::Capped(n) => (n as usize).clamp(1, 256),
    };
    let flags = &s.flags;
    let mut i = 0;
    while i < flags.len() {
        let mut run = 1;
        while i + run < flags.len() && flags[i + run] == flags[i] && run < max_run {
            run += 1;
        }
        if run > 1 {
            out.push(flags[i] | REPEAT);
            out.push((run - 1) as u8);
        } else if enc.repeat == RepeatMode::ZeroCountAll {
            out.push(flags[i] | REPEAT);
            out.push(0);
        } else {
            out.push(flags[i]);
        }
        i += run;
    }
    out.extend_from_slice(&s.xs);
    out.extend_from_slice(&s.ys);
}

pub fn encode_simple(contours: &[Contour], enc: &SimpleEnc) -> Vec<u8> {
    let mut out = Vec::new();
    encode_simple_into(&mut out, contours, enc, &mut EncScratch::default());
    out
}

/// true if the encoded simple glyph `bytes` (as produced by `encode_simple*` for `contours`) contains a repeat
/// run that covers the last point of one contour and the first point of the next (coverage bookkeeping only)
pub fn repeat_run_spans_contours(contours: &[Contour], bytes: &[u8]) -> bool {
    if contours.len() < 2 {
        return false;
    }
    let n: usize = contours.iter().map(|c| c.len()).sum();
    let mut r = R::at(bytes, 10 + 2 * contours.len());
    let il = r.u16().unwrap() as usize;
    r.take(il);
    let mut i = 0usize;
    while i < n {
        let f = r.u8().unwrap();
        let cnt = if f & REPEAT != 0 { r.u8().unwrap() as usize + 1 } else { 1 };
        if cnt > 1 {
            let mut b = 0usize; // index of the first point of the next contour
            for c in &contours[..contours.len() - 1] {
                b += c.len();
                if i < b && b < i + cnt {
                    return true;
                }
            }
        }
        i += cnt;
    }
    false
}

/// the repeat runs of an encoded simple glyph (as produced by `encode_simple*` for `contours`):
/// (index of the first point, number of points covered, count byte) for every flag written with REPEAT_FLAG
pub fn repeat_runs(contours: &[Contour], bytes: &[u8]) -> Vec<(usize, usize, u8)> {
    let n: usize = contours.iter().map(|c| c.len()).sum();
    let mut r = R::at(bytes, 10 + 2 * contours.len());
    let il = r.u16().unwrap() as usize;
    r.take(il);
    let mut out = Vec::new();
    let mut i = 0usize;
    while i < n {
        let f = r.u8().unwrap();
        if f & REPEAT != 0 {
            let b = r.u8().unwrap();
            out.push((i, b as usize + 1, b));
            i += b as usize + 1;
        } else {
            i += 1;
        }
    }
    out
}

const ARG_WORDS: u16 = 0x0001;
const ARGS_XY: u16 = 0x0002;
const ROUND_XY: u16 = 0x0004;
const HAVE_SCALE: u16 = 0x0008;
const MORE: u16 = 0x0020;
const HAVE_XY_SCALE: u16 = 0x0040;
const HAVE_2X2: u16 = 0x0080;
const HAVE_INSTR: u16 = 0x0100;
const USE_MY_METRICS: u16 = 0x0200;
const OVERLAP_COMPOUND: u16 = 0x0400;
const SCALED_OFFSET: u16 = 0x0800;
const UNSCALED_OFFSET: u16 = 0x1000;

pub fn encode_composite(components: &[Component], instructions: usize, overlap_compound: bool) -> Vec<u8> {
    assert!(!components.is_empty());
    let mut w = W::new();
    w.i16(-1);
    w.i16(0).i16(0).i16(0).i16(0); // bbox: irrelevant to the outline semantics under test
    for (i, c) in components.iter().enumerate() {
        let last = i + 1 == components.len();
        let mut f: u16 = 0;
        let words = c.force_words
            || match c.args {
                Args::Xy(a, b) => !(-128..=127).contains(&a) || !(-128..=127).contains(&b),
                Args::Points(a, b) => a > 255 || b > 255,
            };
        if words {
            f |= ARG_WORDS;
        }
        if matches!(c.args, Args::Xy(..)) {
            f |= ARGS_XY;
        }
        if c.round_xy {
            f |= ROUND_XY;
        }
        f |= match c.xform {
            Xform::None => 0,
            Xform::Scale(_) => HAVE_SCALE,
            Xform::XY(..) => HAVE_XY_SCALE,
            Xform::M2x2(..) => HAVE_2X2,
        };
        if !last {
            f |= MORE;
        }
        if last && instructions > 0 {
            f |= HAVE_INSTR;
        }
        if c.use_my_metrics {
            f |= USE_MY_METRICS;
        }
        if i == 0 && overlap_compound {
            f |= OVERLAP_COMPOUND;
        }
        if c.scaled_offset {
            f |= SCALED_OFFSET;
        }
        if c.unscaled_offset {
            f |= UNSCALED_OFFSET;
        }
        w.u16(f).u16(c.glyph);
        match (c.args, words) {
            (Args::Xy(a, b), true) => {
                w.i16(a).i16(b);
            }
            (Args::Xy(a, b), false) => {
                w.i8(a as i8).i8(b as i8);
            }
            (Args::Points(a, b), true) => {
                w.u16(a).u16(b);
            }
            (Args::Points(a, b), false) => {
                w.u8(a as u8).u8(b as u8);
            }
        }
        match c.xform {
            Xform::None => {}
            Xform::Scale(s) => {
                w.i16(s);
            }
            Xform::XY(x, y) => {
                w.i16(x).i16(y);
            }
            Xform::M2x2(a, b, c2, d) => {
                w.i16(a).i16(b).i16(c2).i16(d);
            }
        }
    }
    if instructions > 0 {
        w.u16(instructions as u16);
        push_instructions(&mut w.b, instructions);
    }
    w.done()
}

pub fn encode_glyph(g: &Glyph, enc: &SimpleEnc) -> Vec<u8> {
    match g {
        Glyph::Empty => Vec::new(),
        Glyph::Simple(cs) => encode_simple(cs, enc),
        Glyph::Composite { components, instructions, overlap_compound } => encode_composite(components, *instructions, *overlap_compound),
    }
}

/// glyf + loca from per-glyph byte strings, written into `glyf` / `loca` (cleared first). Short loca needs even
/// offsets (glyphs are padded to `align`, which is raised to 2 for the short format).
pub fn build_glyf_loca_into(glyf: &mut Vec<u8>, loca: &mut Vec<u8>, glyphs: &[&[u8]], long: bool, align: usize) {
    let align = if long { align.max(1) } else { align.max(2) };
    glyf.clear();
    loca.clear();
    let mark = |glyf: &Vec<u8>, loca: &mut Vec<u8>| {
        if long {
            loca.extend_from_slice(&(glyf.len() as u32).to_be_bytes());
        } else {
            loca.extend_from_slice(&((glyf.len() / 2) as u16).to_be_bytes());
        }
    };
    for g in glyphs {
        mark(glyf, loca);
        glyf.extend_from_slice(g);
        while glyf.len() % align != 0 {
            glyf.push(0);
        }
    }
    mark(glyf, loca);
}

/// Returns (glyf, loca).
pub fn build_glyf_loca(glyphs: &[Vec<u8>], long: bool, align: usize) -> (Vec<u8>, Vec<u8>) {
    let refs: Vec<&[u8]> = glyphs.iter().map(|g| g.as_slice()).collect();
    let (mut glyf, mut loca) = (Vec::new(), Vec::new());
    build_glyf_loca_into(&mut glyf, &mut loca, &refs, long, align);
    (glyf, loca)
}

// ------------------------------------------------------------------------------------------------ decoder (self check)

fn read_delta(r: &mut R<'_>, f: u8, short_bit: u8, same_pos_bit: u8) -> Option<i16> {
    if f & short_bit != 0 {
        let v = r.u8()? as i16;
        Some(if f & same_pos_bit != 0 { v } else { -v })
    } else if f & same_pos_bit != 0 {
        Some(0)
    } else {
        r.i16()
    }
}

/// Independent decoder of a simple glyph (tolerates trailing padding). None if malformed.
pub fn decode_simple(bytes: &[u8]) -> Option<Vec<Contour>> {
    let mut r = R::new(bytes);
    let nc = r.i16()?;
    if nc < 0 {
        return None;
    }
    r.take(8)?;
    let mut ends = Vec::new();
    for _ in 0..nc {
        ends.push(r.u16()? as usize);
    }
    let il = r.u16()? as usize;
    r.take(il)?;
    let n = ends.last().map_or(0, |e| e + 1);
    let mut flags = Vec::with_capacity(n);
    while flags.len() < n {
        let f = r.u8()?;
        let cnt = if f & REPEAT != 0 { r.u8()? as usize + 1 } else { 1 };
        for _ in 0..cnt {
            flags.push(f);
        }
    }
    if flags.len() != n {
        return None; // a repeat run past the last point
    }
    let mut xs = Vec::with_capacity(n);
    let mut x = 0i16;
    for f in &flags {
        x = x.wrapping_add(read_delta(&mut r, *f, X_SHORT, X_SAME_OR_POS)?);
        xs.push(x);
    }
    let mut ys = Vec::with_capacity(n);
    let mut y = 0i16;
    for f in &flags {
        y = y.wrapping_add(read_delta(&mut r, *f, Y_SHORT, Y_SAME_OR_POS)?);
        ys.push(y);
    }
    let mut out = Vec::new();
    let mut start = 0usize;
    for e in ends {
        if e < start || e >= n {
            return None; // end points must increase
        }
        out.push((start..=e).map(|i| Pt { x: xs[i], y: ys[i], on: flags[i] & ON_CURVE != 0 }).collect());
        start = e + 1;
    }
    Some(out)
}

/// Streaming form of `decode_simple(bytes) == Some(contours)` without allocation (uses the scratch flag buffer).
pub fn simple_decodes_to(bytes: &[u8], contours: &[Contour], s: &mut EncScratch) -> bool {
    fn go(bytes: &[u8], contours: &[Contour], s: &mut EncScratch) -> Option<bool> {
        let mut r = R::new(bytes);
        if r.i16()? != contours.len() as i16 {
            return Some(false);
        }
        r.take(8)?;
        let mut end = 0usize;
        for c in contours {
            end += c.len();
            if c.is_empty() || r.u16()? as usize != end - 1 {
                return Some(false);
            }
        }
        let n = end;
        let il = r.u16()? as usize;
        r.take(il)?;
        s.flags.clear();
        while s.flags.len() < n {
            let f = r.u8()?;
            let cnt = if f & REPEAT != 0 { r.u8()? as usize + 1 } else { 1 };
            for _ in 0..cnt {
                s.flags.push(f);
            }
        }
        if s.flags.len() != n {
            return Some(false);
        }
        let mut x = 0i16;
        for (f, p) in s.flags.iter().zip(contours.iter().flatten()) {
            x = x.wrapping_add(read_delta(&mut r, *f, X_SHORT, X_SAME_OR_POS)?);
            if x != p.x || (f & ON_CURVE != 0) != p.on {
                return Some(false);
            }
        }
        let mut y = 0i16;
        for (f, p) in s.flags.iter().zip(contours.iter().flatten()) {
            y = y.wrapping_add(read_delta(&mut r, *f, Y_SHORT, Y_SAME_OR_POS)?);
            if y != p.y {
                return Some(false);
            }
        }
        Some(true)
    }
    go(bytes, contours, s) == Some(true)
}

// ------------------------------------------------------------------------------------------------ reference: flattening

#[derive(Clone, Copy, Debug, PartialEq)]
pub struct FPt {
    pub x: f64,
    pub y: f64,
    pub on: bool,
}

/// A glyph resolved to contours of points: `pts` holds all points in glyph point-number order, `ends[k]` is
/// the index one past the last point of contour k.
#[derive(Clone, Debug, Default, PartialEq)]
pub struct FlatGlyph {
    pub pts: Vec<FPt>,
    pub ends: Vec<usize>,
}

impl FlatGlyph {
    pub fn clear(&mut self) {
        self.pts.clear();
        self.ends.clear();
    }
    pub fn contours(&self) -> impl Iterator<Item = &[FPt]> {
        let mut start = 0usize;
        self.ends.iter().map(move |&e| {
            let c = &self.pts[start..e];
            start = e;
            c
        })
    }
}

/// Documented ways in which an implementation may depart from the specification (deviation switches).
#[derive(Clone, Copy, Debug, Default, PartialEq, Eq)]
pub struct Deviations {
    /// the 2x2 form is applied as x' = xscale*x + scale01*y, y' = scale10*x + yscale*y (transpose)
    pub transpose_2x2: bool,
    /// a component whose glyph is itself composite is placed with identity transform and zero offset
    pub nested_loses_outer: bool,
    /// point-number arguments are treated as a zero offset
    pub point_args_zero: bool,
}

/// How the xy offset of a component with SCALED_COMPONENT_OFFSET is scaled.
#[derive(Clone, Copy, Debug, PartialEq, Eq)]
pub enum ScaledOffset {
    /// OpenType text read literally / fontTools: the offset is in the component's coordinate system, the
    /// whole transform is applied to it
    Matrix,
    /// FreeType: dx * hypot(xscale, scale10), dy * hypot(yscale, scale01)
    Hypot,
    /// Apple TrueType reference manual: dx * m, dy * n with m = max(|a|,|b|) (doubled when ||a|-|c|| <= 33/65536),
    /// n = max(|c|,|d|) (doubled when ||b|-|d|| <= 33/65536)
    Apple,
    /// deviation: the flag is ignored, the offset is never scaled
    Ignored,
}

#[derive(Clone, Copy, Debug, PartialEq, Eq)]
pub struct Policy {
    pub dev: Deviations,
    pub scaled: ScaledOffset,
}

impl Policy {
    pub fn spec() -> Policy {
        Policy { dev: Deviations::default(), scaled: ScaledOffset::Matrix }
    }
}

#[derive(Clone, Debug, PartialEq, Eq)]
pub enum FlatErr {
    /// glyph index outside the table
    BadGlyph(u16),
    /// point-number argument outside the available points
    BadPoint,
    /// nesting deeper than the budget given (also the result for cyclic references)
    TooDeep,
}

/// matrix (a, b, c, d) meaning x' = a*x + c*y, y' = b*x + d*y — Apple's letters; file order of the 2x2 form
pub fn matrix_of(x: Xform, transpose: bool) -> (f64, f64, f64, f64) {
    match x {
        Xform::None => (1.0, 0.0, 0.0, 1.0),
        Xform::Scale(s) => (f2dot14(s), 0.0, 0.0, f2dot14(s)),
        Xform::XY(sx, sy) => (f2dot14(sx), 0.0, 0.0, f2dot14(sy)),
        Xform::M2x2(xscale, scale01, scale10, yscale) => {
            if transpose {
                (f2dot14(xscale), f2dot14(scale10), f2dot14(scale01), f2dot14(yscale))
            } else {
                (f2dot14(xscale), f2dot14(scale01), f2dot14(scale10), f2dot14(yscale))
            }
        }
    }
}

fn apply(m: (f64, f64, f64, f64), x: f64, y: f64) -> (f64, f64) {
    let (a, b, c, d) = m;
    (a * x + c * y, b * x + d * y)
}

fn component_offset(comp: &Component, m: (f64, f64, f64, f64), pol: &Policy, dx: i16, dy: i16) -> (f64, f64) {
    let (dx, dy) = (dx as f64, dy as f64);
    // glyf chapter: "If a font has both flags set, this is invalid; the rasterizer should use its default
    // behavior for this case" - a component with both flags is placed exactly like one with neither flag,
    // and the default (neither flag) is the unscaled offset on Microsoft and Apple platforms (recommended for all).
    let scaled = match (comp.scaled_offset, comp.unscaled_offset) {
        (true, false) => true,
        (true, true) | (false, false) | (false, true) => false,
    };
    if !scaled {
        return (dx, dy);
    }
    let (a, b, c, d) = m;
    match pol.scaled {
        ScaledOffset::Ignored => (dx, dy),
        ScaledOffset::Matrix => apply(m, dx, dy),
        ScaledOffset::Hypot => (dx * a.hypot(c), dy * d.hypot(b)),
        ScaledOffset::Apple => {
            let eps = 33.0 / 65536.0;
            let mut mm = a.abs().max(b.abs());
            if (a.abs() - c.abs()).abs() <= eps {
                mm *= 2.0;
            }
            let mut nn = c.abs().max(d.abs());
            if (b.abs() - d.abs()).abs() <= eps {
                nn *= 2.0;
            }
            (dx * mm, dy * nn)
        }
    }
}

fn flatten_rec(out: &mut FlatGlyph, glyphs: &[Glyph], gid: u16, pol: &Policy, budget: usize) -> Result<(), FlatErr> {
    let g = glyphs.get(gid as usize).ok_or(FlatErr::BadGlyph(gid))?;
    match g {
        Glyph::Empty => Ok(()),
        Glyph::Simple(cs) => {
            for c in cs {
                out.pts.extend(c.iter().map(|p| FPt { x: p.x as f64, y: p.y as f64, on: p.on }));
                out.ends.push(out.pts.len());
            }
            Ok(())
        }
        Glyph::Composite { components, .. } => {
            if budget == 0 {
                return Err(FlatErr::TooDeep);
            }
            // points of this composite so far are out.pts[base..]; the component's points are appended at `s`
            let base = out.pts.len();
            for comp in components {
                let s = out.pts.len();
                flatten_rec(out, glyphs, comp.glyph, pol, budget - 1)?;
                let child_is_composite = matches!(glyphs.get(comp.glyph as usize), Some(Glyph::Composite { .. }));
                if pol.dev.nested_loses_outer && child_is_composite {
                    continue;
                }
                let m = matrix_of(comp.xform, pol.dev.transpose_2x2);
                for p in out.pts[s..].iter_mut() {
                    let (x, y) = apply(m, p.x, p.y);
                    p.x = x;
                    p.y = y;
                }
                let (dx, dy) = match comp.args {
                    Args::Xy(dx, dy) => component_offset(comp, m, pol, dx, dy),
                    Args::Points(pa, pc) => {
                        if pol.dev.point_args_zero {
                            (0.0, 0.0)
                        } else {
                            let parent = *out.pts[base..s].get(pa as usize).ok_or(FlatErr::BadPoint)?;
                            let childp = *out.pts[s..].get(pc as usize).ok_or(FlatErr::BadPoint)?;
                            (parent.x - childp.x, parent.y - childp.y)
                        }
                    }
                };
                for p in out.pts[s..].iter_mut() {
                    p.x += dx;
                    p.y += dy;
                }
            }
            Ok(())
        }
    }
}

/// Flatten glyph `gid` (composites resolved) into `out` (cleared first). `budget` = number of composite levels
/// that may be entered.
pub fn flatten_into(out: &mut FlatGlyph, glyphs: &[Glyph], gid: u16, pol: &Policy, budget: usize) -> Result<(), FlatErr> {
    out.clear();
    flatten_rec(out, glyphs, gid, pol, budget)
}

pub fn flatten(glyphs: &[Glyph], gid: u16, pol: &Policy, budget: usize) -> Result<FlatGlyph, FlatErr> {
    let mut out = FlatGlyph::default();
    flatten_into(&mut out, glyphs, gid, pol, budget)?;
    Ok(out)
}

/// number of points of the flattened glyph (0 for anything unresolvable)
pub fn point_count(glyphs: &[Glyph], gid: u16, budget: usize) -> usize {
    match glyphs.get(gid as usize) {
        Some(Glyph::Simple(cs)) => cs.iter().map(|c| c.len()).sum(),
        Some(Glyph::Composite { components, .. }) if budget > 0 => components.iter().map(|c| point_count(glyphs, c.glyph, budget - 1)).sum(),
        _ => 0,
    }
}

/// number of composite levels above the deepest simple/empty glyph reachable from `gid`
/// (0 for a simple glyph); None if a cycle is reachable or an index is out of range.
pub fn nesting_depth(glyphs: &[Glyph], gid: u16) -> Option<usize> {
    fn go(glyphs: &[Glyph], gid: u16, stack: &mut Vec<u16>) -> Option<usize> {
        if stack.contains(&gid) {
            return None;
        }
        match glyphs.get(gid as usize)? {
            Glyph::Composite { components, .. } => {
                stack.push(gid);
                let mut d = 0;
                for c in components {
                    d = d.max(go(glyphs, c.glyph, stack)?);
                }
                stack.pop();
                Some(d + 1)
            }
            _ => Some(0),
        }
    }
    go(glyphs, gid, &mut Vec::new())
}

// ------------------------------------------------------------------------------------------------ reference: paths

#[derive(Clone, Copy, Debug, PartialEq)]
pub enum Cmd {
    Move(f64, f64),
    Line(f64, f64),
    Quad(f64, f64, f64, f64),
    Cubic(f64, f64, f64, f64, f64, f64),
    Close,
}

/// Drawing commands the specification assigns to one contour, appended to `out`: start on the curve (at the
/// first on-curve point; at the implied point between the last and the first point when the whole contour is
/// off-curve - any on-curve point would do, paths are compared cyclically), visit the points in order with an
/// on-curve point implied midway between two consecutive off-curve points (also across the closing edge), close.
pub fn contour_commands_into(out: &mut Vec<Cmd>, c: &[FPt]) {
    let n = c.len();
    if n == 0 {
        return;
    }
    let mid = |a: FPt, b: FPt| ((a.x + b.x) / 2.0, (a.y + b.y) / 2.0);
    let mut pending: Option<FPt> = None; // an off-curve point waiting for the end point of its curve
    let off = |out: &mut Vec<Cmd>, pending: &mut Option<FPt>, q: FPt| {
        if let Some(ctrl) = *pending {
            let (mx, my) = mid(ctrl, q);
            out.push(Cmd::Quad(ctrl.x, ctrl.y, mx, my));
        }
        *pending = Some(q);
    };
    match c.iter().position(|p| p.on) {
        Some(s) => {
            out.push(Cmd::Move(c[s].x, c[s].y));
            // k = n comes back to the starting point: the closing edge
            for k in 1..=n {
                let q = c[(s + k) % n];
                if q.on {
                    match pending.take() {
                        Some(ctrl) => out.push(Cmd::Quad(ctrl.x, ctrl.y, q.x, q.y)),
                        None => out.push(Cmd::Line(q.x, q.y)),
                    }
                } else {
                    off(out, &mut pending, q);
                }
            }
        }
        None => {
            let (sx, sy) = mid(c[n - 1], c[0]);
            out.push(Cmd::Move(sx, sy));
            for q in c {
                off(out, &mut pending, *q);
            }
            let ctrl = pending.expect("n >= 1");
            out.push(Cmd::Quad(ctrl.x, ctrl.y, sx, sy));
        }
    }
    out.push(Cmd::Close);
}

/// commands of a whole glyph into `out` (cleared first)
pub fn glyph_commands_into(out: &mut Vec<Cmd>, g: &FlatGlyph) {
    out.clear();
    for c in g.contours() {
        contour_commands_into(out, c);
    }
}

pub fn glyph_commands(g: &FlatGlyph) -> Vec<Cmd> {
    let mut out = Vec::new();
    glyph_commands_into(&mut out, g);
    out
}

pub fn simple_as_flat(contours: &[Contour]) -> FlatGlyph {
    let mut f = FlatGlyph::default();
    for c in contours {
        f.pts.extend(c.iter().map(|p| FPt { x: p.x as f64, y: p.y as f64, on: p.on }));
        f.ends.push(f.pts.len());
    }
    f
}

#[derive(Clone, Copy, Debug, PartialEq)]
pub enum Seg {
    Line { to: (f64, f64) },
    Quad { ctrl: (f64, f64), to: (f64, f64) },
}

/// One closed sub-path: segments `segs[from..to]` of the owning `Paths`, a cyclic sequence. `start` is only
/// significant when the range is empty (a point).
#[derive(Clone, Copy, Debug, PartialEq)]
pub struct Sub {
    pub start: (f64, f64),
    pub from: usize,
    pub to: usize,
}

/// An outline normalised to closed sub-paths: zero-length straight segments are dropped and the implicit
/// closing line of `close` is made explicit.
#[derive(Clone, Debug, Default, PartialEq)]
pub struct Paths {
    pub segs: Vec<Seg>,
    pub subs: Vec<Sub>,
}

pub fn close_to(a: f64, b: f64) -> bool {
    (a - b).abs() <= 1e-3 + 1e-5 * a.abs().max(b.abs())
}

fn pt_eq(a: (f64, f64), b: (f64, f64)) -> bool {
    close_to(a.0, b.0) && close_to(a.1, b.1)
}

/// Normalise a command stream into `out` (cleared first). Err if the stream is not a sequence of
/// move_to, (line_to | quadratic_curve_to)*, close groups.
pub fn paths_into(out: &mut Paths, cmds: &[Cmd]) -> Result<(), String> {
    out.segs.clear();
    out.subs.clear();
    // (start point, current point, index of the first segment) of the open sub-path
    let mut cur: Option<((f64, f64), (f64, f64), usize)> = None;
    for (i, c) in cmds.iter().enumerate() {
        match *c {
            Cmd::Move(x, y) => {
                if cur.is_some() {
                    return Err(format!("command {}: move_to inside an unclosed sub-path", i));
                }
                cur = Some(((x, y), (x, y), out.segs.len()));
            }
            Cmd::Line(x, y) => match cur.as_mut() {
                None => return Err(format!("command {}: line_to outside a sub-path", i)),
                Some((_, at, _)) => {
                    if !pt_eq(*at, (x, y)) {
                        out.segs.push(Seg::Line { to: (x, y) });
                    }
                    *at = (x, y);
                }
            },
            Cmd::Quad(cx, cy, x, y) => match cur.as_mut() {
                None => return Err(format!("command {}: quadratic_curve_to outside a sub-path", i)),
                Some((_, at, _)) => {
                    out.segs.push(Seg::Quad { ctrl: (cx, cy), to: (x, y) });
                    *at = (x, y);
                }
            },
            Cmd::Cubic(..) => return Err(format!("command {}: cubic curve in a TrueType outline", i)),
            Cmd::Close => match cur.take() {
                None => return Err(format!("command {}: close outside a sub-path", i)),
                Some((start, at, from)) => {
                    if !pt_eq(at, start) {
                        out.segs.push(Seg::Line { to: start });
                    }
                    out.subs.push(Sub { start, from, to: out.segs.len() });
                }
            },
        }
    }
    if cur.is_some() {
        return Err("last sub-path is not closed".into());
    }
    Ok(())
}

pub fn paths(cmds: &[Cmd]) -> Result<Paths, String> {
    let mut p = Paths::default();
    paths_into(&mut p, cmds)?;
    Ok(p)
}

fn seg_eq(a: &Seg, b: &Seg) -> bool {
    match (a, b) {
        (Seg::Line { to: x }, Seg::Line { to: y }) => pt_eq(*x, *y),
        (Seg::Quad { ctrl: c1, to: t1 }, Seg::Quad { ctrl: c2, to: t2 }) => pt_eq(*c1, *c2) && pt_eq(*t1, *t2),
        _ => false,
    }
}

/// equal as cyclic segment sequences (same direction, any starting point)
fn sub_eq(pa: &Paths, a: &Sub, pb: &Paths, b: &Sub) -> bool {
    let (sa, sb) = (&pa.segs[a.from..a.to], &pb.segs[b.from..b.to]);
    let n = sa.len();
    if n != sb.len() {
        return false;
    }
    if n == 0 {
        return pt_eq(a.start, b.start);
    }
    // every segment ends where the next begins, so comparing (kind, control, end) of all segments under a
    // rotation also compares the start points
    (0..n).any(|r| (0..n).all(|i| seg_eq(&sa[i], &sb[(i + r) % n])))
}

/// the two outlines consist of the same closed sub-paths (matched one to one; the order of sub-paths is not
/// demanded by the property)
pub fn paths_eq(a: &Paths, b: &Paths) -> bool {
    if a.subs.len() != b.subs.len() {
        return false;
    }
    let n = b.subs.len();
    let mut used_small = 0u64;
    let mut used_big: Vec<bool> = if n > 64 { vec![false; n] } else { Vec::new() };
    'outer: for x in &a.subs {
        for (j, y) in b.subs.iter().enumerate() {
            let used = if n > 64 { used_big[j] } else { used_small & (1 << j) != 0 };
            if !used && sub_eq(a, x, b, y) {
                if n > 64 {
                    used_big[j] = true;
                } else {
                    used_small |= 1 << j;
                }
                continue 'outer;
            }
        }
        return false;
    }
    true
}

#[cfg(test)]
mod tests {
    use super::*;

    fn p(x: i16, y: i16, on: bool) -> Pt {
        Pt { x, y, on }
    }

    #[test]
    fn roundtrip_all_encodings() {
        let cs = vec![vec![p(0, 0, true), p(100, -50, false), p(100, -50, false), p(-301, 51, true)], vec![p(-301, 51, true), p(0, 400, false)]];
        let mut s = EncScratch::default();
        for rep in [RepeatMode::None, RepeatMode::Greedy, RepeatMode::Pairs, RepeatMode::ZeroCountAll] {
            for ce in [CoordEnc::Min, CoordEnc::Long, CoordEnc::ShortPosZero, CoordEnc::ShortNegZero] {
                let enc = SimpleEnc { x: vec![ce; 6], y: vec![ce; 6], repeat: rep, instructions: 3, overlap_simple: true };
                let b = encode_simple(&cs, &enc);
                assert_eq!(decode_simple(&b).as_ref(), Some(&cs), "{:?} {:?}", rep, ce);
                assert!(simple_decodes_to(&b, &cs, &mut s));
                let mut other = cs.clone();
                other[1][1].y = 401;
                assert!(!simple_decodes_to(&b, &other, &mut s));
            }
        }
        let enc = SimpleEnc { x: vec![CoordEnc::Long; 6], y: vec![CoordEnc::Long; 6], repeat: RepeatMode::Greedy, instructions: 0, overlap_simple: false };
        let cs2 = vec![vec![p(0, 0, true), p(1, 1, true)], vec![p(2, 2, true), p(3, 3, true)]];
        assert!(repeat_run_spans_contours(&cs2, &encode_simple(&cs2, &enc)));
        assert!(!repeat_run_spans_contours(&cs2, &encode_simple(&cs2, &SimpleEnc::default())));
        // long runs: 600 equal flags under every cap
        let long: Vec<Contour> = vec![(0..300).map(|i| p(3 * (i + 1), 2 * (i + 1), true)).collect(), (300..600).map(|i| p(3 * (i + 1), 2 * (i + 1), true)).collect()];
        for (cap, want) in [(256u16, vec![255u8, 255, 87]), (255, vec![254, 254, 89]), (129, vec![128, 128, 128, 128, 83]), (128, vec![127, 127, 127, 127, 87]), (1, vec![])] {
            let enc = SimpleEnc { repeat: RepeatMode::Capped(cap), ..SimpleEnc::default() };
            let b = encode_simple(&long, &enc);
            assert_eq!(decode_simple(&b).as_ref(), Some(&long));
            assert!(simple_decodes_to(&b, &long, &mut s));
            assert_eq!(repeat_runs(&long, &b).iter().map(|r| r.2).collect::<Vec<_>>(), want, "cap {}", cap);
        }
    }

    fn flat(v: &[(f64, f64, bool)]) -> FlatGlyph {
        FlatGlyph { pts: v.iter().map(|&(x, y, on)| FPt { x, y, on }).collect(), ends: vec![v.len()] }
    }

    #[test]
    fn spec_example_paths() {
        // on, off, off, on: the classic example (implied point between the two off-curve points)
        let cmds = glyph_commands(&flat(&[(0., 0., true), (10., 40., false), (30., 40., false), (40., 10., true)]));
        assert_eq!(cmds, vec![Cmd::Move(0., 0.), Cmd::Quad(10., 40., 20., 40.), Cmd::Quad(30., 40., 40., 10.), Cmd::Line(0., 0.), Cmd::Close]);
        // starts off-curve, ends on-curve
        let cmds = glyph_commands(&flat(&[(10., 40., false), (30., 40., false), (40., 10., true), (0., 0., true)]));
        assert_eq!(cmds, vec![Cmd::Move(40., 10.), Cmd::Line(0., 0.), Cmd::Quad(10., 40., 20., 40.), Cmd::Quad(30., 40., 40., 10.), Cmd::Close]);
        // starts on-curve, ends off-curve: the closing edge is a curve
        let cmds = glyph_commands(&flat(&[(0., 0., true), (10., 0., true), (10., 10., false)]));
        assert_eq!(cmds, vec![Cmd::Move(0., 0.), Cmd::Line(10., 0.), Cmd::Quad(10., 10., 0., 0.), Cmd::Close]);
        // all off-curve triangle: three curves between the midpoints
        let cmds = glyph_commands(&flat(&[(0., 0., false), (10., 0., false), (0., 10., false)]));
        assert_eq!(cmds, vec![Cmd::Move(0., 5.), Cmd::Quad(0., 0., 5., 0.), Cmd::Quad(10., 0., 5., 5.), Cmd::Quad(0., 10., 0., 5.), Cmd::Close]);
        let a = paths(&cmds).unwrap();
        // the same path started at another implied point
        let b = paths(&[Cmd::Move(5., 0.), Cmd::Quad(10., 0., 5., 5.), Cmd::Quad(0., 10., 0., 5.), Cmd::Quad(0., 0., 5., 0.), Cmd::Close]).unwrap();
        assert!(paths_eq(&a, &b));
        // reversed direction is a different path
        let c = paths(&[Cmd::Move(5., 0.), Cmd::Quad(0., 0., 0., 5.), Cmd::Quad(0., 10., 5., 5.), Cmd::Quad(10., 0., 5., 0.), Cmd::Close]).unwrap();
        assert!(!paths_eq(&a, &c));
        // implicit and explicit closing line are the same path
        let d = paths(&[Cmd::Move(0., 0.), Cmd::Line(10., 0.), Cmd::Line(0., 10.), Cmd::Close]).unwrap();
        let e = paths(&[Cmd::Move(10., 0.), Cmd::Line(0., 10.), Cmd::Line(0., 0.), Cmd::Line(10., 0.), Cmd::Close]).unwrap();
        assert!(paths_eq(&d, &e));
    }

    #[test]
    fn two_by_two_formula_and_point_matching() {
        // [xscale, scale01, scale10, yscale] = [1, 1, 0, 1]: x' = x, y' = x + y
        let glyphs = vec![
            Glyph::Simple(vec![vec![p(10, 0, true), p(0, 5, true)]]),
            Glyph::Composite { components: vec![Component::new(0, Args::Xy(0, 0), Xform::M2x2(0x4000, 0x4000, 0, 0x4000))], instructions: 0, overlap_compound: false },
            // second component scaled by 1/2 and moved so that its point 1 (0, 2.5) lands on point 0 (10, 0) of the first
            Glyph::Composite {
                components: vec![Component::new(0, Args::Xy(0, 0), Xform::None), Component::new(0, Args::Points(0, 1), Xform::Scale(0x2000))],
                instructions: 0,
                overlap_compound: false,
            },
            // nested: glyph 2 moved by (100, 100)
            Glyph::Composite { components: vec![Component::new(2, Args::Xy(100, 100), Xform::None)], instructions: 0, overlap_compound: false },
        ];
        let f = flatten(&glyphs, 1, &Policy::spec(), 8).unwrap();
        assert_eq!((f.pts[0].x, f.pts[0].y), (10.0, 10.0));
        assert_eq!((f.pts[1].x, f.pts[1].y), (0.0, 5.0));
        let f = flatten(&glyphs, 2, &Policy::spec(), 8).unwrap();
        assert_eq!(f.ends, vec![2, 4]);
        assert_eq!((f.pts[3].x, f.pts[3].y), (10.0, 0.0));
        assert_eq!((f.pts[2].x, f.pts[2].y), (15.0, -2.5));
        let f = flatten(&glyphs, 3, &Policy::spec(), 8).unwrap();
        assert_eq!((f.pts[2].x, f.pts[2].y), (115.0, 97.5));
        assert_eq!(nesting_depth(&glyphs, 3), Some(2));
        assert_eq!(point_count(&glyphs, 3, 8), 4);
        assert_eq!(flatten(&glyphs, 3, &Policy::spec(), 1), Err(FlatErr::TooDeep));
        // offset flags: SCALED alone scales the offset, both flags = neither flag = unscaled
        let with = |s: bool, u: bool| {
            let mut c = Component::new(0, Args::Xy(10, -20), Xform::Scale(0x2000));
            c.scaled_offset = s;
            c.unscaled_offset = u;
            let g = vec![glyphs[0].clone(), Glyph::Composite { components: vec![c], instructions: 0, overlap_compound: false }];
            let f = flatten(&g, 1, &Policy::spec(), 8).unwrap();
            (f.pts[0].x, f.pts[0].y)
        };
        assert_eq!(with(false, false), (15.0, -20.0));
        assert_eq!(with(true, true), with(false, false));
        assert_eq!(with(false, true), (15.0, -20.0));
        assert_eq!(with(true, false), (10.0, -10.0));
    }
}
