//! Big-endian byte writer / reader helpers (independent of allsorts).

#[derive(Default, Clone, Debug)]
pub struct W {
    pub b: Vec<u8>,
}

impl W {
    pub fn new() -> W {
        W { b: Vec::new() }
    }
    pub fn len(&self) -> usize {
        self.b.len()
    }
    pub fn is_empty(&self) -> bool {
        self.b.is_empty()
    }
    pub fn u8(&mut self, v: u8) -> &mut Self {
        self.b.push(v);
        self
    }
    pub fn i8(&mut self, v: i8) -> &mut Self {
        self.b.push(v as u8);
        self
    }
    pub fn u16(&mut self, v: u16) -> &mut Self {
        self.b.extend_from_slice(&v.to_be_bytes());
        self
    }
    pub fn i16(&mut self, v: i16) -> &mut Self {
        self.b.extend_from_slice(&v.to_be_bytes());
        self
    }
    pub fn u24(&mut self, v: u32) -> &mut Self {
        self.b.extend_from_slice(&v.to_be_bytes()[1..]);
        self
    }
    pub fn u32(&mut self, v: u32) -> &mut Self {
        self.b.extend_from_slice(&v.to_be_bytes());
        self
    }
    pub fn i32(&mut self, v: i32) -> &mut Self {
        self.b.extend_from_slice(&v.to_be_bytes());
        self
    }
    pub fn u64(&mut self, v: u64) -> &mut Self {
        self.b.extend_from_slice(&v.to_be_bytes());
        self
    }
    pub fn bytes(&mut self, v: &[u8]) -> &mut Self {
        self.b.extend_from_slice(v);
        self
    }
    pub fn tag(&mut self, t: u32) -> &mut Self {
        self.u32(t)
    }
    pub fn pad_to(&mut self, align: usize) -> &mut Self {
        while self.b.len() % align != 0 {
            self.b.push(0);
        }
        self
    }
    /// overwrite a u16 at `pos`
    pub fn set_u16(&mut self, pos: usize, v: u16) {
        self.b[pos..pos + 2].copy_from_slice(&v.to_be_bytes());
    }
    pub fn set_u32(&mut self, pos: usize, v: u32) {
        self.b[pos..pos + 4].copy_from_slice(&v.to_be_bytes());
    }
    pub fn done(self) -> Vec<u8> {
        self.b
    }
}

/// Checked big-endian reader over a slice; `None` on any out-of-range access.
#[derive(Clone, Copy, Debug)]
pub struct R<'a> {
    pub d: &'a [u8],
    pub p: usize,
}

impl<'a> R<'a> {
    pub fn new(d: &'a [u8]) -> R<'a> {
        R { d, p: 0 }
    }
    pub fn at(d: &'a [u8], p: usize) -> R<'a> {
        R { d, p }
    }
    pub fn left(&self) -> usize {
        self.d.len().saturating_sub(self.p)
    }
    pub fn take(&mut self, n: usize) -> Option<&'a [u8]> {
        let e = self.p.checked_add(n)?;
        let s = self.d.get(self.p..e)?;
        self.p = e;
        Some(s)
    }
    pub fn u8(&mut self) -> Option<u8> {
        Some(self.take(1)?[0])
    }
    pub fn i8(&mut self) -> Option<i8> {
        Some(self.take(1)?[0] as i8)
    }
    pub fn u16(&mut self) -> Option<u16> {
        let s = self.take(2)?;
        Some(u16::from_be_bytes([s[0], s[1]]))
    }
    pub fn i16(&mut self) -> Option<i16> {
        Some(self.u16()? as i16)
    }
    pub fn u24(&mut self) -> Option<u32> {
        let s = self.take(3)?;
        Some(((s[0] as u32) << 16) | ((s[1] as u32) << 8) | s[2] as u32)
    }
    pub fn u32(&mut self) -> Option<u32> {
        let s = self.take(4)?;
        Some(u32::from_be_bytes([s[0], s[1], s[2], s[3]]))
    }
    pub fn i32(&mut self) -> Option<i32> {
        Some(self.u32()? as i32)
    }
}

pub fn u16_at(d: &[u8], p: usize) -> Option<u16> {
    R::at(d, p).u16()
}
pub fn u32_at(d: &[u8], p: usize) -> Option<u32> {
    R::at(d, p).u32()
}
