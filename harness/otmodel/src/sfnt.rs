//! sfnt / TTC / WOFF1 container builders and an independent reader + validator.

use crate::be::{R, W};
use crate::tag;

pub const TTF: u32 = 0x0001_0000;
pub const OTTO: u32 = tag(b"OTTO");
pub const TRUE: u32 = tag(b"true");
pub const TTCF: u32 = tag(b"ttcf");
pub const WOFF: u32 = tag(b"wOFF");

pub type Tables = Vec<(u32, Vec<u8>)>;

/// OpenType table checksum: sum of big-endian u32 words, data zero-padded to a multiple of four.
pub fn checksum(data: &[u8]) -> u32 {
    let mut sum = 0u32;
    let mut i = 0;
    while i < data.len() {
        let mut w = [0u8; 4];
        let n = (data.len() - i).min(4);
        w[..n].copy_from_slice(&data[i..i + n]);
        sum = sum.wrapping_add(u32::from_be_bytes(w));
        i += 4;
    }
    sum
}

pub fn search_fields(n: u16, unit: u16) -> (u16, u16, u16) {
    // searchRange = (largest power of two <= n) * unit; entrySelector = log2 of that power;
    // rangeShift = n*unit - searchRange
    let mut p = 1u16;
    let mut e = 0u16;
    while n >= 2 && p <= n / 2 {
        p *= 2;
        e += 1;
    }
    if n == 0 {
        return (0, 0, 0);
    }
    let sr = p.wrapping_mul(unit);
    (sr, e, n.wrapping_mul(unit).wrapping_sub(sr))
}

#[derive(Clone, Debug)]
pub struct BuildOpts {
    /// order of the directory records: None = sorted by tag (what the specification requires)
    pub dir_order: Option<Vec<usize>>,
    /// order in which table data is laid out: None = directory order
    pub data_order: Option<Vec<usize>>,
    pub fix_head_adjustment: bool,
}

impl Default for BuildOpts {
    fn default() -> Self {
        BuildOpts { dir_order: None, data_order: None, fix_head_adjustment: true }
    }
}

/// Build a single-font sfnt. Tables are laid out 4-byte aligned with zero padding.
pub fn build(flavor: u32, tables: &[(u32, Vec<u8>)]) -> Vec<u8> {
    build_with(flavor, tables, &BuildOpts::default())
}

pub fn build_with(flavor: u32, tables: &[(u32, Vec<u8>)], opts: &BuildOpts) -> Vec<u8> {
    let n = tables.len();
    let mut dir: Vec<usize> = match &opts.dir_order {
        Some(o) => o.clone(),
        None => {
            let mut v: Vec<usize> = (0..n).collect();
            v.sort_by_key(|&i| tables[i].0);
            v
        }
    };
    if dir.len() != n {
        dir = (0..n).collect();
    }
    let data_order: Vec<usize> = opts.data_order.clone().unwrap_or_else(|| dir.clone());
    let mut offsets = vec![0usize; n];
    let mut pos = 12 + 16 * n;
    for &i in &data_order {
        offsets[i] = pos;
        pos += (tables[i].1.len() + 3) / 4 * 4;
    }
    let total = pos;
    let mut w = W::new();
    let (sr, es, rs) = search_fields(n as u16, 16);
    w.u32(flavor).u16(n as u16).u16(sr).u16(es).u16(rs);
    for &i in &dir {
        w.u32(tables[i].0).u32(checksum(&tables[i].1)).u32(offsets[i] as u32).u32(tables[i].1.len() as u32);
    }
    let mut out = w.done();
    out.resize(total, 0);
    for i in 0..n {
        out[offsets[i]..offsets[i] + tables[i].1.len()].copy_from_slice(&tables[i].1);
    }
    if opts.fix_head_adjustment {
        if let Some(i) = (0..n).find(|&i| tables[i].0 == tag(b"head") && tables[i].1.len() >= 12) {
            let p = offsets[i] + 8;
            out[p..p + 4].copy_from_slice(&[0, 0, 0, 0]);
            // directory checksum of head must be computed with adjustment = 0
            let head_sum = checksum(&out[offsets[i]..offsets[i] + tables[i].1.len()]);
            if let Some(k) = dir.iter().position(|&d| d == i) {
                let rec = 12 + 16 * k + 4;
                out[rec..rec + 4].copy_from_slice(&head_sum.to_be_bytes());
            }
            let adj = 0xB1B0AFBAu32.wrapping_sub(checksum(&out));
            out[p..p + 4].copy_from_slice(&adj.to_be_bytes());
        }
    }
    out
}

/// Where a collection keeps its table directories relative to the table data (all are valid: offsets in a
/// collection are relative to the start of the file).
#[derive(Clone, Copy, Debug, PartialEq, Eq)]
pub enum TtcLayout {
    /// header | dir 0 | dir 1 | ... | tables
    DirsFirst,
    /// header | dir 0 | tables first used by member 0 | dir 1 | tables first used by member 1 | ...
    /// (a later member that shares a table points at data stored BEFORE its own directory)
    Interleaved,
    /// header | tables | dir 0 | dir 1 | ...
    TablesFirst,
    /// header | dir n-1 | ... | dir 1 | dir 0 | tables  (the header's offsets are not ascending in member order)
    DirsReversed,
}

/// TrueType collection: `members[i]` lists indices into `pool`; shared pool entries are stored once.
pub fn build_ttc(version: u32, flavors: &[u32], pool: &[(u32, Vec<u8>)], members: &[Vec<usize>]) -> Vec<u8> {
    build_ttc_layout(version, flavors, pool, members, TtcLayout::DirsFirst)
}

pub fn build_ttc_layout(version: u32, flavors: &[u32], pool: &[(u32, Vec<u8>)], members: &[Vec<usize>], layout: TtcLayout) -> Vec<u8> {
    let nf = members.len();
    let header_len = 12 + 4 * nf + if version >= 0x0002_0000 { 12 } else { 0 };
    let mut dir_offsets = vec![0usize; nf];
    let mut tab_offsets = vec![usize::MAX; pool.len()];
    let mut pos = header_len;
    let pad = |n: usize| (n + 3) / 4 * 4;
    match layout {
        TtcLayout::DirsFirst => {
            for (k, m) in members.iter().enumerate() {
                dir_offsets[k] = pos;
                pos += 12 + 16 * m.len();
            }
            for (i, t) in pool.iter().enumerate() {
                tab_offsets[i] = pos;
                pos += pad(t.1.len());
            }
        }
        TtcLayout::Interleaved => {
            for (k, m) in members.iter().enumerate() {
                dir_offsets[k] = pos;
                pos += 12 + 16 * m.len();
                for &i in m {
                    if tab_offsets[i] == usize::MAX {
                        tab_offsets[i] = pos;
                        pos += pad(pool[i].1.len());
                    }
                }
            }
            for (i, t) in pool.iter().enumerate() {
                if tab_offsets[i] == usize::MAX {
                    tab_offsets[i] = pos;
                    pos += pad(t.1.len());
                }
            }
        }
        TtcLayout::DirsReversed => {
            for (k, m) in members.iter().enumerate().rev() {
                dir_offsets[k] = pos;
                pos += 12 + 16 * m.len();
            }
            for (i, t) in pool.iter().enumerate() {
                tab_offsets[i] = pos;
                pos += pad(t.1.len());
            }
        }
        TtcLayout::TablesFirst => {
            for (i, t) in pool.iter().enumerate() {
                tab_offsets[i] = pos;
                pos += pad(t.1.len());
            }
            for (k, m) in members.iter().enumerate() {
                dir_offsets[k] = pos;
                pos += 12 + 16 * m.len();
            }
        }
    }
    let total = pos;
    let mut w = W::new();
    w.u32(TTCF).u32(version).u32(nf as u32);
    for o in &dir_offsets {
        w.u32(*o as u32);
    }
    if version >= 0x0002_0000 {
        w.u32(0).u32(0).u32(0);
    }
    let mut out = w.done();
    out.resize(total, 0);
    for (k, m) in members.iter().enumerate() {
        let mut idx = m.clone();
        idx.sort_by_key(|&i| pool[i].0);
        let (sr, es, rs) = search_fields(m.len() as u16, 16);
        let mut d = W::new();
        d.u32(flavors[k % flavors.len()]).u16(m.len() as u16).u16(sr).u16(es).u16(rs);
        for i in idx {
            d.u32(pool[i].0).u32(checksum(&pool[i].1)).u32(tab_offsets[i] as u32).u32(pool[i].1.len() as u32);
        }
        let d = d.done();
        out[dir_offsets[k]..dir_offsets[k] + d.len()].copy_from_slice(&d);
    }
    for (i, t) in pool.iter().enumerate() {
        out[tab_offsets[i]..tab_offsets[i] + t.1.len()].copy_from_slice(&t.1);
    }
    out
}

pub fn zlib(data: &[u8], level: u32) -> Vec<u8> {
    use flate2::write::ZlibEncoder;
    use flate2::Compression;
    use std::io::Write;
    let mut e = ZlibEncoder::new(Vec::new(), Compression::new(level));
    e.write_all(data).unwrap();
    e.finish().unwrap()
}

/// WOFF 1.0. `compress[i]`: store table i zlib-compressed (only honoured when that is smaller than the
/// original, as the WOFF specification requires; the returned vector says what was actually done).
pub fn build_woff(
    flavor: u32,
    tables: &[(u32, Vec<u8>)],
    compress: &[bool],
    metadata: Option<&[u8]>,
    private: Option<&[u8]>,
) -> (Vec<u8>, Vec<bool>) {
    let n = tables.len();
    let mut order: Vec<usize> = (0..n).collect();
    order.sort_by_key(|&i| tables[i].0);
    let mut blobs: Vec<Vec<u8>> = Vec::new();
    let mut done = vec![false; n];
    for i in 0..n {
        if compress.get(i).copied().unwrap_or(false) {
            let z = zlib(&tables[i].1, 6);
            if z.len() < tables[i].1.len() {
                blobs.push(z);
                done[i] = true;
                continue;
            }
        }
        blobs.push(tables[i].1.clone());
    }
    let mut pos = 44 + 20 * n;
    let mut offs = vec![0usize; n];
    for &i in &order {
        offs[i] = pos;
        pos += (blobs[i].len() + 3) / 4 * 4;
    }
    let mut meta_off = 0;
    let mut meta_len = 0;
    let mut meta_z: Vec<u8> = Vec::new();
    if let Some(m) = metadata {
        meta_z = zlib(m, 6);
        meta_off = pos;
        meta_len = meta_z.len();
        pos += meta_len;
        if private.is_some() {
            pos = (pos + 3) / 4 * 4;
        }
    }
    let mut priv_off = 0;
    if let Some(p) = private {
        priv_off = pos;
        pos += p.len();
    }
    let total = pos;
    let sfnt_size: usize = 12 + 16 * n + tables.iter().map(|t| (t.1.len() + 3) / 4 * 4).sum::<usize>();
    let mut w = W::new();
    w.u32(WOFF).u32(flavor).u32(total as u32).u16(n as u16).u16(0).u32(sfnt_size as u32).u16(1).u16(0);
    w.u32(meta_off as u32).u32(meta_len as u32).u32(metadata.map_or(0, |m| m.len()) as u32);
    w.u32(priv_off as u32).u32(private.map_or(0, |p| p.len()) as u32);
    for &i in &order {
        w.u32(tables[i].0).u32(offs[i] as u32).u32(blobs[i].len() as u32).u32(tables[i].1.len() as u32).u32(checksum(&tables[i].1));
    }
    let mut out = w.done();
    out.resize(total, 0);
    for i in 0..n {
        out[offs[i]..offs[i] + blobs[i].len()].copy_from_slice(&blobs[i]);
    }
    if metadata.is_some() {
        out[meta_off..meta_off + meta_len].copy_from_slice(&meta_z);
    }
    if let Some(p) = private {
        out[priv_off..priv_off + p.len()].copy_from_slice(p);
    }
    (out, done)
}

// ------------------------------------------------------------------------------------------------
// independent reader / validator

#[derive(Clone, Debug, PartialEq, Eq)]
pub struct DirEntry {
    pub tag: u32,
    pub checksum: u32,
    pub offset: u32,
    pub length: u32,
}

#[derive(Clone, Debug)]
pub struct Sfnt<'a> {
    pub data: &'a [u8],
    pub flavor: u32,
    pub search: (u16, u16, u16),
    pub dir: Vec<DirEntry>,
}

pub fn parse(data: &[u8]) -> Option<Sfnt<'_>> {
    parse_at(data, 0)
}

pub fn parse_at(data: &[u8], off: usize) -> Option<Sfnt<'_>> {
    let mut r = R::at(data, off);
    let flavor = r.u32()?;
    let n = r.u16()?;
    let search = (r.u16()?, r.u16()?, r.u16()?);
    let mut dir = Vec::new();
    for _ in 0..n {
        dir.push(DirEntry { tag: r.u32()?, checksum: r.u32()?, offset: r.u32()?, length: r.u32()? });
    }
    Some(Sfnt { data, flavor, search, dir })
}

impl<'a> Sfnt<'a> {
    pub fn table(&self, t: u32) -> Option<&'a [u8]> {
        let e = self.dir.iter().find(|e| e.tag == t)?;
        self.data.get(e.offset as usize..(e.offset as usize).checked_add(e.length as usize)?)
    }
    pub fn tags(&self) -> Vec<u32> {
        self.dir.iter().map(|e| e.tag).collect()
    }
}

/// Structural validation of a single-font sfnt file as written by a font *producer*
/// (OpenType "Organization of an OpenType Font" + recommendations that C09 names).
/// Returns a list of problems (empty = valid).
pub fn validate(data: &[u8]) -> Vec<String> {
    let mut p = Vec::new();
    let f = match parse(data) {
        Some(f) => f,
        None => return vec!["truncated header or directory".into()],
    };
    if ![TTF, OTTO, TRUE].contains(&f.flavor) {
        p.push(format!("unknown sfnt version {:08x}", f.flavor));
    }
    let n = f.dir.len() as u16;
    let want = search_fields(n, 16);
    if f.search != want {
        p.push(format!("search fields {:?}, expected {:?} for {} tables", f.search, want, n));
    }
    for w in f.dir.windows(2) {
        if w[0].tag >= w[1].tag {
            p.push(format!("directory not strictly sorted: {} before {}", crate::tag_str(w[0].tag), crate::tag_str(w[1].tag)));
        }
    }
    let dir_end = 12 + 16 * f.dir.len();
    let mut spans: Vec<(usize, usize, u32)> = Vec::new();
    for e in &f.dir {
        let (o, l) = (e.offset as usize, e.length as usize);
        let t = crate::tag_str(e.tag);
        if o % 4 != 0 {
            p.push(format!("table {} offset {} not 4-byte aligned", t, o));
        }
        if o < dir_end {
            p.push(format!("table {} overlaps the directory", t));
        }
        match o.checked_add(l) {
            Some(end) if end <= data.len() => {
                let pad_end = (end + 3) / 4 * 4;
                if pad_end > data.len() {
                    p.push(format!("table {} is not padded to a 4-byte boundary at end of file", t));
                } else if data[end..pad_end].iter().any(|b| *b != 0) {
                    p.push(format!("table {} padding is not zero", t));
                }
                let mut cs = checksum(&data[o..end]);
                if e.tag == tag(b"head") && l >= 12 {
                    // computed with checkSumAdjustment taken as zero
                    let adj = u32::from_be_bytes([data[o + 8], data[o + 9], data[o + 10], data[o + 11]]);
                    cs = cs.wrapping_sub(adj);
                }
                if cs != e.checksum {
                    p.push(format!("table {} checksum {:08x}, directory says {:08x}", t, cs, e.checksum));
                }
                spans.push((o, pad_end.min(data.len()), e.tag));
            }
            _ => p.push(format!("table {} extends beyond the file", t)),
        }
    }
    spans.sort();
    for w in spans.windows(2) {
        if w[0].1 > w[1].0 {
            p.push(format!("tables {} and {} overlap", crate::tag_str(w[0].2), crate::tag_str(w[1].2)));
        }
    }
    if let Some(last) = spans.iter().map(|s| s.1).max() {
        if last != data.len() {
            p.push(format!("file length {} but last table ends (padded) at {}", data.len(), last));
        }
    }
    if let Some(first) = spans.first() {
        if first.0 != dir_end {
            p.push(format!("gap between directory end {} and first table at {}", dir_end, first.0));
        }
    }
    for w in spans.windows(2) {
        if w[0].1 != w[1].0 && w[0].1 < w[1].0 {
            p.push(format!("gap between tables {} and {}", crate::tag_str(w[0].2), crate::tag_str(w[1].2)));
        }
    }
    if let Some(h) = f.table(tag(b"head")) {
        if h.len() >= 12 && checksum(data) != 0xB1B0AFBA {
            p.push(format!("whole-file checksum {:08x} != B1B0AFBA (head.checkSumAdjustment wrong)", checksum(data)));
        }
    }
    p
}

#[cfg(test)]
mod tests {
    use super::*;
    #[test]
    fn build_validates() {
        let mut head = vec![0u8; 54];
        head[0] = 0;
        head[1] = 1;
        let t = vec![(tag(b"head"), head), (tag(b"abcd"), vec![1, 2, 3]), (tag(b"zz  "), vec![])];
        let f = build(TTF, &t);
        assert_eq!(validate(&f), Vec::<String>::new());
        assert_eq!(search_fields(3, 16), (32, 1, 16));
        assert_eq!(search_fields(1, 16), (16, 0, 0));
        assert_eq!(search_fields(16, 16), (256, 4, 0));
    }
}
