//! Independent cmap subtable encoders (formats 0, 2, 4, 6, 10, 12) working from *structural*
//! descriptions, each returning the bytes together with the model map `code -> glyph` that the OpenType
//! specification assigns to that structure (glyph 0 entries are omitted: unmapped == 0).

use crate::be::W;
use crate::sfnt::search_fields;
use std::collections::BTreeMap;

pub type Model = BTreeMap<u32, u16>;

// ---------------------------------------------------------------------------------------- format 0
pub fn fmt0(glyphs: &[u8; 256]) -> (Vec<u8>, Model) {
    let mut w = W::new();
    w.u16(0).u16(262).u16(0).bytes(glyphs);
    let mut m = Model::new();
    for (c, g) in glyphs.iter().enumerate() {
        if *g != 0 {
            m.insert(c as u32, *g as u16);
        }
    }
    (w.done(), m)
}

// ---------------------------------------------------------------------------------------- format 4
#[derive(Clone, Debug, PartialEq, Eq, Hash)]
pub enum Seg4 {
    /// idRangeOffset = 0: glyph = (c + delta) mod 65536
    Delta { start: u16, end: u16, delta: i16 },
    /// idRangeOffset != 0: glyph = entries[c - start]; if that is non-zero, (entry + delta) mod 65536
    Array { start: u16, end: u16, delta: i16, entries: Vec<u16> },
}

impl Seg4 {
    pub fn range(&self) -> (u16, u16) {
        match self {
            Seg4::Delta { start, end, .. } | Seg4::Array { start, end, .. } => (*start, *end),
        }
    }
    pub fn describe(&self) -> String {
        match self {
            Seg4::Delta { start, end, delta } => format!("[{:#x}..={:#x}] delta {}", start, end, delta),
            Seg4::Array { start, end, delta, entries } => {
                format!("[{:#x}..={:#x}] glyphIdArray {:?} idDelta {}", start, end, entries, delta)
            }
        }
    }
}

#[derive(Clone, Copy, Debug, PartialEq, Eq, Hash)]
pub enum Term4 {
    /// the mandatory final segment 0xFFFF..0xFFFF, idDelta 1, idRangeOffset 0 (maps 0xFFFF to glyph 0)
    Standard,
    /// same, but written with idRangeOffset 0xFFFF as old Fontographer fonts do (commonly tolerated)
    Fontographer,
    /// no separate terminator: the last segment of `segs` itself ends at 0xFFFF (and may map real characters),
    /// which is all the specification requires of the final segment
    InLastSegment,
}

/// `segs` must be sorted by end code and non-overlapping; they must not contain 0xFFFF unless `term` is
/// `InLastSegment`, in which case the last one must end at 0xFFFF.
pub fn fmt4(segs: &[Seg4], term: Term4) -> (Vec<u8>, Model) {
    let own_term = term != Term4::InLastSegment;
    if !own_term {
        assert_eq!(segs.last().map(|s| s.range().1), Some(0xFFFF));
    }
    let n = segs.len() + own_term as usize;
    let (sr, es, rs) = search_fields(n as u16, 2);
    let mut garr: Vec<u16> = Vec::new();
    let mut range_offsets: Vec<u16> = Vec::new();
    let mut model = Model::new();
    for (i, s) in segs.iter().enumerate() {
        match s {
            Seg4::Delta { start, end, delta } => {
                range_offsets.push(0);
                for c in *start..=*end {
                    let g = (c as i32 + *delta as i32).rem_euclid(65536) as u16;
                    if g != 0 {
                        model.insert(c as u32, g);
                    }
                }
            }
            Seg4::Array { start, end, delta, entries } => {
                assert_eq!(entries.len(), (*end - *start) as usize + 1);
                // bytes from the location of idRangeOffset[i] to the first entry
                let off = 2 * (n - i) + 2 * garr.len();
                range_offsets.push(off as u16);
                for (k, e) in entries.iter().enumerate() {
                    let c = *start as u32 + k as u32;
                    if *e != 0 {
                        let g = (*e as i32 + *delta as i32).rem_euclid(65536) as u16;
                        if g != 0 {
                            model.insert(c, g);
                        }
                    }
                }
                garr.extend_from_slice(entries);
            }
        }
    }
    let length = 16 + 8 * n + 2 * garr.len();
    let mut w = W::new();
    w.u16(4).u16(length as u16).u16(0).u16(2 * n as u16).u16(sr).u16(es).u16(rs);
    for s in segs {
        w.u16(s.range().1);
    }
    if own_term {
        w.u16(0xFFFF);
    }
    w.u16(0); // reservedPad
    for s in segs {
        w.u16(s.range().0);
    }
    if own_term {
        w.u16(0xFFFF);
    }
    for s in segs {
        match s {
            Seg4::Delta { delta, .. } | Seg4::Array { delta, .. } => w.i16(*delta),
        };
    }
    if own_term {
        w.u16(1);
    }
    for r in &range_offsets {
        w.u16(*r);
    }
    match term {
        Term4::Standard => {
            w.u16(0);
        }
        Term4::Fontographer => {
            w.u16(0xFFFF);
        }
        Term4::InLastSegment => {}
    }
    for g in &garr {
        w.u16(*g);
    }
    (w.done(), model)
}

// ---------------------------------------------------------------------------------------- format 6 / 10
pub fn fmt6(first: u16, glyphs: &[u16]) -> (Vec<u8>, Model) {
    let mut w = W::new();
    w.u16(6).u16(10 + 2 * glyphs.len() as u16).u16(0).u16(first).u16(glyphs.len() as u16);
    let mut m = Model::new();
    for (i, g) in glyphs.iter().enumerate() {
        w.u16(*g);
        if *g != 0 {
            m.insert(first as u32 + i as u32, *g);
        }
    }
    (w.done(), m)
}

pub fn fmt10(start: u32, glyphs: &[u16]) -> (Vec<u8>, Model) {
    let mut w = W::new();
    w.u16(10).u16(0).u32(20 + 2 * glyphs.len() as u32).u32(0).u32(start).u32(glyphs.len() as u32);
    let mut m = Model::new();
    for (i, g) in glyphs.iter().enumerate() {
        w.u16(*g);
        if *g != 0 {
            m.insert(start + i as u32, *g);
        }
    }
    (w.done(), m)
}

// ---------------------------------------------------------------------------------------- format 12
/// groups: (startCharCode, endCharCode, startGlyphID), sorted and disjoint, glyph ids <= 0xFFFF.
pub fn fmt12(groups: &[(u32, u32, u32)]) -> (Vec<u8>, Model) {
    let mut w = W::new();
    w.u16(12).u16(0).u32(16 + 12 * groups.len() as u32).u32(0).u32(groups.len() as u32);
    let mut m = Model::new();
    for g in groups {
        w.u32(g.0).u32(g.1).u32(g.2);
        for c in g.0..=g.1 {
            let gid = g.2 + (c - g.0);
            if gid != 0 && gid <= 0xFFFF {
                m.insert(c, gid as u16);
            }
        }
    }
    (w.done(), m)
}

// ---------------------------------------------------------------------------------------- format 2
#[derive(Clone, Debug, PartialEq, Eq, Hash)]
pub struct Sub2 {
    pub first: u8,
    pub delta: i16,
    pub entries: Vec<u16>,
}

/// Format 2 (high-byte mapping through table). `single` is sub-header 0 and maps one-byte codes;
/// `leads` lists (lead byte, sub-header) for two-byte codes. A lead byte must not also be mapped by `single`.
pub fn fmt2(single: &Sub2, leads: &[(u8, Sub2)]) -> (Vec<u8>, Model) {
    let nsub = 1 + leads.len();
    let mut keys = [0u16; 256];
    for (k, (lead, _)) in leads.iter().enumerate() {
        keys[*lead as usize] = 8 * (k as u16 + 1);
    }
    let subs: Vec<&Sub2> = std::iter::once(single).chain(leads.iter().map(|l| &l.1)).collect();
    let mut arr_off = Vec::new();
    let mut total = 0usize;
    for s in &subs {
        arr_off.push(total);
        total += s.entries.len();
    }
    let length = 6 + 512 + 8 * nsub + 2 * total;
    let mut w = W::new();
    w.u16(2).u16(length as u16).u16(0);
    for k in keys.iter() {
        w.u16(*k);
    }
    for (k, s) in subs.iter().enumerate() {
        // idRangeOffset: bytes from the idRangeOffset word itself to the entry for firstCode
        let iro = 8 * (nsub - k) - 6 + 2 * arr_off[k];
        w.u16(s.first as u16).u16(s.entries.len() as u16).i16(s.delta).u16(iro as u16);
    }
    for s in &subs {
        for e in &s.entries {
            w.u16(*e);
        }
    }
    let mut m = Model::new();
    let val = |s: &Sub2, low: u8| -> u16 {
        if low < s.first || (low - s.first) as usize >= s.entries.len() {
            return 0;
        }
        let e = s.entries[(low - s.first) as usize];
        if e == 0 {
            0
        } else {
            (e as i32 + s.delta as i32).rem_euclid(65536) as u16
        }
    };
    for c in 0u32..256 {
        if keys[c as usize] == 0 {
            let g = val(single, c as u8);
            if g != 0 {
                m.insert(c, g);
            }
        }
    }
    for (lead, s) in leads {
        for low in 0u32..256 {
            let g = val(s, low as u8);
            if g != 0 {
                m.insert(((*lead as u32) << 8) | low, g);
            }
        }
    }
    (w.done(), m)
}

/// Which codes are *valid* character codes for a format 2 subtable built by `fmt2` (one-byte codes that
/// are not lead bytes; two-byte codes whose first byte is a lead byte).
pub fn fmt2_valid_code(leads: &[(u8, Sub2)], c: u32) -> bool {
    if c < 256 {
        !leads.iter().any(|l| l.0 as u32 == c)
    } else if c <= 0xFFFF {
        leads.iter().any(|l| l.0 as u32 == (c >> 8))
    } else {
        true // codes above 16 bits cannot be mapped by this format: expected unmapped
    }
}

// ---------------------------------------------------------------------------------------- Mac Roman
/// Mac OS Roman 0x80..0xFF per Apple's ROMAN.TXT (0xDB is the euro sign since Mac OS 8.5).
pub const MAC_ROMAN_HIGH: [u32; 128] = [
    0x00C4, 0x00C5, 0x00C7, 0x00C9, 0x00D1, 0x00D6, 0x00DC, 0x00E1, 0x00E0, 0x00E2, 0x00E4, 0x00E3, 0x00E5, 0x00E7, 0x00E9, 0x00E8,
    0x00EA, 0x00EB, 0x00ED, 0x00EC, 0x00EE, 0x00EF, 0x00F1, 0x00F3, 0x00F2, 0x00F4, 0x00F6, 0x00F5, 0x00FA, 0x00F9, 0x00FB, 0x00FC,
    0x2020, 0x00B0, 0x00A2, 0x00A3, 0x00A7, 0x2022, 0x00B6, 0x00DF, 0x00AE, 0x00A9, 0x2122, 0x00B4, 0x00A8, 0x2260, 0x00C6, 0x00D8,
    0x221E, 0x00B1, 0x2264, 0x2265, 0x00A5, 0x00B5, 0x2202, 0x2211, 0x220F, 0x03C0, 0x222B, 0x00AA, 0x00BA, 0x03A9, 0x00E6, 0x00F8,
    0x00BF, 0x00A1, 0x00AC, 0x221A, 0x0192, 0x2248, 0x2206, 0x00AB, 0x00BB, 0x2026, 0x00A0, 0x00C0, 0x00C3, 0x00D5, 0x0152, 0x0153,
    0x2013, 0x2014, 0x201C, 0x201D, 0x2018, 0x2019, 0x00F7, 0x25CA, 0x00FF, 0x0178, 0x2044, 0x20AC, 0x2039, 0x203A, 0xFB01, 0xFB02,
    0x2021, 0x00B7, 0x201A, 0x201E, 0x2030, 0x00C2, 0x00CA, 0x00C1, 0x00CB, 0x00C8, 0x00CD, 0x00CE, 0x00CF, 0x00CC, 0x00D3, 0x00D4,
    0xF8FF, 0x00D2, 0x00DA, 0x00DB, 0x00D9, 0x0131, 0x02C6, 0x02DC, 0x00AF, 0x02D8, 0x02D9, 0x02DA, 0x00B8, 0x02DD, 0x02DB, 0x02C7,
];

#[cfg(test)]
mod tests {
    use super::*;
    #[test]
    fn fmt4_shape() {
        let (b, m) = fmt4(
            &[
                Seg4::Delta { start: 0x41, end: 0x43, delta: -0x40 },
                Seg4::Array { start: 0x50, end: 0x51, delta: 5, entries: vec![0, 7] },
            ],
            Term4::Standard,
        );
        assert_eq!(u16::from_be_bytes([b[2], b[3]]) as usize, b.len());
        assert_eq!(m.get(&0x41), Some(&1));
        assert_eq!(m.get(&0x50), None);
        assert_eq!(m.get(&0x51), Some(&12));
    }
}
