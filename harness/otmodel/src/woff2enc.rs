//! Independent WOFF2 *encoder* written from the W3C WOFF File Format 2.0 recommendation, together
//! with a small TrueType outline model (glyph -> `glyf` bytes, `glyf` bytes -> glyph) that serves
//! as the reference for what a decoder has to reconstruct. Nothing here depends on allsorts.
//!
//! Coverage of the recommendation:
//! * section 4.1 header, 4.2 table directory (known-tag index / explicit tag, transform version bits,
//!   origLength / transformLength as UIntBase128), 4.3 collection directory,
//! * section 5 compressed data stream. No brotli compressor is available offline, therefore the
//!   stream is written with *uncompressed meta-blocks* (RFC 7932 section 9.2): every decoder path behind
//!   the decompressor is reached regardless of how well the stream is compressed,
//! * section 5.1 transformed glyf (seven sub-streams, bbox bitmap, optional overlapSimpleBitmap),
//!   5.2 triplet encoding with a free choice of the table row, 5.3 transformed loca, 5.4 transformed hmtx,
//! * section 6 data types 255UInt16 (every alternative encoding) and UIntBase128.

use crate::be::{R, W};
use crate::tag;

pub const WOF2: u32 = tag(b"wOF2");
pub const TTCF: u32 = tag(b"ttcf");
pub const GLYF: u32 = tag(b"glyf");
pub const LOCA: u32 = tag(b"loca");
pub const HMTX: u32 = tag(b"hmtx");
pub const HEAD: u32 = tag(b"head");

// ------------------------------------------------------------------------------------------------
// section 6: data types

/// Every valid 255UInt16 encoding of `v`, shortest first (section 6.1.1: a decoder MUST accept all).
///   v < 253          : [v]
///   253 <= v <= 508  : [255, v - 253]          (oneMoreByteCode1, lowestUCode = 253)
///   506 <= v <= 761  : [254, v - 506]          (oneMoreByteCode2, lowestUCode * 2)
///   any v            : [253, hi, lo]           (wordCode)
pub fn enc_255_all(v: u16) -> Vec<Vec<u8>> {
    let mut out = Vec::new();
    if v < 253 {
        out.push(vec![v as u8]);
    }
    if (253..=508).contains(&v) {
        out.push(vec![255, (v - 253) as u8]);
    }
    if (506..=761).contains(&v) {
        out.push(vec![254, (v - 506) as u8]);
    }
    out.push(vec![253, (v >> 8) as u8, v as u8]);
    out
}

/// How an encoder picks among the alternatives (an encoder has to be consistent per value).
#[derive(Clone, Copy, Debug, PartialEq, Eq)]
pub enum U255Mode {
    /// first (shortest, lowest code) alternative
    Shortest,
    /// always the three byte word code
    Word,
    /// the last of the short alternatives (differs from Shortest only for 506..=508), else shortest
    AltShort,
}

pub const U255_MODES: [U255Mode; 3] = [U255Mode::Shortest, U255Mode::Word, U255Mode::AltShort];

pub fn write_255(out: &mut Vec<u8>, v: u16, mode: U255Mode) {
    let all = enc_255_all(v);
    let pick = match mode {
        U255Mode::Shortest => &all[0],
        U255Mode::Word => all.last().unwrap(),
        U255Mode::AltShort => {
            if all.len() >= 3 {
                &all[all.len() - 2]
            } else {
                &all[0]
            }
        }
    };
    out.extend_from_slice(pick);
}

/// UIntBase128 (section 6.1.2): big-endian base 128, no leading zero groups, at most five bytes.
pub fn enc_base128(v: u32) -> Vec<u8> {
    let mut groups = vec![(v & 0x7f) as u8];
    let mut x = v >> 7;
    while x != 0 {
        groups.push((x & 0x7f) as u8 | 0x80);
        x >>= 7;
    }
    groups.reverse();
    groups
}

/// Reference decoder for UIntBase128 byte strings (used for the direct reader check):
/// Ok((value, bytes consumed)) or Err(reason) for the rejections the recommendation mandates.
pub fn dec_base128(b: &[u8]) -> Result<(u32, usize), &'static str> {
    let mut acc: u32 = 0;
    for i in 0..5 {
        let byte = *b.get(i).ok_or("truncated")?;
        if i == 0 && byte == 0x80 {
            return Err("leading zero");
        }
        if acc & 0xFE00_0000 != 0 {
            return Err("overflow");
        }
        acc = (acc << 7) | (byte & 0x7f) as u32;
        if byte & 0x80 == 0 {
            return Ok((acc, i + 1));
        }
    }
    Err("longer than five bytes")
}

// ------------------------------------------------------------------------------------------------
// section 5 / RFC 7932: stored-block brotli stream

struct BitW {
    out: Vec<u8>,
    acc: u32,
    n: u32,
}

impl BitW {
    fn bits(&mut self, v: u32, n: u32) {
        // brotli packs bits least significant first
        for i in 0..n {
            self.acc |= ((v >> i) & 1) << self.n;
            self.n += 1;
            if self.n == 8 {
                self.out.push(self.acc as u8);
                self.acc = 0;
                self.n = 0;
            }
        }
    }
    fn align(&mut self) {
        if self.n > 0 {
            self.out.push(self.acc as u8);
            self.acc = 0;
            self.n = 0;
        }
    }
}

/// A valid brotli stream that stores `data` in uncompressed meta-blocks of at most 65536 bytes.
pub fn brotli_stored(data: &[u8]) -> Vec<u8> {
    let mut w = BitW { out: Vec::with_capacity(data.len() + data.len() / 65536 * 4 + 8), acc: 0, n: 0 };
    w.bits(0, 1); // WBITS = 16
    for chunk in data.chunks(65536) {
        w.bits(0, 1); // ISLAST = 0
        w.bits(0, 2); // MNIBBLES = 4
        w.bits(chunk.len() as u32 - 1, 16); // MLEN - 1
        w.bits(1, 1); // ISUNCOMPRESSED
        w.align();
        w.out.extend_from_slice(chunk);
    }
    w.bits(1, 1); // ISLAST
    w.bits(1, 1); // ISLASTEMPTY
    w.align();
    w.out
}

// ------------------------------------------------------------------------------------------------
// section 5.2: triplet encoding

#[derive(Clone, Copy, Debug, PartialEq, Eq)]
pub struct Row {
    /// number of data bytes that follow the flag (the table's "byte count" minus the flag byte)
    pub nbytes: u8,
    pub xbits: u8,
    pub ybits: u8,
    pub dx0: u16,
    pub dy0: u16,
    pub xneg: bool,
    pub yneg: bool,
}

/// Row `i` (0..128) of the triplet table of section 5.2, generated from the structure of that table:
///   0..10    x = 0, 8 bits of y, delta y in {0,256,..,1024}, sign of y alternates -,+
///   10..20   y = 0, 8 bits of x, delta x in {0,256,..,1024}, sign of x alternates -,+
///   20..84   4+4 bits, delta x and delta y in {1,17,33,49}, signs (-,-) (+,-) (-,+) (+,+)
///   84..120  8+8 bits, delta x and delta y in {1,257,513}, same sign order
///   120..124 12+12 bits, no deltas
///   124..128 16+16 bits, no deltas
pub fn row(i: usize) -> Row {
    assert!(i < 128);
    if i < 10 {
        Row { nbytes: 1, xbits: 0, ybits: 8, dx0: 0, dy0: (i as u16 / 2) * 256, xneg: false, yneg: i % 2 == 0 }
    } else if i < 20 {
        let k = i - 10;
        Row { nbytes: 1, xbits: 8, ybits: 0, dx0: (k as u16 / 2) * 256, dy0: 0, xneg: k % 2 == 0, yneg: false }
    } else if i < 84 {
        let k = i - 20;
        let s = k % 4;
        let yi = (k / 4) % 4;
        let xi = k / 16;
        Row { nbytes: 1, xbits: 4, ybits: 4, dx0: 1 + 16 * xi as u16, dy0: 1 + 16 * yi as u16, xneg: s % 2 == 0, yneg: s < 2 }
    } else if i < 120 {
        let k = i - 84;
        let s = k % 4;
        let yi = (k / 4) % 3;
        let xi = k / 12;
        Row { nbytes: 2, xbits: 8, ybits: 8, dx0: 1 + 256 * xi as u16, dy0: 1 + 256 * yi as u16, xneg: s % 2 == 0, yneg: s < 2 }
    } else if i < 124 {
        let s = i - 120;
        Row { nbytes: 3, xbits: 12, ybits: 12, dx0: 0, dy0: 0, xneg: s % 2 == 0, yneg: s < 2 }
    } else {
        let s = i - 124;
        Row { nbytes: 4, xbits: 16, ybits: 16, dx0: 0, dy0: 0, xneg: s % 2 == 0, yneg: s < 2 }
    }
}

fn axis_fits(d: i32, bits: u8, d0: u16, neg: bool) -> bool {
    let m = d.unsigned_abs() as i64;
    if d != 0 && (d < 0) != neg {
        return false;
    }
    let lo = d0 as i64;
    let hi = lo + (1i64 << bits) - 1;
    m >= lo && m <= hi
}

/// Can row `r` represent the delta (dx, dy)? A zero component carries no sign, so it fits rows of either sign.
pub fn row_admits(r: &Row, dx: i32, dy: i32) -> bool {
    axis_fits(dx, r.xbits, r.dx0, r.xneg) && axis_fits(dy, r.ybits, r.dy0, r.yneg)
}

/// All rows that can represent (dx, dy), ascending.
pub fn admissible_rows(dx: i32, dy: i32) -> Vec<u8> {
    (0..128usize).filter(|&i| row_admits(&row(i), dx, dy)).map(|i| i as u8).collect()
}

/// The data bytes of (dx, dy) in row `ri`: x bits then y bits, most significant first.
pub fn triplet_bytes(ri: u8, dx: i32, dy: i32) -> Vec<u8> {
    let r = row(ri as usize);
    assert!(row_admits(&r, dx, dy), "row {} does not admit ({}, {})", ri, dx, dy);
    let xv = dx.unsigned_abs() as u64 - r.dx0 as u64;
    let yv = dy.unsigned_abs() as u64 - r.dy0 as u64;
    let v = (xv << r.ybits) | yv;
    (0..r.nbytes).rev().map(|k| (v >> (8 * k as u32)) as u8).collect()
}

// ------------------------------------------------------------------------------------------------
// outline model

/// A difference of two int16 coordinates (-65535..=65535) as the int16 value a `glyf` table stores for it: TrueType
/// coordinate arithmetic is modulo 2^16, a step of +40000 is stored as -25536 and the reader's wrapping sum restores it.
pub fn wrap16(d: i32) -> i32 {
    (d + 32768).rem_euclid(65536) - 32768
}

#[derive(Clone, Copy, Debug, PartialEq, Eq)]
pub struct Pt {
    pub x: i16,
    pub y: i16,
    pub on: bool,
}

#[derive(Clone, Copy, Debug, PartialEq, Eq)]
pub enum Args {
    /// ARGS_ARE_XY_VALUES, bytes
    Xy8(i8, i8),
    /// ARGS_ARE_XY_VALUES | ARG_1_AND_2_ARE_WORDS
    Xy16(i16, i16),
    /// point numbers, bytes
    Pt8(u8, u8),
    /// point numbers, words
    Pt16(u16, u16),
}

#[derive(Clone, Copy, Debug, PartialEq, Eq)]
pub enum Scale {
    None,
    /// WE_HAVE_A_SCALE (F2Dot14 raw)
    One(i16),
    /// WE_HAVE_AN_X_AND_Y_SCALE
    Two(i16, i16),
    /// WE_HAVE_A_TWO_BY_TWO
    Four([i16; 4]),
}

pub const ARG_1_AND_2_ARE_WORDS: u16 = 0x0001;
pub const ARGS_ARE_XY_VALUES: u16 = 0x0002;
pub const ROUND_XY_TO_GRID: u16 = 0x0004;
pub const WE_HAVE_A_SCALE: u16 = 0x0008;
pub const MORE_COMPONENTS: u16 = 0x0020;
pub const WE_HAVE_AN_X_AND_Y_SCALE: u16 = 0x0040;
pub const WE_HAVE_A_TWO_BY_TWO: u16 = 0x0080;
pub const WE_HAVE_INSTRUCTIONS: u16 = 0x0100;
pub const USE_MY_METRICS: u16 = 0x0200;
pub const OVERLAP_COMPOUND: u16 = 0x0400;
pub const SCALED_COMPONENT_OFFSET: u16 = 0x0800;
pub const UNSCALED_COMPONENT_OFFSET: u16 = 0x1000;
/// flag bits whose value follows from the rest of the component record
/// (WE_HAVE_INSTRUCTIONS is *not* structural: which components carry it is the font's choice, see `Glyph::Composite`)
pub const STRUCTURAL: u16 = ARG_1_AND_2_ARE_WORDS | ARGS_ARE_XY_VALUES | WE_HAVE_A_SCALE | MORE_COMPONENTS | WE_HAVE_AN_X_AND_Y_SCALE | WE_HAVE_A_TWO_BY_TWO;

#[derive(Clone, Debug, PartialEq, Eq)]
pub struct Component {
    /// the non-structural flag bits (ROUND_XY_TO_GRID, USE_MY_METRICS, OVERLAP_COMPOUND, (UN)SCALED_COMPONENT_OFFSET and
    /// WE_HAVE_INSTRUCTIONS)
    pub extra_flags: u16,
    pub gid: u16,
    pub args: Args,
    pub scale: Scale,
}

/// bounding box in file order: xMin, yMin, xMax, yMax
pub type BBox = [i16; 4];

#[derive(Clone, Debug, PartialEq, Eq)]
pub enum Glyph {
    Empty,
    Simple { bbox: BBox, contours: Vec<Vec<Pt>>, instr: Vec<u8>, overlap: bool },
    /// `instr`: Some(..) <=> at least one component carries WE_HAVE_INSTRUCTIONS in its `extra_flags` (OpenType: the
    /// instructions follow the last component; WOFF2 5.1: "if any of the components has WE_HAVE_INSTRUCTIONS").
    /// Which components carry the bit is part of the model and has to survive. Use `Glyph::composite` to build one.
    Composite { bbox: BBox, comps: Vec<Component>, instr: Option<Vec<u8>> },
}

pub fn tight_bbox(contours: &[Vec<Pt>]) -> BBox {
    let mut it = contours.iter().flatten();
    let p = it.next().expect("tight_bbox of a glyph without points");
    let mut b = [p.x, p.y, p.x, p.y];
    for p in it {
        b[0] = b[0].min(p.x);
        b[1] = b[1].min(p.y);
        b[2] = b[2].max(p.x);
        b[3] = b[3].max(p.y);
    }
    b
}

impl Glyph {
    pub fn simple(contours: Vec<Vec<Pt>>, instr: Vec<u8>) -> Glyph {
        let bbox = tight_bbox(&contours);
        Glyph::Simple { bbox, contours, instr, overlap: false }
    }
    /// A composite glyph; when `instr` is given and no component carries WE_HAVE_INSTRUCTIONS yet, the bit is set on
    /// the last component (the usual placement).
    pub fn composite(bbox: BBox, mut comps: Vec<Component>, instr: Option<Vec<u8>>) -> Glyph {
        if instr.is_some() && !comps.iter().any(|c| c.extra_flags & WE_HAVE_INSTRUCTIONS != 0) {
            comps.last_mut().expect("composite without components").extra_flags |= WE_HAVE_INSTRUCTIONS;
        }
        let g = Glyph::Composite { bbox, comps, instr };
        g.check_composite();
        g
    }
    fn check_composite(&self) {
        if let Glyph::Composite { comps, instr, .. } = self {
            assert_eq!(instr.is_some(), comps.iter().any(|c| c.extra_flags & WE_HAVE_INSTRUCTIONS != 0), "model composite: instructions <=> some component has WE_HAVE_INSTRUCTIONS");
        }
    }
    pub fn bbox(&self) -> Option<BBox> {
        match self {
            Glyph::Empty => None,
            Glyph::Simple { bbox, .. } | Glyph::Composite { bbox, .. } => Some(*bbox),
        }
    }
    /// xMin as the hmtx transform uses it (0 for an empty glyph)
    pub fn x_min(&self) -> i16 {
        self.bbox().map_or(0, |b| b[0])
    }
    pub fn n_points(&self) -> usize {
        match self {
            Glyph::Simple { contours, .. } => contours.iter().map(|c| c.len()).sum(),
            _ => 0,
        }
    }
    /// May an encoder leave the bounding box to be computed by the decoder?
    pub fn bbox_is_tight(&self) -> bool {
        match self {
            Glyph::Simple { bbox, contours, .. } => *bbox == tight_bbox(contours),
            _ => false,
        }
    }
}

fn component_flags(c: &Component, more: bool) -> u16 {
    let mut f = c.extra_flags & !STRUCTURAL;
    match c.args {
        Args::Xy8(..) => f |= ARGS_ARE_XY_VALUES,
        Args::Xy16(..) => f |= ARGS_ARE_XY_VALUES | ARG_1_AND_2_ARE_WORDS,
        Args::Pt8(..) => {}
        Args::Pt16(..) => f |= ARG_1_AND_2_ARE_WORDS,
    }
    match c.scale {
        Scale::None => {}
        Scale::One(_) => f |= WE_HAVE_A_SCALE,
        Scale::Two(..) => f |= WE_HAVE_AN_X_AND_Y_SCALE,
        Scale::Four(_) => f |= WE_HAVE_A_TWO_BY_TWO,
    }
    if more {
        f |= MORE_COMPONENTS;
    }
    f
}

/// Component records exactly as they appear both in `glyf` and in the WOFF2 composite stream.
pub fn components_bytes(comps: &[Component]) -> Vec<u8> {
    let mut w = W::new();
    for (i, c) in comps.iter().enumerate() {
        let last = i + 1 == comps.len();
        w.u16(component_flags(c, !last));
        w.u16(c.gid);
        match c.args {
            Args::Xy8(a, b) => {
                w.i8(a).i8(b);
            }
            Args::Xy16(a, b) => {
                w.i16(a).i16(b);
            }
            Args::Pt8(a, b) => {
                w.u8(a).u8(b);
            }
            Args::Pt16(a, b) => {
                w.u16(a).u16(b);
            }
        }
        match c.scale {
            Scale::None => {}
            Scale::One(a) => {
                w.i16(a);
            }
            Scale::Two(a, b) => {
                w.i16(a).i16(b);
            }
            Scale::Four(m) => {
                for v in m {
                    w.i16(v);
                }
            }
        }
    }
    w.done()
}

/// One `glyf` record in the usual compact TrueType form (short vectors, "same" bits, repeat counts).
pub fn glyph_to_ttf(g: &Glyph) -> Vec<u8> {
    let mut w = W::new();
    match g {
        Glyph::Empty => {}
        Glyph::Simple { bbox, contours, instr, overlap } => {
            w.i16(contours.len() as i16);
            for v in bbox {
                w.i16(*v);
            }
            let mut end = 0usize;
            for c in contours {
                end += c.len();
                w.u16((end - 1) as u16);
            }
            w.u16(instr.len() as u16);
            w.bytes(instr);
            let pts: Vec<Pt> = contours.iter().flatten().copied().collect();
            let mut flags: Vec<u8> = Vec::new();
            let mut xs = W::new();
            let mut ys = W::new();
            let (mut px, mut py) = (0i32, 0i32);
            for (i, p) in pts.iter().enumerate() {
                let mut f = if p.on { 1u8 } else { 0 };
                if i == 0 && *overlap {
                    f |= 0x40;
                }
                // steps wider than int16 are stored modulo 2^16
                let dx = wrap16(p.x as i32 - px);
                let dy = wrap16(p.y as i32 - py);
                if dx == 0 {
                    f |= 0x10;
                } else if dx.abs() <= 255 {
                    f |= 0x02;
                    if dx > 0 {
                        f |= 0x10;
                    }
                    xs.u8(dx.unsigned_abs() as u8);
                } else {
                    xs.i16(dx as i16);
                }
                if dy == 0 {
                    f |= 0x20;
                } else if dy.abs() <= 255 {
                    f |= 0x04;
                    if dy > 0 {
                        f |= 0x20;
                    }
                    ys.u8(dy.unsigned_abs() as u8);
                } else {
                    ys.i16(dy as i16);
                }
                flags.push(f);
                px = p.x as i32;
                py = p.y as i32;
            }
            let mut i = 0;
            while i < flags.len() {
                let f = flags[i];
                let mut run = 1;
                while i + run < flags.len() && flags[i + run] == f && run < 256 {
                    run += 1;
                }
                if run >= 3 {
                    w.u8(f | 0x08).u8((run - 1) as u8);
                } else {
                    for _ in 0..run {
                        w.u8(f);
                    }
                }
                i += run;
            }
            w.bytes(&xs.b);
            w.bytes(&ys.b);
        }
        Glyph::Composite { bbox, comps, instr } => {
            w.i16(-1);
            for v in bbox {
                w.i16(*v);
            }
            g.check_composite();
            w.bytes(&components_bytes(comps));
            if let Some(ins) = instr {
                w.u16(ins.len() as u16);
                w.bytes(ins);
            }
        }
    }
    w.done()
}

/// `glyf` and `loca` of the original font. Records are padded to 2 bytes (short) / 4 bytes (long).
pub fn build_glyf_loca(glyphs: &[Glyph], long: bool) -> (Vec<u8>, Vec<u8>) {
    let mut glyf = W::new();
    let mut loca = W::new();
    for g in glyphs {
        if long {
            loca.u32(glyf.len() as u32);
        } else {
            assert!(glyf.len() / 2 <= 0xFFFF, "glyf too large for the short loca format");
            loca.u16((glyf.len() / 2) as u16);
        }
        glyf.bytes(&glyph_to_ttf(g));
        glyf.pad_to(if long { 4 } else { 2 });
    }
    if long {
        loca.u32(glyf.len() as u32);
    } else {
        assert!(glyf.len() / 2 <= 0xFFFF, "glyf too large for the short loca format");
        loca.u16((glyf.len() / 2) as u16);
    }
    (glyf.done(), loca.done())
}

/// Independent parser of one `glyf` record (OpenType `glyf` chapter). A zero length record is `Empty`;
/// a record with numberOfContours = 0 is `Empty` as well.
pub fn parse_glyph(d: &[u8]) -> Result<Glyph, String> {
    if d.is_empty() {
        return Ok(Glyph::Empty);
    }
    let e = |s: &str| s.to_string();
    let mut r = R::new(d);
    let nc = r.i16().ok_or_else(|| e("truncated header"))?;
    let mut bbox = [0i16; 4];
    for b in bbox.iter_mut() {
        *b = r.i16().ok_or_else(|| e("truncated bbox"))?;
    }
    if nc == 0 {
        return Ok(Glyph::Empty);
    }
    if nc > 0 {
        let mut ends = Vec::new();
        for _ in 0..nc {
            ends.push(r.u16().ok_or_else(|| e("truncated endPts"))? as usize);
        }
        for w in ends.windows(2) {
            if w[1] <= w[0] {
                return Err(format!("endPtsOfContours not increasing: {:?}", ends));
            }
        }
        let npts = ends.last().unwrap() + 1;
        let il = r.u16().ok_or_else(|| e("truncated instructionLength"))? as usize;
        let instr = r.take(il).ok_or_else(|| e("truncated instructions"))?.to_vec();
        let mut flags = Vec::with_capacity(npts);
        while flags.len() < npts {
            let f = r.u8().ok_or_else(|| e("truncated flags"))?;
            flags.push(f);
            if f & 8 != 0 {
                let n = r.u8().ok_or_else(|| e("truncated repeat count"))?;
                for _ in 0..n {
                    flags.push(f);
                }
            }
        }
        if flags.len() != npts {
            return Err(e("repeat count runs past the last point"));
        }
        let mut xs = Vec::with_capacity(npts);
        let mut x = 0i32;
        for f in &flags {
            if f & 2 != 0 {
                let v = r.u8().ok_or_else(|| e("truncated x"))? as i32;
                x += if f & 0x10 != 0 { v } else { -v };
            } else if f & 0x10 == 0 {
                x += r.i16().ok_or_else(|| e("truncated x"))? as i32;
            }
            x = wrap16(x);
            xs.push(x);
        }
        let mut pts = Vec::with_capacity(npts);
        let mut y = 0i32;
        for (i, f) in flags.iter().enumerate() {
            if f & 4 != 0 {
                let v = r.u8().ok_or_else(|| e("truncated y"))? as i32;
                y += if f & 0x20 != 0 { v } else { -v };
            } else if f & 0x20 == 0 {
                y += r.i16().ok_or_else(|| e("truncated y"))? as i32;
            }
            // the running sums are int16 sums (modulo 2^16)
            y = wrap16(y);
            pts.push(Pt { x: wrap16(xs[i]) as i16, y: y as i16, on: f & 1 != 0 });
        }
        let mut contours = Vec::new();
        let mut s = 0;
        for en in ends {
            contours.push(pts[s..=en].to_vec());
            s = en + 1;
        }
        Ok(Glyph::Simple { bbox, contours, instr, overlap: flags[0] & 0x40 != 0 })
    } else {
        let mut comps = Vec::new();
        let mut have_instr = false;
        loop {
            let f = r.u16().ok_or_else(|| e("truncated component flags"))?;
            let gid = r.u16().ok_or_else(|| e("truncated component glyph"))?;
            let args = match (f & ARG_1_AND_2_ARE_WORDS != 0, f & ARGS_ARE_XY_VALUES != 0) {
                (true, true) => Args::Xy16(r.i16().ok_or_else(|| e("args"))?, r.i16().ok_or_else(|| e("args"))?),
                (true, false) => Args::Pt16(r.u16().ok_or_else(|| e("args"))?, r.u16().ok_or_else(|| e("args"))?),
                (false, true) => Args::Xy8(r.i8().ok_or_else(|| e("args"))?, r.i8().ok_or_else(|| e("args"))?),
                (false, false) => Args::Pt8(r.u8().ok_or_else(|| e("args"))?, r.u8().ok_or_else(|| e("args"))?),
            };
            let scale = if f & WE_HAVE_A_SCALE != 0 {
                Scale::One(r.i16().ok_or_else(|| e("scale"))?)
            } else if f & WE_HAVE_AN_X_AND_Y_SCALE != 0 {
                Scale::Two(r.i16().ok_or_else(|| e("scale"))?, r.i16().ok_or_else(|| e("scale"))?)
            } else if f & WE_HAVE_A_TWO_BY_TWO != 0 {
                let mut m = [0i16; 4];
                for v in m.iter_mut() {
                    *v = r.i16().ok_or_else(|| e("scale"))?;
                }
                Scale::Four(m)
            } else {
                Scale::None
            };
            comps.push(Component { extra_flags: f & !STRUCTURAL, gid, args, scale });
            if f & WE_HAVE_INSTRUCTIONS != 0 {
                have_instr = true;
            }
            if f & MORE_COMPONENTS == 0 {
                break;
            }
        }
        let instr = if have_instr {
            let n = r.u16().ok_or_else(|| e("truncated composite instructionLength"))? as usize;
            Some(r.take(n).ok_or_else(|| e("truncated composite instructions"))?.to_vec())
        } else {
            None
        };
        Ok(Glyph::Composite { bbox, comps, instr })
    }
}

// ------------------------------------------------------------------------------------------------
// section 5.1: transformed glyf

#[derive(Clone, Debug)]
pub struct GlyfChoices {
    /// (glyph, point index within the glyph) -> table row to use; every other point uses `default_row`
    pub rows: Vec<(usize, usize, u8)>,
    /// which of the admissible rows a point without an entry in `rows` gets: 0 = first (lowest index),
    /// 1 = last (highest index, i.e. the widest encoding)
    pub default_row: u8,
    /// per glyph: write an explicit bounding box although the decoder could compute it
    /// (ignored for glyphs that need one anyway)
    pub explicit_bbox: Vec<bool>,
    pub u255: U255Mode,
    pub index_format: u16,
    /// write optionFlags bit 0 and the overlapSimpleBitmap (forced on when a glyph has the overlap bit)
    pub overlap_bitmap: bool,
    /// a step between consecutive points that does not fit int16 (magnitude above 32767, e.g. x = -20000 -> 20000) is
    /// written false: as the true difference (+40000, 16-bit rows 124..128), true: as the wrapped int16 delta the
    /// `glyf` table holds (-25536); a decoder that sums modulo 2^16 restores the same point from either
    pub wrap_deltas: bool,
}

impl GlyfChoices {
    pub fn plain(index_format: u16) -> GlyfChoices {
        GlyfChoices { rows: Vec::new(), default_row: 0, explicit_bbox: Vec::new(), u255: U255Mode::Shortest, index_format, overlap_bitmap: false, wrap_deltas: false }
    }
}

/// The transformed glyf table of section 5.1. Returns the bytes and, per glyph, whether its bounding
/// box was written explicitly.
pub fn transform_glyf(glyphs: &[Glyph], ch: &GlyfChoices) -> (Vec<u8>, Vec<bool>) {
    let n = glyphs.len();
    let mut ncontour = W::new();
    let mut npoints: Vec<u8> = Vec::new();
    let mut flags: Vec<u8> = Vec::new();
    let mut glyph_stream: Vec<u8> = Vec::new();
    let mut composite = W::new();
    let mut bitmap = vec![0u8; 4 * ((n + 31) / 32)];
    let mut bbox_stream = W::new();
    let mut instr_stream: Vec<u8> = Vec::new();
    let mut overlap_bits = vec![0u8; (n + 7) >> 3];
    let mut any_overlap = false;
    let mut explicit = vec![false; n];
    for (gi, g) in glyphs.iter().enumerate() {
        match g {
            Glyph::Empty => {
                ncontour.i16(0);
            }
            Glyph::Simple { bbox, contours, instr, overlap } => {
                ncontour.i16(contours.len() as i16);
                for c in contours {
                    write_255(&mut npoints, c.len() as u16, ch.u255);
                }
                let (mut px, mut py) = (0i32, 0i32);
                for (pi, p) in contours.iter().flatten().enumerate() {
                    let (mut dx, mut dy) = (p.x as i32 - px, p.y as i32 - py);
                    if ch.wrap_deltas {
                        dx = wrap16(dx);
                        dy = wrap16(dy);
                    }
                    let ri = match ch.rows.iter().find(|e| e.0 == gi && e.1 == pi) {
                        Some(e) => e.2,
                        None => {
                            let adm = admissible_rows(dx, dy);
                            if ch.default_row == 0 {
                                adm[0]
                            } else {
                                *adm.last().unwrap()
                            }
                        }
                    };
                    flags.push(ri | if p.on { 0 } else { 0x80 });
                    glyph_stream.extend_from_slice(&triplet_bytes(ri, dx, dy));
                    px = p.x as i32;
                    py = p.y as i32;
                }
                write_255(&mut glyph_stream, instr.len() as u16, ch.u255);
                instr_stream.extend_from_slice(instr);
                let want_explicit = !g.bbox_is_tight() || ch.explicit_bbox.get(gi).copied().unwrap_or(false);
                if want_explicit {
                    explicit[gi] = true;
                    bitmap[gi >> 3] |= 0x80 >> (gi & 7);
                    for v in bbox {
                        bbox_stream.i16(*v);
                    }
                }
                if *overlap {
                    any_overlap = true;
                    overlap_bits[gi >> 3] |= 0x80 >> (gi & 7);
                }
            }
            Glyph::Composite { bbox, comps, instr } => {
                ncontour.i16(-1);
                g.check_composite();
                composite.bytes(&components_bytes(comps));
                if let Some(ins) = instr {
                    write_255(&mut glyph_stream, ins.len() as u16, ch.u255);
                    instr_stream.extend_from_slice(ins);
                }
                explicit[gi] = true;
                bitmap[gi >> 3] |= 0x80 >> (gi & 7);
                for v in bbox {
                    bbox_stream.i16(*v);
                }
            }
        }
    }
    let with_overlap = any_overlap || ch.overlap_bitmap;
    let mut w = W::new();
    w.u16(0); // reserved
    w.u16(if with_overlap { 1 } else { 0 }); // optionFlags
    w.u16(n as u16);
    w.u16(ch.index_format);
    w.u32(ncontour.len() as u32);
    w.u32(npoints.len() as u32);
    w.u32(flags.len() as u32);
    w.u32(glyph_stream.len() as u32);
    w.u32(composite.len() as u32);
    w.u32((bitmap.len() + bbox_stream.len()) as u32);
    w.u32(instr_stream.len() as u32);
    w.bytes(&ncontour.b).bytes(&npoints).bytes(&flags).bytes(&glyph_stream).bytes(&composite.b);
    w.bytes(&bitmap).bytes(&bbox_stream.b).bytes(&instr_stream);
    if with_overlap {
        w.bytes(&overlap_bits);
    }
    (w.done(), explicit)
}

// ------------------------------------------------------------------------------------------------
// section 5.4: transformed hmtx

/// Which of the two side bearing arrays may be elided for these metrics and glyphs (bit 0: lsb[] of the
/// first numberOfHMetrics glyphs, bit 1: leftSideBearing[] of the remaining glyphs): an array may go only
/// if every value in it equals the glyph's xMin (0 for an empty glyph).
pub fn hmtx_elidable(metrics: &[(u16, i16)], nhm: usize, glyphs: &[Glyph]) -> u8 {
    let mut f = 0;
    if (0..nhm).all(|i| metrics[i].1 == glyphs[i].x_min()) {
        f |= 1;
    }
    if (nhm..metrics.len()).all(|i| metrics[i].1 == glyphs[i].x_min()) {
        f |= 2;
    }
    f
}

/// Transformed hmtx (version 1) with the given flags (1, 2 or 3; flags 0 is not a valid transform).
pub fn transform_hmtx(metrics: &[(u16, i16)], nhm: usize, flags: u8) -> Vec<u8> {
    assert!(flags >= 1 && flags <= 3);
    let mut w = W::new();
    w.u8(flags);
    for m in &metrics[..nhm] {
        w.u16(m.0);
    }
    if flags & 1 == 0 {
        for m in &metrics[..nhm] {
            w.i16(m.1);
        }
    }
    if flags & 2 == 0 {
        for m in &metrics[nhm..] {
            w.i16(m.1);
        }
    }
    w.done()
}

/// Plain hmtx: numberOfHMetrics long metrics, then the remaining left side bearings.
pub fn plain_hmtx(metrics: &[(u16, i16)], nhm: usize) -> Vec<u8> {
    let mut w = W::new();
    for m in &metrics[..nhm] {
        w.u16(m.0).i16(m.1);
    }
    for m in &metrics[nhm..] {
        w.i16(m.1);
    }
    w.done()
}

// ------------------------------------------------------------------------------------------------
// section 4: container

/// The 63 known tags of section 4.2, in index order.
pub const KNOWN_TAGS: [&[u8; 4]; 63] = [
    b"cmap", b"head", b"hhea", b"hmtx", b"maxp", b"name", b"OS/2", b"post", b"cvt ", b"fpgm", b"glyf", b"loca", b"prep", b"CFF ", b"VORG", b"EBDT",
    b"EBLC", b"gasp", b"hdmx", b"kern", b"LTSH", b"PCLT", b"VDMX", b"vhea", b"vmtx", b"BASE", b"GDEF", b"GPOS", b"GSUB", b"EBSC", b"JSTF", b"MATH",
    b"CBDT", b"CBLC", b"COLR", b"CPAL", b"SVG ", b"sbix", b"acnt", b"avar", b"bdat", b"bloc", b"bsln", b"cvar", b"fdsc", b"feat", b"fmtx", b"fvar",
    b"gvar", b"hsty", b"just", b"lcar", b"mort", b"morx", b"opbd", b"prop", b"trak", b"Zapf", b"Silf", b"Glat", b"Gloc", b"Feat", b"Sill",
];

pub fn known_index(t: u32) -> Option<u8> {
    KNOWN_TAGS.iter().position(|k| tag(k) == t).map(|i| i as u8)
}

/// One table as it goes into the WOFF2 file.
#[derive(Clone, Debug)]
pub struct Entry {
    pub tag: u32,
    /// the bytes stored in the compressed stream (transformed or not)
    pub stored: Vec<u8>,
    /// length of the original table
    pub orig_len: u32,
    /// transformation version bits (0..=3)
    pub version: u8,
    /// write flag value 63 followed by the tag even when the tag is a known one
    pub explicit_tag: bool,
}

impl Entry {
    pub fn plain(tag: u32, data: &[u8]) -> Entry {
        // glyf and loca: version 3 is the null transform; all other tables: version 0
        let version = if tag == GLYF || tag == LOCA { 3 } else { 0 };
        Entry { tag, stored: data.to_vec(), orig_len: data.len() as u32, version, explicit_tag: false }
    }
    pub fn is_transformed(&self) -> bool {
        if self.tag == GLYF || self.tag == LOCA {
            self.version != 3
        } else {
            self.version != 0
        }
    }
}

#[derive(Clone, Debug)]
pub struct CollectionFont {
    pub flavor: u32,
    /// indices into the table directory
    pub tables: Vec<u16>,
}

#[derive(Clone, Debug)]
pub struct Collection {
    pub version: u32,
    pub fonts: Vec<CollectionFont>,
    pub u255: U255Mode,
}

pub fn pad4(n: usize) -> usize {
    (n + 3) / 4 * 4
}

/// Assemble the file. `meta`: extended metadata (stored brotli-compressed), `private`: private data block.
pub fn build_woff2(flavor: u32, entries: &[Entry], collection: Option<&Collection>, meta: Option<&[u8]>, private: Option<&[u8]>) -> Vec<u8> {
    let mut dir = W::new();
    for e in entries {
        let idx = if e.explicit_tag { None } else { known_index(e.tag) };
        dir.u8((e.version << 6) | idx.unwrap_or(63));
        if idx.is_none() {
            dir.u32(e.tag);
        }
        dir.bytes(&enc_base128(e.orig_len));
        if e.is_transformed() {
            dir.bytes(&enc_base128(e.stored.len() as u32));
        }
    }
    let mut coll = Vec::new();
    if let Some(c) = collection {
        coll.extend_from_slice(&c.version.to_be_bytes());
        write_255(&mut coll, c.fonts.len() as u16, c.u255);
        for f in &c.fonts {
            write_255(&mut coll, f.tables.len() as u16, c.u255);
            coll.extend_from_slice(&f.flavor.to_be_bytes());
            for t in &f.tables {
                write_255(&mut coll, *t, c.u255);
            }
        }
    }
    let mut stream = Vec::new();
    for e in entries {
        stream.extend_from_slice(&e.stored);
    }
    let compressed = brotli_stored(&stream);
    // totalSfntSize: size of the uncompressed font (header, directories, padded tables)
    let total_sfnt = match collection {
        None => 12 + 16 * entries.len() + entries.iter().map(|e| pad4(e.orig_len as usize)).sum::<usize>(),
        Some(c) => {
            12 + 4 * c.fonts.len()
                + if c.version >= 0x0002_0000 { 12 } else { 0 }
                + c.fonts.iter().map(|f| 12 + 16 * f.tables.len()).sum::<usize>()
                + entries.iter().map(|e| pad4(e.orig_len as usize)).sum::<usize>()
        }
    };
    let header_len = 48;
    let mut pos = header_len + dir.len() + coll.len() + compressed.len();
    let (mut meta_off, mut meta_len, mut meta_orig) = (0usize, 0usize, 0usize);
    let mut meta_z = Vec::new();
    if let Some(m) = meta {
        pos = pad4(pos);
        meta_z = brotli_stored(m);
        meta_off = pos;
        meta_len = meta_z.len();
        meta_orig = m.len();
        pos += meta_len;
    }
    let (mut priv_off, mut priv_len) = (0usize, 0usize);
    if let Some(p) = private {
        pos = pad4(pos);
        priv_off = pos;
        priv_len = p.len();
        pos += priv_len;
    }
    // the file ends after the last block; a file without trailing blocks is padded to four bytes
    let total = if private.is_some() { pos } else { pad4(pos) };
    let mut w = W::new();
    w.u32(WOF2).u32(flavor).u32(total as u32).u16(entries.len() as u16).u16(0);
    w.u32(total_sfnt as u32).u32(compressed.len() as u32).u16(1).u16(0);
    w.u32(meta_off as u32).u32(meta_len as u32).u32(meta_orig as u32);
    w.u32(priv_off as u32).u32(priv_len as u32);
    w.bytes(&dir.b).bytes(&coll).bytes(&compressed);
    let mut out = w.done();
    if meta.is_some() {
        out.resize(meta_off, 0);
        out.extend_from_slice(&meta_z);
    }
    if let Some(p) = private {
        out.resize(priv_off, 0);
        out.extend_from_slice(p);
    }
    out.resize(total, 0);
    out
}

#[cfg(test)]
mod tests {
    use super::*;

    #[test]
    fn base128() {
        assert_eq!(enc_base128(0), vec![0]);
        assert_eq!(enc_base128(63), vec![0x3f]);
        assert_eq!(enc_base128(647), vec![0x85, 0x07]);
        assert_eq!(enc_base128(0xFFFF_FFFF), vec![0x8f, 0xff, 0xff, 0xff, 0x7f]);
        for v in [0u32, 1, 127, 128, 16383, 16384, 0x1F_FFFF, 0x20_0000, 0xFFF_FFFF, 0x1000_0000, u32::MAX] {
            let e = enc_base128(v);
            assert_eq!(dec_base128(&e), Ok((v, e.len())));
        }
        assert!(dec_base128(&[0x80, 1]).is_err());
        assert!(dec_base128(&[0xff, 0xff, 0xff, 0xff, 0x7f]).is_err());
        assert!(dec_base128(&[0x8f, 0xff, 0xff, 0xff, 0xff, 0x7f]).is_err());
    }

    #[test]
    fn u255() {
        assert_eq!(enc_255_all(506), vec![vec![255, 253], vec![254, 0], vec![253, 1, 250]]);
        assert_eq!(enc_255_all(5), vec![vec![5], vec![253, 0, 5]]);
        assert_eq!(enc_255_all(762), vec![vec![253, 2, 250]]);
    }

    #[test]
    fn rows_partition() {
        // spot values from the table in the recommendation
        assert_eq!(row(0), Row { nbytes: 1, xbits: 0, ybits: 8, dx0: 0, dy0: 0, xneg: false, yneg: true });
        assert_eq!(row(9), Row { nbytes: 1, xbits: 0, ybits: 8, dx0: 0, dy0: 1024, xneg: false, yneg: false });
        assert_eq!(row(10), Row { nbytes: 1, xbits: 8, ybits: 0, dx0: 0, dy0: 0, xneg: true, yneg: false });
        assert_eq!(row(20), Row { nbytes: 1, xbits: 4, ybits: 4, dx0: 1, dy0: 1, xneg: true, yneg: true });
        assert_eq!(row(83), Row { nbytes: 1, xbits: 4, ybits: 4, dx0: 49, dy0: 49, xneg: false, yneg: false });
        assert_eq!(row(84), Row { nbytes: 2, xbits: 8, ybits: 8, dx0: 1, dy0: 1, xneg: true, yneg: true });
        assert_eq!(row(119), Row { nbytes: 2, xbits: 8, ybits: 8, dx0: 513, dy0: 513, xneg: false, yneg: false });
        assert_eq!(row(120).nbytes, 3);
        assert_eq!(row(127), Row { nbytes: 4, xbits: 16, ybits: 16, dx0: 0, dy0: 0, xneg: false, yneg: false });
        assert_eq!(triplet_bytes(23, 3, 16), vec![0x2f]);
        assert_eq!(triplet_bytes(121, 0x123, -0x456), vec![0x12, 0x34, 0x56]);
        assert_eq!(admissible_rows(0, 0), vec![0, 1, 10, 11, 120, 121, 122, 123, 124, 125, 126, 127]);
    }

    #[test]
    fn wide_steps_wrap() {
        assert_eq!(wrap16(40000), -25536);
        assert_eq!(wrap16(-65535), 1);
        assert_eq!(wrap16(32768), -32768);
        assert_eq!(wrap16(-32768), -32768);
        let g = Glyph::simple(vec![vec![Pt { x: -20000, y: 32767, on: true }, Pt { x: 20000, y: -32768, on: false }, Pt { x: -32768, y: 32767, on: true }]], vec![]);
        assert_eq!(parse_glyph(&glyph_to_ttf(&g)), Ok(g));
        assert_eq!(admissible_rows(40000, -65535), vec![125]);
    }

    #[test]
    fn glyph_roundtrip() {
        let g = Glyph::Simple {
            bbox: [-5, -300, 700, 9],
            contours: vec![
                vec![Pt { x: 0, y: 0, on: true }, Pt { x: 700, y: 0, on: true }, Pt { x: 700, y: 0, on: true }, Pt { x: 700, y: 0, on: true }, Pt { x: -5, y: 9, on: false }],
                vec![Pt { x: 10, y: -300, on: true }],
            ],
            instr: vec![1, 2, 3],
            overlap: true,
        };
        assert_eq!(parse_glyph(&glyph_to_ttf(&g)), Ok(g));
        let c = Glyph::Composite {
            bbox: [1, 2, 3, 4],
            comps: vec![
                Component { extra_flags: ROUND_XY_TO_GRID, gid: 1, args: Args::Xy8(-3, 4), scale: Scale::None },
                Component { extra_flags: USE_MY_METRICS | WE_HAVE_INSTRUCTIONS, gid: 2, args: Args::Pt16(300, 2), scale: Scale::Four([1, 2, 3, 4]) },
            ],
            instr: Some(vec![7]),
        };
        assert_eq!(parse_glyph(&glyph_to_ttf(&c)), Ok(c));
        // the flag on the first component only: instructions still follow the last component
        let d = Glyph::Composite {
            bbox: [1, 2, 3, 4],
            comps: vec![
                Component { extra_flags: WE_HAVE_INSTRUCTIONS, gid: 1, args: Args::Xy8(0, 0), scale: Scale::None },
                Component { extra_flags: 0, gid: 2, args: Args::Xy8(1, 1), scale: Scale::None },
            ],
            instr: Some(vec![9, 9]),
        };
        let b = glyph_to_ttf(&d);
        assert_eq!(&b[10..12], &[0x01, 0x22]); // WE_HAVE_INSTRUCTIONS | MORE_COMPONENTS | ARGS_ARE_XY_VALUES
        assert_eq!(&b[16..18], &[0x00, 0x02]);
        assert_eq!(parse_glyph(&b), Ok(d));
    }
}
