//! gposenc — abstract model, binary encoders and reference semantics for GPOS, GDEF and the legacy
//! `kern` table, written from the OpenType specification (chapters "OpenType Layout Common Table
//! Formats", "GPOS", "GDEF", "kern", "OpenType Font Variations Common Table Formats").
//! Independent of allsorts.
//!
//! Part 1: offset-patching table builder, Coverage / ClassDef / Device / VariationIndex /
//!         ItemVariationStore / GDEF encoders.
//! Part 2: GPOS abstract program + encoder (lookup types 1-9).
//! Part 3: reference positioner `apply_gpos` (with deviation switches used only for attribution).
//! Part 4: `pen_positions` (anchor-coincidence form) and `pen_positions_sw` (operational form with switches).
//! Part 5: kern table model, encoder, byte-level reference decoder.
//! Part 6: minimal GSUB ligature encoder (to form a ligature in the same run).

use crate::be::{R, W};

pub type G = u16;

// =====================================================================================================
// Part 1
// =====================================================================================================

/// A table under construction: fixed part plus children referenced by 16/32-bit offsets relative to the
/// start of this table. Children are appended in registration order.
#[derive(Default)]
pub struct Tb {
    w: W,
    kids: Vec<(usize, u8, Vec<u8>)>,
}

impl Tb {
    pub fn new() -> Tb {
        Tb::default()
    }
    pub fn u16(&mut self, v: u16) -> &mut Self {
        self.w.u16(v);
        self
    }
    pub fn i16(&mut self, v: i16) -> &mut Self {
        self.w.i16(v);
        self
    }
    pub fn u32(&mut self, v: u32) -> &mut Self {
        self.w.u32(v);
        self
    }
    pub fn off16(&mut self, kid: Vec<u8>) -> &mut Self {
        self.kids.push((self.w.len(), 2, kid));
        self.w.u16(0);
        self
    }
    pub fn off16_opt(&mut self, kid: Option<Vec<u8>>) -> &mut Self {
        match kid {
            Some(k) => self.off16(k),
            None => self.u16(0),
        }
    }
    pub fn off32(&mut self, kid: Vec<u8>) -> &mut Self {
        self.kids.push((self.w.len(), 4, kid));
        self.w.u32(0);
        self
    }
    pub fn done(self) -> Vec<u8> {
        let mut w = self.w;
        for (pos, width, kid) in self.kids {
            let off = w.len();
            if width == 2 {
                assert!(off < 0x10000, "gposenc: 16-bit offset overflow");
                w.set_u16(pos, off as u16);
            } else {
                w.set_u32(pos, off as u32);
            }
            w.bytes(&kid);
        }
        w.done()
    }
}

/// Encoding choices that must not change the meaning of a table.
#[derive(Clone, Copy, Debug, PartialEq, Eq)]
pub struct Enc {
    /// Coverage format (1 = glyph list, 2 = ranges)
    pub cov_fmt: u8,
    /// ClassDef format (1 = array, 2 = ranges)
    pub class_fmt: u8,
    /// wrap every GPOS subtable in an Extension (lookup type 9)
    pub ext: bool,
}

impl Default for Enc {
    fn default() -> Self {
        Enc { cov_fmt: 1, class_fmt: 2, ext: false }
    }
}

fn sorted_unique(glyphs: &[G]) -> bool {
    glyphs.windows(2).all(|w| w[0] < w[1])
}

/// Coverage table: `glyphs` sorted ascending, unique; coverage index = position in the list.
pub fn coverage(glyphs: &[G], fmt: u8) -> Vec<u8> {
    assert!(sorted_unique(glyphs), "coverage glyphs must be sorted and unique");
    let mut w = W::new();
    if fmt == 1 {
        w.u16(1).u16(glyphs.len() as u16);
        for g in glyphs {
            w.u16(*g);
        }
    } else {
        let mut ranges: Vec<(G, G, u16)> = Vec::new();
        for (i, &g) in glyphs.iter().enumerate() {
            match ranges.last_mut() {
                Some(r) if r.1 + 1 == g => r.1 = g,
                _ => ranges.push((g, g, i as u16)),
            }
        }
        w.u16(2).u16(ranges.len() as u16);
        for r in ranges {
            w.u16(r.0).u16(r.1).u16(r.2);
        }
    }
    w.done()
}

/// ClassDef table from (glyph, class) pairs (class != 0), any order; all other glyphs are class 0.
pub fn classdef(pairs: &[(G, u16)], fmt: u8) -> Vec<u8> {
    let mut p: Vec<(G, u16)> = pairs.iter().copied().filter(|x| x.1 != 0).collect();
    p.sort();
    assert!(p.windows(2).all(|w| w[0].0 < w[1].0), "classdef: duplicate glyph");
    let mut w = W::new();
    if fmt == 1 {
        if p.is_empty() {
            w.u16(1).u16(0).u16(0);
        } else {
            let start = p[0].0;
            let end = p[p.len() - 1].0;
            w.u16(1).u16(start).u16(end - start + 1);
            for g in start..=end {
                let c = p.iter().find(|x| x.0 == g).map(|x| x.1).unwrap_or(0);
                w.u16(c);
            }
        }
    } else {
        let mut ranges: Vec<(G, G, u16)> = Vec::new();
        for &(g, c) in &p {
            match ranges.last_mut() {
                Some(r) if r.1 + 1 == g && r.2 == c => r.1 = g,
                _ => ranges.push((g, g, c)),
            }
        }
        w.u16(2).u16(ranges.len() as u16);
        for r in ranges {
            w.u16(r.0).u16(r.1).u16(r.2);
        }
    }
    w.done()
}

pub fn class_of(pairs: &[(G, u16)], g: G) -> u16 {
    pairs.iter().find(|x| x.0 == g).map(|x| x.1).unwrap_or(0)
}

fn cov_index(cov: &[G], g: G) -> Option<usize> {
    cov.iter().position(|&x| x == g)
}

/// Device table or VariationIndex table referenced from a ValueRecord or an Anchor format 3.
#[derive(Clone, Debug, PartialEq, Eq, Default)]
pub enum Dev {
    /// offset field present but NULL
    #[default]
    Null,
    /// hinting Device table: deltas for ppem sizes start..=end, delta format 1 (2 bit), 2 (4 bit), 3 (8 bit)
    Device { start: u16, end: u16, fmt: u16, deltas: Vec<i8> },
    /// VariationIndex table (delta format 0x8000) into the GDEF ItemVariationStore
    Var { outer: u16, inner: u16 },
}

impl Dev {
    pub fn encode(&self) -> Option<Vec<u8>> {
        match self {
            Dev::Null => None,
            Dev::Device { start, end, fmt, deltas } => {
                assert_eq!(deltas.len(), (*end - *start + 1) as usize);
                let bits = match fmt {
                    1 => 2,
                    2 => 4,
                    3 => 8,
                    _ => panic!("bad device delta format"),
                };
                let mut w = W::new();
                w.u16(*start).u16(*end).u16(*fmt);
                let per = 16 / bits;
                let mut i = 0;
                while i < deltas.len() {
                    let mut word: u16 = 0;
                    for k in 0..per {
                        let d = deltas.get(i + k).copied().unwrap_or(0) as i16 as u16;
                        let mask = ((1u32 << bits) - 1) as u16;
                        word |= (d & mask) << (16 - bits * (k + 1));
                    }
                    w.u16(word);
                    i += per;
                }
                Some(w.done())
            }
            Dev::Var { outer, inner } => {
                let mut w = W::new();
                w.u16(*outer).u16(*inner).u16(0x8000);
                Some(w.done())
            }
        }
    }
}

/// ItemVariationStore (format 1). Region coordinates are raw F2Dot14.
#[derive(Clone, Debug, PartialEq, Eq)]
pub struct VarStore {
    pub axis_count: u16,
    /// regions[r][axis] = (start, peak, end)
    pub regions: Vec<Vec<(i16, i16, i16)>>,
    pub data: Vec<VarData>,
}

#[derive(Clone, Debug, PartialEq, Eq)]
pub struct VarData {
    pub region_idx: Vec<u16>,
    /// number of leading int16 columns; the rest are int8
    pub word_count: u16,
    pub items: Vec<Vec<i16>>,
}

impl VarStore {
    pub fn encode(&self) -> Vec<u8> {
        let mut rl = W::new();
        rl.u16(self.axis_count).u16(self.regions.len() as u16);
        for r in &self.regions {
            assert_eq!(r.len(), self.axis_count as usize);
            for a in r {
                rl.i16(a.0).i16(a.1).i16(a.2);
            }
        }
        let mut t = Tb::new();
        t.u16(1);
        t.off32(rl.done());
        t.u16(self.data.len() as u16);
        for d in &self.data {
            let mut w = W::new();
            w.u16(d.items.len() as u16).u16(d.word_count).u16(d.region_idx.len() as u16);
            for r in &d.region_idx {
                w.u16(*r);
            }
            for row in &d.items {
                assert_eq!(row.len(), d.region_idx.len());
                for (k, v) in row.iter().enumerate() {
                    if (k as u16) < d.word_count {
                        w.i16(*v);
                    } else {
                        assert!((-128..=127).contains(v));
                        w.i8(*v as i8);
                    }
                }
            }
            t.off32(w.done());
        }
        t.done()
    }

    /// Scalar of one region for normalized coordinates (raw F2Dot14), per "Algorithm for Interpolation
    /// of Instance Values".
    pub fn scalar(&self, region: usize, coords: &[i16]) -> f64 {
        let mut s = 1.0f64;
        for (ax, &(st, pk, en)) in self.regions[region].iter().enumerate() {
            let c = coords.get(ax).copied().unwrap_or(0) as f64;
            let (st, pk, en) = (st as f64, pk as f64, en as f64);
            let a = if st > pk || pk > en {
                1.0
            } else if st < 0.0 && en > 0.0 && pk != 0.0 {
                1.0
            } else if pk == 0.0 {
                1.0
            } else if c < st || c > en {
                0.0
            } else if c == pk {
                1.0
            } else if c < pk {
                (c - st) / (pk - st)
            } else {
                (en - c) / (en - pk)
            };
            s *= a;
        }
        s
    }

    pub fn delta(&self, outer: u16, inner: u16, coords: &[i16]) -> f64 {
        let d = match self.data.get(outer as usize) {
            Some(d) => d,
            None => return 0.0,
        };
        let row = match d.items.get(inner as usize) {
            Some(r) => r,
            None => return 0.0,
        };
        let mut sum = 0.0;
        for (k, &ri) in d.region_idx.iter().enumerate() {
            sum += self.scalar(ri as usize, coords) * row[k] as f64;
        }
        sum
    }
}

/// GDEF model (glyph classes, mark attachment classes, mark glyph sets, optional variation store).
#[derive(Clone, Debug, PartialEq, Eq, Default)]
pub struct Gdef {
    pub classes: Vec<(G, u16)>,
    pub mark_attach: Vec<(G, u16)>,
    pub mark_sets: Vec<Vec<G>>,
    pub store: Option<VarStore>,
}

impl Gdef {
    /// The 8-glyph universe of C02-C05.
    pub fn universe() -> Gdef {
        Gdef {
            classes: vec![(1, 1), (2, 1), (3, 1), (4, 2), (5, 3), (6, 3)],
            mark_attach: vec![(5, 1), (6, 2)],
            mark_sets: vec![vec![5], vec![6]],
            store: None,
        }
    }
    pub fn glyph_class(&self, g: G) -> u16 {
        class_of(&self.classes, g)
    }
    pub fn is_mark(&self, g: G) -> bool {
        self.glyph_class(g) == 3
    }
    pub fn attach_class(&self, g: G) -> u16 {
        class_of(&self.mark_attach, g)
    }
    pub fn in_set(&self, set: u16, g: G) -> bool {
        self.mark_sets.get(set as usize).map_or(false, |s| s.contains(&g))
    }
    pub fn encode(&self, enc: &Enc) -> Vec<u8> {
        let minor: u16 = if self.store.is_some() { 3 } else { 2 };
        let mut t = Tb::new();
        t.u16(1).u16(minor);
        t.off16(classdef(&self.classes, enc.class_fmt));
        t.u16(0).u16(0); // attachList, ligCaretList
        t.off16(classdef(&self.mark_attach, enc.class_fmt));
        let mut ms = Tb::new();
        ms.u16(1).u16(self.mark_sets.len() as u16);
        for s in &self.mark_sets {
            ms.off32(coverage(s, enc.cov_fmt));
        }
        t.off16(ms.done());
        if let Some(s) = &self.store {
            t.off32(s.encode());
        }
        t.done()
    }
}

// =====================================================================================================
// Part 2: GPOS abstract program and encoder
// =====================================================================================================

/// ValueRecord contents; only the fields selected by the subtable's ValueFormat are encoded / applied.
/// v = [xPlacement, yPlacement, xAdvance, yAdvance]; dev = the four device / VariationIndex offsets.
#[derive(Clone, Debug, PartialEq, Eq, Default)]
pub struct Value {
    pub v: [i16; 4],
    pub dev: [Dev; 4],
}

impl Value {
    pub fn new(v: [i16; 4]) -> Value {
        Value { v, dev: Default::default() }
    }
}

fn put_value(t: &mut Tb, fmt: u16, val: &Value) {
    for i in 0..4 {
        if fmt & (1 << i) != 0 {
            t.i16(val.v[i]);
        }
    }
    for i in 0..4 {
        if fmt & (0x10 << i) != 0 {
            t.off16_opt(val.dev[i].encode());
        }
    }
}

#[derive(Clone, Debug, PartialEq, Eq)]
pub enum AnchorFmt {
    F1,
    F2(u16),
    F3(Dev, Dev),
}

#[derive(Clone, Debug, PartialEq, Eq)]
pub struct Anchor {
    pub x: i16,
    pub y: i16,
    pub fmt: AnchorFmt,
}

impl Anchor {
    pub fn encode(&self) -> Vec<u8> {
        let mut t = Tb::new();
        match &self.fmt {
            AnchorFmt::F1 => {
                t.u16(1).i16(self.x).i16(self.y);
            }
            AnchorFmt::F2(p) => {
                t.u16(2).i16(self.x).i16(self.y).u16(*p);
            }
            AnchorFmt::F3(dx, dy) => {
                t.u16(3).i16(self.x).i16(self.y);
                t.off16_opt(dx.encode());
                t.off16_opt(dy.encode());
            }
        }
        t.done()
    }
}

/// (sequenceIndex, lookupListIndex)
pub type SeqLookup = (u16, u16);

#[derive(Clone, Debug, PartialEq, Eq)]
pub struct Rule {
    /// input sequence *after* the first glyph (glyph ids or class values)
    pub input: Vec<u16>,
    pub records: Vec<SeqLookup>,
}

#[derive(Clone, Debug, PartialEq, Eq)]
pub struct ChainRule {
    /// backtrack in table order (closest glyph first)
    pub backtrack: Vec<u16>,
    pub input: Vec<u16>,
    pub lookahead: Vec<u16>,
    pub records: Vec<SeqLookup>,
}

#[derive(Clone, Debug, PartialEq, Eq)]
pub enum Subtable {
    Single1 { cov: Vec<G>, fmt: u16, value: Value },
    Single2 { cov: Vec<G>, fmt: u16, values: Vec<Value> },
    /// sets[coverage index] = pair value records sorted by second glyph
    Pair1 { cov: Vec<G>, fmt1: u16, fmt2: u16, sets: Vec<Vec<(G, Value, Value)>> },
    /// matrix[class1][class2]
    Pair2 { cov: Vec<G>, fmt1: u16, fmt2: u16, class1: Vec<(G, u16)>, class2: Vec<(G, u16)>, matrix: Vec<Vec<(Value, Value)>> },
    /// recs[coverage index] = (entry, exit)
    Cursive { cov: Vec<G>, recs: Vec<(Option<Anchor>, Option<Anchor>)> },
    /// marks[mark coverage index] = (class, anchor); bases[base coverage index][class]
    MarkBase { mark_cov: Vec<G>, base_cov: Vec<G>, class_count: u16, marks: Vec<(u16, Anchor)>, bases: Vec<Vec<Option<Anchor>>> },
    /// ligs[lig coverage index][component][class]
    MarkLig { mark_cov: Vec<G>, lig_cov: Vec<G>, class_count: u16, marks: Vec<(u16, Anchor)>, ligs: Vec<Vec<Vec<Option<Anchor>>>> },
    MarkMark { mark1_cov: Vec<G>, mark2_cov: Vec<G>, class_count: u16, marks: Vec<(u16, Anchor)>, mark2s: Vec<Vec<Option<Anchor>>> },
    Context1 { cov: Vec<G>, sets: Vec<Option<Vec<Rule>>> },
    Context2 { cov: Vec<G>, classes: Vec<(G, u16)>, sets: Vec<Option<Vec<Rule>>> },
    Context3 { covs: Vec<Vec<G>>, records: Vec<SeqLookup> },
    Chain1 { cov: Vec<G>, sets: Vec<Option<Vec<ChainRule>>> },
    Chain2 { cov: Vec<G>, back_classes: Vec<(G, u16)>, in_classes: Vec<(G, u16)>, ahead_classes: Vec<(G, u16)>, sets: Vec<Option<Vec<ChainRule>>> },
    /// backtrack coverages closest first
    Chain3 { back: Vec<Vec<G>>, input: Vec<Vec<G>>, ahead: Vec<Vec<G>>, records: Vec<SeqLookup> },
}

impl Subtable {
    pub fn lookup_type(&self) -> u16 {
        match self {
            Subtable::Single1 { .. } | Subtable::Single2 { .. } => 1,
            Subtable::Pair1 { .. } | Subtable::Pair2 { .. } => 2,
            Subtable::Cursive { .. } => 3,
            Subtable::MarkBase { .. } => 4,
            Subtable::MarkLig { .. } => 5,
            Subtable::MarkMark { .. } => 6,
            Subtable::Context1 { .. } | Subtable::Context2 { .. } | Subtable::Context3 { .. } => 7,
            Subtable::Chain1 { .. } | Subtable::Chain2 { .. } | Subtable::Chain3 { .. } => 8,
        }
    }

    pub fn encode(&self, enc: &Enc) -> Vec<u8> {
        let cv = |g: &Vec<G>| coverage(g, enc.cov_fmt);
        let cd = |c: &Vec<(G, u16)>| classdef(c, enc.class_fmt);
        let mut t = Tb::new();
        match self {
            Subtable::Single1 { cov, fmt, value } => {
                t.u16(1).off16(cv(cov)).u16(*fmt);
                put_value(&mut t, *fmt, value);
            }
            Subtable::Single2 { cov, fmt, values } => {
                assert_eq!(cov.len(), values.len());
                t.u16(2).off16(cv(cov)).u16(*fmt).u16(values.len() as u16);
                for v in values {
                    put_value(&mut t, *fmt, v);
                }
            }
            Subtable::Pair1 { cov, fmt1, fmt2, sets } => {
                assert_eq!(cov.len(), sets.len());
                t.u16(1).off16(cv(cov)).u16(*fmt1).u16(*fmt2).u16(sets.len() as u16);
                for s in sets {
                    assert!(s.windows(2).all(|w| w[0].0 < w[1].0), "pair set must be sorted by second glyph");
                    // device offsets inside a PairSet are relative to the PairSet table
                    let mut ps = Tb::new();
                    ps.u16(s.len() as u16);
                    for (g2, v1, v2) in s {
                        ps.u16(*g2);
                        put_value(&mut ps, *fmt1, v1);
                        put_value(&mut ps, *fmt2, v2);
                    }
                    t.off16(ps.done());
                }
            }
            Subtable::Pair2 { cov, fmt1, fmt2, class1, class2, matrix } => {
                let c1 = matrix.len();
                let c2 = matrix[0].len();
                t.u16(2).off16(cv(cov)).u16(*fmt1).u16(*fmt2);
                t.off16(cd(class1)).off16(cd(class2));
                t.u16(c1 as u16).u16(c2 as u16);
                for row in matrix {
                    assert_eq!(row.len(), c2);
                    for (v1, v2) in row {
                        put_value(&mut t, *fmt1, v1);
                        put_value(&mut t, *fmt2, v2);
                    }
                }
            }
            Subtable::Cursive { cov, recs } => {
                assert_eq!(cov.len(), recs.len());
                t.u16(1).off16(cv(cov)).u16(recs.len() as u16);
                for (en, ex) in recs {
                    t.off16_opt(en.as_ref().map(|a| a.encode()));
                    t.off16_opt(ex.as_ref().map(|a| a.encode()));
                }
            }
            Subtable::MarkBase { mark_cov, base_cov, class_count, marks, bases } => {
                assert_eq!(mark_cov.len(), marks.len());
                assert_eq!(base_cov.len(), bases.len());
                t.u16(1).off16(cv(mark_cov)).off16(cv(base_cov)).u16(*class_count);
                t.off16(mark_array(marks));
                t.off16(anchor_matrix(bases, *class_count));
            }
            Subtable::MarkMark { mark1_cov, mark2_cov, class_count, marks, mark2s } => {
                assert_eq!(mark1_cov.len(), marks.len());
                assert_eq!(mark2_cov.len(), mark2s.len());
                t.u16(1).off16(cv(mark1_cov)).off16(cv(mark2_cov)).u16(*class_count);
                t.off16(mark_array(marks));
                t.off16(anchor_matrix(mark2s, *class_count));
            }
            Subtable::MarkLig { mark_cov, lig_cov, class_count, marks, ligs } => {
                assert_eq!(mark_cov.len(), marks.len());
                assert_eq!(lig_cov.len(), ligs.len());
                t.u16(1).off16(cv(mark_cov)).off16(cv(lig_cov)).u16(*class_count);
                t.off16(mark_array(marks));
                let mut la = Tb::new();
                la.u16(ligs.len() as u16);
                for l in ligs {
                    la.off16(anchor_matrix(l, *class_count));
                }
                t.off16(la.done());
            }
            Subtable::Context1 { cov, sets } => {
                assert_eq!(cov.len(), sets.len());
                t.u16(1).off16(cv(cov)).u16(sets.len() as u16);
                for s in sets {
                    t.off16_opt(s.as_ref().map(|r| rule_set(r)));
                }
            }
            Subtable::Context2 { cov, classes, sets } => {
                t.u16(2).off16(cv(cov)).off16(cd(classes)).u16(sets.len() as u16);
                for s in sets {
                    t.off16_opt(s.as_ref().map(|r| rule_set(r)));
                }
            }
            Subtable::Context3 { covs, records } => {
                t.u16(3).u16(covs.len() as u16).u16(records.len() as u16);
                for c in covs {
                    t.off16(cv(c));
                }
                for r in records {
                    t.u16(r.0).u16(r.1);
                }
            }
            Subtable::Chain1 { cov, sets } => {
                assert_eq!(cov.len(), sets.len());
                t.u16(1).off16(cv(cov)).u16(sets.len() as u16);
                for s in sets {
                    t.off16_opt(s.as_ref().map(|r| chain_rule_set(r)));
                }
            }
            Subtable::Chain2 { cov, back_classes, in_classes, ahead_classes, sets } => {
                t.u16(2).off16(cv(cov)).off16(cd(back_classes)).off16(cd(in_classes)).off16(cd(ahead_classes));
                t.u16(sets.len() as u16);
                for s in sets {
                    t.off16_opt(s.as_ref().map(|r| chain_rule_set(r)));
                }
            }
            Subtable::Chain3 { back, input, ahead, records } => {
                t.u16(3).u16(back.len() as u16);
                for c in back {
                    t.off16(cv(c));
                }
                t.u16(input.len() as u16);
                for c in input {
                    t.off16(cv(c));
                }
                t.u16(ahead.len() as u16);
                for c in ahead {
                    t.off16(cv(c));
                }
                t.u16(records.len() as u16);
                for r in records {
                    t.u16(r.0).u16(r.1);
                }
            }
        }
        t.done()
    }
}

fn mark_array(marks: &[(u16, Anchor)]) -> Vec<u8> {
    let mut t = Tb::new();
    t.u16(marks.len() as u16);
    for (c, a) in marks {
        t.u16(*c).off16(a.encode());
    }
    t.done()
}

/// BaseArray / Mark2Array / LigatureAttach: count, then count x class_count nullable anchor offsets.
fn anchor_matrix(rows: &[Vec<Option<Anchor>>], class_count: u16) -> Vec<u8> {
    let mut t = Tb::new();
    t.u16(rows.len() as u16);
    for r in rows {
        assert_eq!(r.len(), class_count as usize);
        for a in r {
            t.off16_opt(a.as_ref().map(|a| a.encode()));
        }
    }
    t.done()
}

fn rule_set(rules: &[Rule]) -> Vec<u8> {
    let mut t = Tb::new();
    t.u16(rules.len() as u16);
    for r in rules {
        let mut w = W::new();
        w.u16(r.input.len() as u16 + 1).u16(r.records.len() as u16);
        for g in &r.input {
            w.u16(*g);
        }
        for s in &r.records {
            w.u16(s.0).u16(s.1);
        }
        t.off16(w.done());
    }
    t.done()
}

fn chain_rule_set(rules: &[ChainRule]) -> Vec<u8> {
    let mut t = Tb::new();
    t.u16(rules.len() as u16);
    for r in rules {
        let mut w = W::new();
        w.u16(r.backtrack.len() as u16);
        for g in &r.backtrack {
            w.u16(*g);
        }
        w.u16(r.input.len() as u16 + 1);
        for g in &r.input {
            w.u16(*g);
        }
        w.u16(r.lookahead.len() as u16);
        for g in &r.lookahead {
            w.u16(*g);
        }
        w.u16(r.records.len() as u16);
        for s in &r.records {
            w.u16(s.0).u16(s.1);
        }
        t.off16(w.done());
    }
    t.done()
}

pub const RIGHT_TO_LEFT: u16 = 0x0001;
pub const IGNORE_BASE: u16 = 0x0002;
pub const IGNORE_LIG: u16 = 0x0004;
pub const IGNORE_MARKS: u16 = 0x0008;
pub const USE_MARK_FILTERING_SET: u16 = 0x0010;

#[derive(Clone, Debug, PartialEq, Eq)]
pub struct Lookup {
    /// lookupFlag including markAttachmentType in the high byte
    pub flag: u16,
    /// markFilteringSet (encoded only when flag has USE_MARK_FILTERING_SET)
    pub mark_set: u16,
    pub subs: Vec<Subtable>,
}

impl Lookup {
    pub fn lookup_type(&self) -> u16 {
        self.subs[0].lookup_type()
    }
    pub fn encode(&self, enc: &Enc) -> Vec<u8> {
        let ty = self.lookup_type();
        assert!(self.subs.iter().all(|s| s.lookup_type() == ty));
        let mut t = Tb::new();
        t.u16(if enc.ext { 9 } else { ty }).u16(self.flag).u16(self.subs.len() as u16);
        // subtable offsets come before markFilteringSet: register kids, then the trailing field
        let mut kids = Vec::new();
        for s in &self.subs {
            let body = s.encode(enc);
            if enc.ext {
                let mut e = Tb::new();
                e.u16(1).u16(ty).off32(body);
                kids.push(e.done());
            } else {
                kids.push(body);
            }
        }
        for k in kids {
            t.off16(k);
        }
        if self.flag & USE_MARK_FILTERING_SET != 0 {
            t.u16(self.mark_set);
        }
        t.done()
    }
}

/// A GPOS program: one script (DFLT) whose default language system lists every feature.
#[derive(Clone, Debug, PartialEq, Eq)]
pub struct Gpos {
    /// (feature tag, lookup indices in table order)
    pub features: Vec<(u32, Vec<u16>)>,
    pub lookups: Vec<Lookup>,
}

fn layout_header(features: &[(u32, Vec<u16>)], lookups: Vec<Vec<u8>>) -> Vec<u8> {
    // features sorted by tag as the spec asks for the FeatureList
    let mut feats: Vec<(u32, Vec<u16>)> = features.to_vec();
    feats.sort_by_key(|f| f.0);
    let mut langsys = W::new();
    langsys.u16(0).u16(0xFFFF).u16(feats.len() as u16);
    for i in 0..feats.len() {
        langsys.u16(i as u16);
    }
    let mut script = Tb::new();
    script.off16(langsys.done()).u16(0);
    let mut sl = Tb::new();
    sl.u16(1).u32(crate::tag(b"DFLT")).off16(script.done());
    let mut fl = Tb::new();
    fl.u16(feats.len() as u16);
    for (tag, idx) in &feats {
        let mut f = W::new();
        f.u16(0).u16(idx.len() as u16);
        for i in idx {
            f.u16(*i);
        }
        fl.u32(*tag).off16(f.done());
    }
    let mut ll = Tb::new();
    ll.u16(lookups.len() as u16);
    for l in lookups {
        ll.off16(l);
    }
    let mut t = Tb::new();
    t.u16(1).u16(0);
    t.off16(sl.done()).off16(fl.done()).off16(ll.done());
    t.done()
}

impl Gpos {
    pub fn encode(&self, enc: &Enc) -> Vec<u8> {
        layout_header(&self.features, self.lookups.iter().map(|l| l.encode(enc)).collect())
    }
}

// =====================================================================================================
// Part 3: reference positioner
// =====================================================================================================

/// One glyph of the input run: glyph id plus the ligature component the glyph (a mark) belongs to
/// (0-based; only meaningful for marks that follow a ligature glyph).
#[derive(Clone, Copy, Debug, PartialEq, Eq)]
pub struct GlyphIn {
    pub gid: G,
    pub lig_comp: u16,
}

#[derive(Clone, Copy, Debug, PartialEq, Eq)]
pub enum Attach {
    None,
    /// this glyph (a mark) is attached to `base`: its mark anchor coincides with the base anchor
    Mark { base: usize, base_anchor: (i32, i32), mark_anchor: (i32, i32) },
    /// this glyph's exit anchor coincides with the entry anchor of glyph `next`
    Cursive { next: usize, rtl_flag: bool, exit: (i32, i32), entry: (i32, i32) },
}

#[derive(Clone, Copy, Debug, PartialEq, Eq)]
pub struct PosOut {
    pub x_adv: i32,
    pub y_adv: i32,
    pub x_pla: i32,
    pub y_pla: i32,
    pub attach: Attach,
}

impl Default for PosOut {
    fn default() -> Self {
        PosOut { x_adv: 0, y_adv: 0, x_pla: 0, y_pla: 0, attach: Attach::None }
    }
}

impl PosOut {
    pub fn is_trivial(&self) -> bool {
        *self == PosOut::default()
    }
}

/// Deviation switches. All false = the specification. Each switch reproduces one *suspected* systematic
/// deviation of the implementation under test and is used only to attribute an observed mismatch.
#[derive(Clone, Copy, Debug, PartialEq, Eq, Default)]
pub struct Sw {
    /// a value record whose yAdvance is non-zero is dropped entirely
    pub yadv_drops_record: bool,
    /// x/yPlacement variation deltas are dropped when both static placements are zero
    pub pla_delta_needs_static: bool,
    /// MarkBasePos / MarkLigPos do not test the mark against the lookup flags
    pub mark_attach_ignores_flags: bool,
    /// MarkMarkPos ignores the lookup flags (for the mark and for the search of the preceding mark)
    pub markmark_ignores_flags: bool,
    /// MarkMarkPos attaches to the nearest preceding mark *for which anchors exist* instead of the nearest
    pub markmark_skips_unsuitable: bool,
    /// CursivePos always skips marks and nothing else, whatever the lookup flags say
    pub cursive_ignores_flags: bool,
    /// PairPos: the second glyph is not consumed when valueFormat2 != 0
    pub pair_second_not_consumed: bool,
    /// (Chain)ContextPos: after a match the walk continues at the next glyph, not after the input sequence
    pub ctx_no_advance: bool,
    /// sequenceIndex is resolved by skipping with the *nested* lookup's flags
    pub ctx_index_by_nested_flags: bool,
    /// a nested (Chain)ContextPos lookup does nothing
    pub ctx_nested_context_noop: bool,
    /// UseMarkFilteringSet also skips every non-mark glyph
    pub filter_set_skips_nonmarks: bool,
    /// Anchor format 3 VariationIndex deltas are ignored
    pub anchor_var_ignored: bool,
    /// A glyph cannot carry a cursive link and a placement at the same time: a value record with a non-zero
    /// placement applied to the glyph that carries the link (the first glyph of a cursive pair) replaces the link
    /// by that placement, and a cursive attachment discards the placement its first glyph received before
    pub cursive_link_excludes_placement: bool,
}

pub const SW_NAMES: [&str; 13] = [
    "value:y-advance-drops-whole-record",
    "value:placement-variation-dropped-when-static-placement-zero",
    "markattach:lookup-flags-ignored",
    "markmark:lookup-flags-ignored",
    "markmark:attaches-across-unsuitable-marks",
    "cursive:lookup-flags-ignored-always-skips-marks",
    "pairpos:second-glyph-not-consumed",
    "context:no-advance-past-matched-input",
    "context:sequence-index-resolved-with-nested-lookup-flags",
    "context:nested-context-lookup-is-noop",
    "flags:mark-filtering-set-skips-non-marks",
    "anchor:format3-variation-index-ignored",
    "cursive:later-or-earlier-placement-on-linked-glyph-lost",
];

impl Sw {
    pub fn get(&self, i: usize) -> bool {
        match i {
            0 => self.yadv_drops_record,
            1 => self.pla_delta_needs_static,
            2 => self.mark_attach_ignores_flags,
            3 => self.markmark_ignores_flags,
            4 => self.markmark_skips_unsuitable,
            5 => self.cursive_ignores_flags,
            6 => self.pair_second_not_consumed,
            7 => self.ctx_no_advance,
            8 => self.ctx_index_by_nested_flags,
            9 => self.ctx_nested_context_noop,
            10 => self.filter_set_skips_nonmarks,
            11 => self.anchor_var_ignored,
            12 => self.cursive_link_excludes_placement,
            _ => false,
        }
    }
    pub fn with(mut self, i: usize) -> Sw {
        match i {
            0 => self.yadv_drops_record = true,
            1 => self.pla_delta_needs_static = true,
            2 => self.mark_attach_ignores_flags = true,
            3 => self.markmark_ignores_flags = true,
            4 => self.markmark_skips_unsuitable = true,
            5 => self.cursive_ignores_flags = true,
            6 => self.pair_second_not_consumed = true,
            7 => self.ctx_no_advance = true,
            8 => self.ctx_index_by_nested_flags = true,
            9 => self.ctx_nested_context_noop = true,
            10 => self.filter_set_skips_nonmarks = true,
            11 => self.anchor_var_ignored = true,
            12 => self.cursive_link_excludes_placement = true,
            _ => {}
        }
        self
    }
}

/// Readings between which the specification does not decide. These are not deviations: either value is a
/// legitimate implementation, and a check accepts the outcome of each (consistently over a whole run).
#[derive(Clone, Copy, Debug, PartialEq, Eq, Default)]
pub struct Interp {
    /// What a mark attachment (lookup types 4, 5, 6) does with the x/yPlacement the mark accumulated from value
    /// records applied *before* the attachment. The GPOS chapter only says that the attachment aligns the mark
    /// anchor with the base anchor; it does not say whether that alignment replaces or adds to an earlier
    /// placement of the mark.
    ///  * false: adjustments accumulate, the mark ends at base anchor - mark anchor + earlier placement;
    ///  * true: the attachment defines the offset of the mark (HarfBuzz `MarkArray::apply` assigns
    ///    `o.x_offset = base_x - mark_x`), so the earlier placement is discarded.
    /// Placements applied *after* the attachment add to the attachment offset under both readings
    /// (HarfBuzz `ValueFormat::apply_value`: `glyph_pos.x_offset += ...`), advances are never touched.
    pub attach_overrides_placement: bool,
}

pub fn round_half_away(x: f64) -> i32 {
    if x >= 0.0 {
        (x + 0.5).floor() as i32
    } else {
        -((-x + 0.5).floor() as i32)
    }
}

struct Env<'a> {
    prog: &'a Gpos,
    gdef: &'a Gdef,
    coords: Option<&'a [i16]>,
    sw: Sw,
    interp: Interp,
    run: &'a [GlyphIn],
}

impl<'a> Env<'a> {
    /// record the attachment of a mark (see `Interp::attach_overrides_placement`)
    fn attach_mark(&self, out: &mut PosOut, base: usize, base_anchor: (i32, i32), mark_anchor: (i32, i32)) {
        out.attach = Attach::Mark { base, base_anchor, mark_anchor };
        if self.interp.attach_overrides_placement {
            out.x_pla = 0;
            out.y_pla = 0;
        }
    }

    fn dev_delta(&self, d: &Dev) -> i32 {
        match (d, self.coords, self.gdef.store.as_ref()) {
            (Dev::Var { outer, inner }, Some(c), Some(s)) => round_half_away(s.delta(*outer, *inner, c)),
            _ => 0, // hinting Device tables have no effect on design-unit layout
        }
    }

    fn anchor(&self, a: &Anchor) -> (i32, i32) {
        let (mut x, mut y) = (a.x as i32, a.y as i32);
        if let AnchorFmt::F3(dx, dy) = &a.fmt {
            if !self.sw.anchor_var_ignored {
                x += self.dev_delta(dx);
                y += self.dev_delta(dy);
            }
        }
        (x, y)
    }

    fn apply_value(&self, out: &mut PosOut, fmt: u16, val: &Value) {
        let v = |i: usize| if fmt & (1 << i) != 0 { val.v[i] as i32 } else { 0 };
        let d = |i: usize| if fmt & (0x10 << i) != 0 { self.dev_delta(&val.dev[i]) } else { 0 };
        if self.sw.yadv_drops_record && v(3) != 0 {
            return;
        }
        let (mut dxp, mut dyp) = (d(0), d(1));
        if self.sw.pla_delta_needs_static && v(0) == 0 && v(1) == 0 {
            dxp = 0;
            dyp = 0;
        }
        if self.sw.cursive_link_excludes_placement
            && matches!(out.attach, Attach::Cursive { .. })
            && (v(0) + dxp != 0 || v(1) + dyp != 0 || v(0) != 0 || v(1) != 0)
        {
            // the link (stored on this glyph) is replaced by the placement of this record
            out.attach = Attach::None;
            out.x_pla = 0;
            out.y_pla = 0;
        }
        out.x_pla += v(0) + dxp;
        out.y_pla += v(1) + dyp;
        out.x_adv += v(2) + d(2);
        out.y_adv += v(3) + d(3);
    }

    /// Does the glyph take part in a lookup with these flags (i.e. is it *not* skipped)?
    fn passes(&self, flag: u16, mark_set: u16, gid: G) -> bool {
        let cls = self.gdef.glyph_class(gid);
        if flag & IGNORE_BASE != 0 && cls == 1 {
            return false;
        }
        if flag & IGNORE_LIG != 0 && cls == 2 {
            return false;
        }
        if cls == 3 {
            if flag & IGNORE_MARKS != 0 {
                return false;
            }
            if flag & USE_MARK_FILTERING_SET != 0 && !self.gdef.in_set(mark_set, gid) {
                return false;
            }
            let mat = flag >> 8;
            if mat != 0 && self.gdef.attach_class(gid) != mat {
                return false;
            }
        } else if self.sw.filter_set_skips_nonmarks
            && flag & USE_MARK_FILTERING_SET != 0
            && flag & IGNORE_MARKS == 0
            && flag >> 8 == 0
        {
            return false;
        }
        true
    }

    fn next_passing(&self, flag: u16, ms: u16, i: usize) -> Option<usize> {
        (i + 1..self.run.len()).find(|&k| self.passes(flag, ms, self.run[k].gid))
    }

    fn prev_passing(&self, flag: u16, ms: u16, i: usize) -> Option<usize> {
        (0..i).rev().find(|&k| self.passes(flag, ms, self.run[k].gid))
    }

    /// effective (flag, mark set) of a lookup under the deviation switches
    fn eff_flag(&self, l: &Lookup) -> (u16, u16) {
        let ty = l.lookup_type();
        if ty == 3 && self.sw.cursive_ignores_flags {
            return (IGNORE_MARKS | (l.flag & RIGHT_TO_LEFT), 0);
        }
        if (ty == 4 || ty == 5) && self.sw.mark_attach_ignores_flags {
            return (0, 0);
        }
        if ty == 6 && self.sw.markmark_ignores_flags {
            return (0, 0);
        }
        (l.flag, l.mark_set)
    }

    fn walk(&self, li: usize, outs: &mut [PosOut]) {
        let l = match self.prog.lookups.get(li) {
            Some(l) => l,
            None => return,
        };
        let (flag, ms) = self.eff_flag(l);
        let mut i = 0;
        while i < self.run.len() {
            if self.passes(flag, ms, self.run[i].gid) {
                if let Some(next) = self.apply_at(li, i, outs, 0) {
                    i = next.max(i + 1);
                    continue;
                }
            }
            i += 1;
        }
    }

    /// Apply lookup `li` once with the current glyph at `i`. Some(next) if it applied.
    fn apply_at(&self, li: usize, i: usize, outs: &mut [PosOut], depth: u32) -> Option<usize> {
        let l = self.prog.lookups.get(li)?;
        let (flag, ms) = self.eff_flag(l);
        let g = self.run[i].gid;
        match l.lookup_type() {
            1 => {
                for s in &l.subs {
                    match s {
                        Subtable::Single1 { cov, fmt, value } => {
                            if cov_index(cov, g).is_some() {
                                self.apply_value(&mut outs[i], *fmt, value);
                                return Some(i + 1);
                            }
                        }
                        Subtable::Single2 { cov, fmt, values } => {
                            if let Some(ci) = cov_index(cov, g) {
                                self.apply_value(&mut outs[i], *fmt, &values[ci]);
                                return Some(i + 1);
                            }
                        }
                        _ => unreachable!(),
                    }
                }
                None
            }
            2 => {
                let j = self.next_passing(flag, ms, i)?;
                let g2 = self.run[j].gid;
                for s in &l.subs {
                    let hit: Option<(u16, u16, &Value, &Value)> = match s {
                        Subtable::Pair1 { cov, fmt1, fmt2, sets } => cov_index(cov, g)
                            .and_then(|ci| sets[ci].iter().find(|p| p.0 == g2))
                            .map(|p| (*fmt1, *fmt2, &p.1, &p.2)),
                        Subtable::Pair2 { cov, fmt1, fmt2, class1, class2, matrix } => {
                            if cov_index(cov, g).is_some() {
                                let c1 = class_of(class1, g) as usize;
                                let c2 = class_of(class2, g2) as usize;
                                matrix.get(c1).and_then(|r| r.get(c2)).map(|p| (*fmt1, *fmt2, &p.0, &p.1))
                            } else {
                                None
                            }
                        }
                        _ => unreachable!(),
                    };
                    if let Some((f1, f2, v1, v2)) = hit {
                        self.apply_value(&mut outs[i], f1, v1);
                        self.apply_value(&mut outs[j], f2, v2);
                        return Some(if f2 != 0 && !self.sw.pair_second_not_consumed { j + 1 } else { j });
                    }
                }
                None
            }
            3 => {
                // current glyph = the second glyph of the pair (needs an entry anchor)
                let j = self.prev_passing(flag, ms, i)?;
                let gp = self.run[j].gid;
                for s in &l.subs {
                    if let Subtable::Cursive { cov, recs } = s {
                        let entry = cov_index(cov, g).and_then(|c| recs[c].0.as_ref());
                        let exit = cov_index(cov, gp).and_then(|c| recs[c].1.as_ref());
                        if let (Some(en), Some(ex)) = (entry, exit) {
                            outs[j].attach = Attach::Cursive {
                                next: i,
                                rtl_flag: l.flag & RIGHT_TO_LEFT != 0,
                                exit: self.anchor(ex),
                                entry: self.anchor(en),
                            };
                            if self.sw.cursive_link_excludes_placement {
                                outs[j].x_pla = 0;
                                outs[j].y_pla = 0;
                            }
                            return Some(i + 1);
                        }
                    }
                }
                None
            }
            4 | 5 => {
                // preceding glyph that is not a mark
                let j = (0..i).rev().find(|&k| !self.gdef.is_mark(self.run[k].gid))?;
                let gb = self.run[j].gid;
                for s in &l.subs {
                    let hit: Option<(&Anchor, &Anchor)> = match s {
                        Subtable::MarkBase { mark_cov, base_cov, marks, bases, .. } => {
                            match (cov_index(mark_cov, g), cov_index(base_cov, gb)) {
                                (Some(mi), Some(bi)) => {
                                    let (cls, ma) = &marks[mi];
                                    bases[bi].get(*cls as usize).and_then(|a| a.as_ref()).map(|ba| (ba, ma))
                                }
                                _ => None,
                            }
                        }
                        Subtable::MarkLig { mark_cov, lig_cov, marks, ligs, .. } => {
                            match (cov_index(mark_cov, g), cov_index(lig_cov, gb)) {
                                (Some(mi), Some(bi)) => {
                                    let (cls, ma) = &marks[mi];
                                    ligs[bi]
                                        .get(self.run[i].lig_comp as usize)
                                        .and_then(|c| c.get(*cls as usize))
                                        .and_then(|a| a.as_ref())
                                        .map(|ba| (ba, ma))
                                }
                                _ => None,
                            }
                        }
                        _ => unreachable!(),
                    };
                    if let Some((ba, ma)) = hit {
                        self.attach_mark(&mut outs[i], j, self.anchor(ba), self.anchor(ma));
                        return Some(i + 1);
                    }
                }
                None
            }
            6 => {
                // search with the lookup flags minus IgnoreBase/IgnoreLigatures/IgnoreMarks
                let sflag = flag & !(IGNORE_BASE | IGNORE_LIG | IGNORE_MARKS);
                let mut k = i;
                loop {
                    let j = self.prev_passing(sflag, ms, k)?;
                    let gb = self.run[j].gid;
                    if !self.gdef.is_mark(gb) {
                        return None;
                    }
                    for s in &l.subs {
                        if let Subtable::MarkMark { mark1_cov, mark2_cov, marks, mark2s, .. } = s {
                            if let (Some(mi), Some(bi)) = (cov_index(mark1_cov, g), cov_index(mark2_cov, gb)) {
                                let (cls, ma) = &marks[mi];
                                if let Some(ba) = mark2s[bi].get(*cls as usize).and_then(|a| a.as_ref()) {
                                    self.attach_mark(&mut outs[i], j, self.anchor(ba), self.anchor(ma));
                                    return Some(i + 1);
                                }
                            }
                        }
                    }
                    if !self.sw.markmark_skips_unsuitable {
                        return None;
                    }
                    // under the switch every glyph between must be a mark: allsorts scans a run of marks
                    if (j + 1..k).any(|m| !self.gdef.is_mark(self.run[m].gid)) {
                        return None;
                    }
                    k = j;
                }
            }
            7 | 8 => {
                if depth > 6 {
                    return None;
                }
                for s in &l.subs {
                    if let Some((positions, records)) = self.match_context(s, flag, ms, i) {
                        for &(seq, nli) in records {
                            let nl = match self.prog.lookups.get(nli as usize) {
                                Some(n) => n,
                                None => continue,
                            };
                            let pos = if self.sw.ctx_index_by_nested_flags {
                                let (nf, nms) = self.eff_flag(nl);
                                let mut p = Some(i);
                                for _ in 0..seq {
                                    p = p.and_then(|q| self.next_passing(nf, nms, q));
                                }
                                p
                            } else {
                                positions.get(seq as usize).copied()
                            };
                            let pos = match pos {
                                Some(p) => p,
                                None => continue,
                            };
                            let nty = nl.lookup_type();
                            if (nty == 7 || nty == 8) && self.sw.ctx_nested_context_noop {
                                continue;
                            }
                            self.apply_at(nli as usize, pos, outs, depth + 1);
                        }
                        let last = *positions.last().unwrap();
                        return Some(if self.sw.ctx_no_advance { i + 1 } else { last + 1 });
                    }
                }
                None
            }
            _ => None,
        }
    }

    /// Match one context subtable with the first input glyph at `i`: positions of the input glyphs and
    /// the records of the first matching rule.
    fn match_context<'s>(&self, s: &'s Subtable, flag: u16, ms: u16, i: usize) -> Option<(Vec<usize>, &'s [SeqLookup])> {
        let g = self.run[i].gid;
        let seq_fwd = |start: usize, n: usize, ok: &dyn Fn(usize, G) -> bool| -> Option<Vec<usize>> {
            let mut v = Vec::with_capacity(n);
            let mut p = start;
            for k in 0..n {
                p = self.next_passing(flag, ms, p)?;
                if !ok(k, self.run[p].gid) {
                    return None;
                }
                v.push(p);
            }
            Some(v)
        };
        let seq_back = |start: usize, n: usize, ok: &dyn Fn(usize, G) -> bool| -> bool {
            let mut p = start;
            for k in 0..n {
                p = match self.prev_passing(flag, ms, p) {
                    Some(q) => q,
                    None => return false,
                };
                if !ok(k, self.run[p].gid) {
                    return false;
                }
            }
            true
        };
        match s {
            Subtable::Context1 { cov, sets } => {
                let rules = sets[cov_index(cov, g)?].as_ref()?;
                for r in rules {
                    if let Some(mut v) = seq_fwd(i, r.input.len(), &|k, gg| r.input[k] == gg) {
                        v.insert(0, i);
                        return Some((v, &r.records));
                    }
                }
                None
            }
            Subtable::Context2 { cov, classes, sets } => {
                cov_index(cov, g)?;
                let rules = sets.get(class_of(classes, g) as usize)?.as_ref()?;
                for r in rules {
                    if let Some(mut v) = seq_fwd(i, r.input.len(), &|k, gg| r.input[k] == class_of(classes, gg)) {
                        v.insert(0, i);
                        return Some((v, &r.records));
                    }
                }
                None
            }
            Subtable::Context3 { covs, records } => {
                cov_index(&covs[0], g)?;
                let mut v = seq_fwd(i, covs.len() - 1, &|k, gg| covs[k + 1].contains(&gg))?;
                v.insert(0, i);
                Some((v, records))
            }
            Subtable::Chain1 { cov, sets } => {
                let rules = sets[cov_index(cov, g)?].as_ref()?;
                for r in rules {
                    if !seq_back(i, r.backtrack.len(), &|k, gg| r.backtrack[k] == gg) {
                        continue;
                    }
                    if let Some(mut v) = seq_fwd(i, r.input.len(), &|k, gg| r.input[k] == gg) {
                        let last = v.last().copied().unwrap_or(i);
                        if seq_fwd(last, r.lookahead.len(), &|k, gg| r.lookahead[k] == gg).is_some() {
                            v.insert(0, i);
                            return Some((v, &r.records));
                        }
                    }
                }
                None
            }
            Subtable::Chain2 { cov, back_classes, in_classes, ahead_classes, sets } => {
                cov_index(cov, g)?;
                let rules = sets.get(class_of(in_classes, g) as usize)?.as_ref()?;
                for r in rules {
                    if !seq_back(i, r.backtrack.len(), &|k, gg| r.backtrack[k] == class_of(back_classes, gg)) {
                        continue;
                    }
                    if let Some(mut v) = seq_fwd(i, r.input.len(), &|k, gg| r.input[k] == class_of(in_classes, gg)) {
                        let last = v.last().copied().unwrap_or(i);
                        if seq_fwd(last, r.lookahead.len(), &|k, gg| r.lookahead[k] == class_of(ahead_classes, gg)).is_some() {
                            v.insert(0, i);
                            return Some((v, &r.records));
                        }
                    }
                }
                None
            }
            Subtable::Chain3 { back, input, ahead, records } => {
                cov_index(&input[0], g)?;
                if !seq_back(i, back.len(), &|k, gg| back[k].contains(&gg)) {
                    return None;
                }
                let mut v = seq_fwd(i, input.len() - 1, &|k, gg| input[k + 1].contains(&gg))?;
                let last = v.last().copied().unwrap_or(i);
                seq_fwd(last, ahead.len(), &|k, gg| ahead[k].contains(&gg))?;
                v.insert(0, i);
                Some((v, records))
            }
            _ => None,
        }
    }
}

/// Reference GPOS application. `features` are applied one after the other; within a feature the
/// lookups are applied in lookup-list order, each over the whole run. `coords` = normalized variation
/// coordinates (raw F2Dot14) or None.
pub fn apply_gpos(
    prog: &Gpos,
    gdef: &Gdef,
    features: &[u32],
    coords: Option<&[i16]>,
    run: &[GlyphIn],
    sw: Sw,
) -> Vec<PosOut> {
    apply_gpos_interp(prog, gdef, features, coords, run, sw, Interp::default())
}

/// `apply_gpos` under a stated reading of the points the specification leaves open.
pub fn apply_gpos_interp(
    prog: &Gpos,
    gdef: &Gdef,
    features: &[u32],
    coords: Option<&[i16]>,
    run: &[GlyphIn],
    sw: Sw,
    interp: Interp,
) -> Vec<PosOut> {
    let env = Env { prog, gdef, coords, sw, interp, run };
    let mut outs = vec![PosOut::default(); run.len()];
    for tag in features {
        if let Some((_, idx)) = prog.features.iter().find(|f| f.0 == *tag) {
            let mut idx = idx.clone();
            idx.sort();
            idx.dedup();
            for li in idx {
                env.walk(li as usize, &mut outs);
            }
        }
    }
    outs
}

// =====================================================================================================
// Part 4: absolute glyph origins
// =====================================================================================================

#[derive(Clone, Copy, Debug, PartialEq, Eq)]
pub enum Dir {
    Ltr,
    Rtl,
}

/// Absolute origin of every glyph of a horizontal run (anchor-coincidence form).
///
/// `advances[k]` is the font advance of glyph k; the effective advance is `advances[k] + outs[k].x_adv`.
/// Glyphs that lie between two cursively connected glyphs (skipped by the lookup) and are not attached
/// themselves have no defined position; use `unconstrained` to exclude them from comparisons.
/// Every glyph owns the box [origin, origin + advance) on the baseline. Left-to-right: the run starts at
/// x = 0 and the box of glyph k+1 starts where the box of glyph k ends. Right-to-left: the run starts at
/// x = 0 and grows towards negative x; the box of glyph k+1 ends where the box of glyph k starts (this is
/// what drawing `GlyphPosition`s in reverse order, left to right, produces). Placement moves the glyph,
/// not its box. Attachments override the box position of the attached glyph:
///  * cursive: origin(next) + entry = origin(this) + exit (in x for both directions; in y the glyph that
///    moves is the second one, or the first one when the lookup has the RIGHT_TO_LEFT flag);
///  * mark: origin(mark) + mark anchor = origin(base) + base anchor, independent of advances in between.
pub fn pen_positions(advances: &[i32], outs: &[PosOut], dir: Dir) -> Vec<(i32, i32)> {
    pen_positions_reading(advances, outs, dir, false)
}

/// Is there a glyph that is positioned by a cursive attachment (the second glyph of a pair, or the first one under
/// the RIGHT_TO_LEFT flag) and also carries a placement of its own? Only then do the two readings of
/// `pen_positions_reading` differ.
pub fn cursive_child_with_placement(outs: &[PosOut]) -> bool {
    let n = outs.len();
    outs.iter().enumerate().any(|(p, o)| match o.attach {
        Attach::Cursive { next, rtl_flag, .. } if next < n && next > p => {
            let own = |k: usize| outs[k].x_pla != 0 || outs[k].y_pla != 0;
            own(next) || (rtl_flag && own(p))
        }
        _ => false,
    })
}

/// `pen_positions` under one of two readings of "a cursively attached glyph that also carries a placement". The
/// specification describes the attachment (anchors aligned) and the value record (glyph moved) separately and does not
/// say how they combine; per-glyph output that keeps a link and a placement does not record which came first.
///  * `child_keeps_placement == false`: the attachment defines the position, the anchors coincide (what HarfBuzz
///    produces when the placement was made BEFORE the cursive lookup: the x offset is folded into the advances,
///    `x_advance = exit_x + x_offset`, and the cross-stream offset of the attached glyph is assigned);
///  * `child_keeps_placement == true`: the placement moves the glyph away from the aligned position (what HarfBuzz
///    produces when the value record comes AFTER the cursive lookup: `x_offset += xPlacement`, `y_offset +=
///    yPlacement`, attach_type / attach_chain unchanged).
/// The box of the glyph (where the pen continues) is the same in both.
pub fn pen_positions_reading(advances: &[i32], outs: &[PosOut], dir: Dir, child_keeps_placement: bool) -> Vec<(i32, i32)> {
    let keep = |v: i32| if child_keeps_placement { v } else { 0 };
    let n = outs.len();
    let mut second_of: Vec<Option<usize>> = vec![None; n];
    for (p, o) in outs.iter().enumerate() {
        if let Attach::Cursive { next, .. } = o.attach {
            if next < n && next > p {
                second_of[next] = Some(p);
            }
        }
    }
    let mut fx = vec![0i32; n];
    let mut pen = 0i32;
    for k in 0..n {
        let a = advances[k] + outs[k].x_adv;
        let ox;
        if let Some(p) = second_of[k] {
            if let Attach::Cursive { exit, entry, .. } = outs[p].attach {
                fx[k] = fx[p] + exit.0 - entry.0 + keep(outs[k].x_pla);
            }
            ox = fx[k] - outs[k].x_pla;
        } else {
            ox = match dir {
                Dir::Ltr => pen,
                Dir::Rtl => pen - a,
            };
            fx[k] = ox + outs[k].x_pla;
        }
        pen = match dir {
            Dir::Ltr => ox + a,
            Dir::Rtl => ox,
        };
    }
    // y: resolve cursive parents
    let mut fy: Vec<Option<i32>> = vec![None; n];
    fn resolve(k: usize, outs: &[PosOut], second_of: &[Option<usize>], fy: &mut Vec<Option<i32>>, depth: usize, keep_own: bool) -> i32 {
        if let Some(v) = fy[k] {
            return v;
        }
        let own = if keep_own { outs[k].y_pla } else { 0 };
        let mut v = outs[k].y_pla;
        if depth <= outs.len() {
            if let Some(p) = second_of[k] {
                if let Attach::Cursive { rtl_flag: false, exit, entry, .. } = outs[p].attach {
                    v = resolve(p, outs, second_of, fy, depth + 1, keep_own) + exit.1 - entry.1 + own;
                    fy[k] = Some(v);
                    return v;
                }
            }
            if let Attach::Cursive { next, rtl_flag: true, exit, entry } = outs[k].attach {
                if next < outs.len() {
                    v = resolve(next, outs, second_of, fy, depth + 1, keep_own) + entry.1 - exit.1 + own;
                }
            }
        }
        fy[k] = Some(v);
        v
    }
    for k in 0..n {
        resolve(k, outs, &second_of, &mut fy, 0, child_keeps_placement);
    }
    let mut res: Vec<(i32, i32)> = (0..n).map(|k| (fx[k], fy[k].unwrap())).collect();
    for k in 0..n {
        if let Attach::Mark { base, base_anchor, mark_anchor } = outs[k].attach {
            if base < n {
                res[k] = (
                    res[base].0 + base_anchor.0 - mark_anchor.0 + outs[k].x_pla,
                    res[base].1 + base_anchor.1 - mark_anchor.1 + outs[k].y_pla,
                );
            }
        }
    }
    res
}

/// Glyphs whose position the specification leaves open: unattached glyphs between cursive partners.
pub fn unconstrained(outs: &[PosOut]) -> Vec<bool> {
    let n = outs.len();
    let mut v = vec![false; n];
    for (p, o) in outs.iter().enumerate() {
        if let Attach::Cursive { next, .. } = o.attach {
            for k in p + 1..next.min(n) {
                if outs[k].attach == Attach::None {
                    v[k] = true;
                }
            }
        }
    }
    v
}

/// Deviation switches of the layout step (all false = specification).
#[derive(Clone, Copy, Debug, PartialEq, Eq, Default)]
pub struct LSw {
    /// right-to-left: the advances between base and mark (and the mark's own) are not compensated
    pub rtl_mark_no_compensation: bool,
    /// the placement of an unattached base is added twice to its marks
    pub mark_base_placement_twice: bool,
    /// cursive, line direction: LTR first advance := exit.x, RTL first advance += exit.x; entry anchor unused
    pub cursive_x_exit_only: bool,
    /// cursive, cross direction: the algorithm of the implementation under test (see pen_positions_sw)
    pub cursive_y_chain_shift: bool,
}

pub const LSW_NAMES: [&str; 4] = [
    "layout:rtl-mark-advance-not-compensated",
    "layout:mark-base-placement-counted-twice",
    "layout:cursive-line-direction-ignores-entry-anchor",
    "layout:cursive-cross-stream-misaligned",
];

impl LSw {
    pub fn with(mut self, i: usize) -> LSw {
        match i {
            0 => self.rtl_mark_no_compensation = true,
            1 => self.mark_base_placement_twice = true,
            2 => self.cursive_x_exit_only = true,
            3 => self.cursive_y_chain_shift = true,
            _ => {}
        }
        self
    }
}

/// Operational form (advance + offset per glyph, then accumulation) with deviation switches. With all
/// switches off it must agree with `pen_positions` (the harness asserts this on every case).
pub fn pen_positions_sw(advances: &[i32], outs: &[PosOut], dir: Dir, sw: LSw) -> Vec<(i32, i32)> {
    pen_positions_sw_reading(advances, outs, dir, sw, false)
}

/// `pen_positions_sw` under the reading `child_keeps_placement` (see `pen_positions_reading`). The deviation
/// switches describe algorithms of the implementation under test and are the same under both readings.
pub fn pen_positions_sw_reading(advances: &[i32], outs: &[PosOut], dir: Dir, sw: LSw, child_keeps_placement: bool) -> Vec<(i32, i32)> {
    let n = outs.len();
    let mut hadv: Vec<i32> = (0..n).map(|k| advances[k] + outs[k].x_adv).collect();
    let mut xoff = vec![0i32; n];
    let mut yoff = vec![0i32; n];
    for k in 0..n {
        match outs[k].attach {
            Attach::Mark { base, base_anchor, mark_anchor } => {
                xoff[k] = base_anchor.0 - mark_anchor.0 + outs[k].x_pla;
                yoff[k] = base_anchor.1 - mark_anchor.1 + outs[k].y_pla;
                if sw.mark_base_placement_twice && base < n && outs[base].attach == Attach::None {
                    xoff[k] += outs[base].x_pla;
                    yoff[k] += outs[base].y_pla;
                }
            }
            _ => {
                xoff[k] = outs[k].x_pla;
                yoff[k] = outs[k].y_pla;
            }
        }
    }
    // cursive, line direction
    for p in 0..n {
        if let Attach::Cursive { next, exit, entry, .. } = outs[p].attach {
            if next >= n || next <= p {
                continue;
            }
            if sw.cursive_x_exit_only {
                match dir {
                    Dir::Ltr => hadv[p] = exit.0,
                    Dir::Rtl => hadv[p] += exit.0,
                }
            } else {
                // advances of glyphs the lookup skipped between the two partners
                let between: i32 = hadv[p + 1..next].iter().sum();
                match dir {
                    Dir::Ltr => {
                        hadv[p] = exit.0 + xoff[p];
                        // a placement made after the attachment is not folded into the advances
                        let d = entry.0 + between + if child_keeps_placement { 0 } else { xoff[next] };
                        hadv[next] -= d;
                        xoff[next] -= d;
                    }
                    Dir::Rtl => {
                        let d = exit.0 + xoff[p];
                        hadv[p] -= d;
                        xoff[p] -= d;
                        hadv[next] = entry.0 - between + if child_keeps_placement { 0 } else { xoff[next] };
                    }
                }
            }
        }
    }
    // cursive, cross direction
    if sw.cursive_y_chain_shift {
        // back links: link[next] = first
        let mut link: Vec<Option<usize>> = vec![None; n];
        for p in 0..n {
            if let Attach::Cursive { next, .. } = outs[p].attach {
                if next < n {
                    link[next] = Some(p);
                }
            }
        }
        for p in 0..n {
            if let Attach::Cursive { next, rtl_flag, exit, entry } = outs[p].attach {
                if next >= n {
                    continue;
                }
                let (first, second) = if p < next { (p, next) } else { (next, p) };
                let dy = entry.1 - exit.1;
                let (moved, other) = if rtl_flag { (first, second) } else { (second, first) };
                yoff[moved] += dy + yoff[other];
                let mut cur = link[moved];
                let mut guard = 0;
                while let Some(c) = cur {
                    yoff[c] += dy;
                    cur = link[c];
                    guard += 1;
                    if guard > n {
                        break;
                    }
                }
            }
        }
    } else {
        for p in 0..n {
            if let Attach::Cursive { next, rtl_flag: false, exit, entry } = outs[p].attach {
                if next < n && next > p {
                    yoff[next] = yoff[p] + exit.1 - entry.1 + if child_keeps_placement { outs[next].y_pla } else { 0 };
                }
            }
        }
        for p in (0..n).rev() {
            if let Attach::Cursive { next, rtl_flag: true, exit, entry } = outs[p].attach {
                if next < n && next > p {
                    yoff[p] = yoff[next] + entry.1 - exit.1 + if child_keeps_placement { outs[p].y_pla } else { 0 };
                }
            }
        }
    }
    // marks
    for k in 0..n {
        if let Attach::Mark { base, .. } = outs[k].attach {
            if base >= n || base >= k {
                continue;
            }
            xoff[k] += xoff[base];
            yoff[k] += yoff[base];
            match dir {
                Dir::Ltr => xoff[k] -= hadv[base..k].iter().sum::<i32>(),
                Dir::Rtl => {
                    if !sw.rtl_mark_no_compensation {
                        xoff[k] += hadv[base + 1..=k].iter().sum::<i32>();
                    }
                }
            }
        }
    }
    absolute_from_advances(&hadv, &xoff, &yoff, dir)
}

/// The documented drawing convention: the pen starts at 0 and is incremented by each advance; a glyph is
/// drawn at pen + offset. Right-to-left: the same list drawn in reverse order, i.e. glyph k sits at
/// -(sum of advances of glyphs 0..=k) + offset relative to the right end of the run.
pub fn absolute_from_advances(hadv: &[i32], xoff: &[i32], yoff: &[i32], dir: Dir) -> Vec<(i32, i32)> {
    let mut res = Vec::with_capacity(hadv.len());
    let mut pen = 0i32;
    for k in 0..hadv.len() {
        match dir {
            Dir::Ltr => {
                res.push((pen + xoff[k], yoff[k]));
                pen += hadv[k];
            }
            Dir::Rtl => {
                pen -= hadv[k];
                res.push((pen + xoff[k], yoff[k]));
            }
        }
    }
    res
}

// =====================================================================================================
// Part 5: kern table (OpenType 'kern' version 0; subtable formats 0 and 2)
// =====================================================================================================

pub const KERN_HORIZONTAL: u8 = 1;
pub const KERN_MINIMUM: u8 = 2;
pub const KERN_CROSS_STREAM: u8 = 4;
pub const KERN_OVERRIDE: u8 = 8;

#[derive(Clone, Debug, PartialEq, Eq)]
pub enum KernData {
    /// (left, right, value), sorted by (left, right)
    F0(Vec<(G, G, i16)>),
    /// class tables: glyph first+i has row/column class[i]; glyphs outside are class 0;
    /// values[row * cols + col]
    F2 { left_first: G, left: Vec<u16>, right_first: G, right: Vec<u16>, rows: usize, cols: usize, values: Vec<i16> },
}

#[derive(Clone, Debug, PartialEq, Eq)]
pub struct KernSub {
    /// coverage bits 0-3
    pub flags: u8,
    pub data: KernData,
}

pub fn encode_kern(subs: &[KernSub]) -> Vec<u8> {
    let mut w = W::new();
    w.u16(0).u16(subs.len() as u16);
    for s in subs {
        match &s.data {
            KernData::F0(pairs) => {
                assert!(pairs.windows(2).all(|p| (p[0].0, p[0].1) < (p[1].0, p[1].1)), "kern pairs must be sorted");
                let n = pairs.len() as u16;
                let (sr, es, rs) = if n == 0 { (0, 0, 0) } else { crate::sfnt::search_fields(n, 6) };
                w.u16(0).u16(14 + 6 * n).u16(s.flags as u16);
                w.u16(n).u16(sr).u16(es).u16(rs);
                for p in pairs {
                    w.u16(p.0).u16(p.1).i16(p.2);
                }
            }
            KernData::F2 { left_first, left, right_first, right, rows, cols, values } => {
                assert_eq!(values.len(), rows * cols);
                let row_width = (*cols * 2) as u16;
                let left_off = 14u16;
                let right_off = left_off + 4 + 2 * left.len() as u16;
                let array_off = right_off + 4 + 2 * right.len() as u16;
                let length = array_off + (rows * cols * 2) as u16;
                w.u16(0).u16(length).u16(0x0200 | s.flags as u16);
                w.u16(row_width).u16(left_off).u16(right_off).u16(array_off);
                w.u16(*left_first).u16(left.len() as u16);
                for c in left {
                    assert!((*c as usize) < *rows);
                    w.u16(array_off + c * row_width);
                }
                w.u16(*right_first).u16(right.len() as u16);
                for c in right {
                    assert!((*c as usize) < *cols);
                    w.u16(c * 2);
                }
                for v in values {
                    w.i16(*v);
                }
            }
        }
    }
    w.done()
}

/// Kerning of one subtable for a glyph pair according to the abstract model (None = no entry).
pub fn kern_sub_value(d: &KernData, l: G, r: G) -> Option<i16> {
    match d {
        KernData::F0(p) => p.iter().find(|x| x.0 == l && x.1 == r).map(|x| x.2),
        KernData::F2 { left_first, left, right_first, right, cols, values, .. } => {
            let cls = |first: G, t: &Vec<u16>, g: G| -> usize {
                if g >= first && ((g - first) as usize) < t.len() {
                    t[(g - first) as usize] as usize
                } else {
                    0
                }
            };
            Some(values[cls(*left_first, left, l) * cols + cls(*right_first, right, r)])
        }
    }
}

/// How a subtable with the `minimum` coverage bit is combined (the specification only says "the table has
/// minimum values"): 0 = accumulated value is raised to the minimum, 1 = such subtables are not used,
/// 2 = accumulated value is lowered to the value.
pub const KERN_MIN_MODES: [u8; 3] = [0, 1, 2];

#[derive(Clone, Copy, Debug, PartialEq, Eq, Default)]
pub struct KSw {
    /// format 2: left class value + right class value is used as an offset from the kerning *array*
    pub f2_offset_from_array: bool,
    /// format 2: the array is assumed to be rowWidth * (number of right-hand glyphs) bytes long; the table
    /// is rejected when that does not fit
    pub f2_array_sized_by_right_glyphs: bool,
    /// the next subtable is read directly after the fixed header of a format 2 subtable
    pub f2_no_advance: bool,
    /// cross-stream subtables are not applied
    pub cross_stream_ignored: bool,
}

pub const KSW_NAMES: [&str; 4] = [
    "kern:format2-class-offsets-taken-relative-to-array",
    "kern:format2-array-sized-by-right-glyph-count",
    "kern:format2-next-subtable-read-after-header",
    "kern:cross-stream-subtable-ignored",
];

impl KSw {
    pub fn with(mut self, i: usize) -> KSw {
        match i {
            0 => self.f2_offset_from_array = true,
            1 => self.f2_array_sized_by_right_glyphs = true,
            2 => self.f2_no_advance = true,
            3 => self.cross_stream_ignored = true,
            _ => {}
        }
        self
    }
}

/// Byte-level reference reader: (line-direction kerning, cross-stream kerning) for the pair, or Err when
/// the table is unusable. Subtables are combined in order: override replaces, minimum per `min_mode`,
/// otherwise values add. Vertical subtables do not apply to horizontal text.
pub fn kern_pair(data: &[u8], l: G, r: G, min_mode: u8, sw: KSw) -> Result<(i32, i32), ()> {
    let mut rd = R::new(data);
    let version = rd.u16().ok_or(())?;
    if version != 0 {
        return Err(());
    }
    let n = rd.u16().ok_or(())?;
    let mut pos = 4usize;
    let (mut x, mut y) = (0i32, 0i32);
    for _ in 0..n {
        let start = pos;
        let mut h = R::at(data, start);
        let _ver = h.u16().ok_or(())?;
        let length = h.u16().ok_or(())? as usize;
        let coverage = h.u16().ok_or(())?;
        let format = coverage >> 8;
        let flags = (coverage & 0xFF) as u8;
        let value: Option<i32>;
        match format {
            0 => {
                let np = h.u16().ok_or(())? as usize;
                h.take(6).ok_or(())?;
                let mut found = None;
                for _ in 0..np {
                    let (pl, pr, pv) = (h.u16().ok_or(())?, h.u16().ok_or(())?, h.i16().ok_or(())?);
                    if pl == l && pr == r && found.is_none() {
                        found = Some(pv as i32);
                    }
                }
                value = found;
                pos = start + length.max(14);
            }
            2 => {
                let row_width = h.u16().ok_or(())? as usize;
                let lo = h.u16().ok_or(())? as usize;
                let ro = h.u16().ok_or(())? as usize;
                let ao = h.u16().ok_or(())? as usize;
                let class = |off: usize, g: G| -> Result<(Option<u16>, usize), ()> {
                    let mut c = R::at(data, start + off);
                    let first = c.u16().ok_or(())?;
                    let ng = c.u16().ok_or(())? as usize;
                    c.take(2 * ng).ok_or(())?;
                    if g >= first && ((g - first) as usize) < ng {
                        Ok((crate::be::u16_at(data, start + off + 4 + 2 * (g - first) as usize), ng))
                    } else {
                        Ok((None, ng))
                    }
                };
                let (lv, _) = class(lo, l)?;
                let (rv, nright) = class(ro, r)?;
                if sw.f2_array_sized_by_right_glyphs && start + ao + row_width * nright > data.len() {
                    return Err(());
                }
                value = if sw.f2_offset_from_array {
                    match (lv, rv) {
                        (Some(a), Some(b)) => {
                            let o = a as usize + b as usize;
                            let limit = if sw.f2_array_sized_by_right_glyphs { row_width * nright } else { data.len() - (start + ao).min(data.len()) };
                            if o + 2 <= limit {
                                crate::be::u16_at(data, start + ao + o).map(|v| v as i16 as i32)
                            } else {
                                None
                            }
                        }
                        _ => None,
                    }
                } else {
                    // glyphs outside a class table are class 0: row 0 / column 0
                    let a = lv.map(|v| v as usize).unwrap_or(ao);
                    let b = rv.map(|v| v as usize).unwrap_or(0);
                    crate::be::u16_at(data, start + a + b).map(|v| v as i16 as i32)
                };
                pos = if sw.f2_no_advance { start + 14 } else { start + length.max(14) };
            }
            _ => return Err(()),
        }
        if flags & KERN_HORIZONTAL == 0 {
            continue;
        }
        let v = match value {
            Some(v) => v,
            None => continue,
        };
        if flags & KERN_CROSS_STREAM != 0 {
            if !sw.cross_stream_ignored {
                y += v;
            }
            continue;
        }
        if flags & KERN_OVERRIDE != 0 {
            x = v;
        } else if flags & KERN_MINIMUM != 0 {
            match min_mode {
                0 => x = x.max(v),
                1 => {}
                _ => x = x.min(v),
            }
        } else {
            x += v;
        }
    }
    Ok((x, y))
}

// =====================================================================================================
// Part 6: minimal GSUB with one ligature lookup (to form a ligature glyph in the same run)
// =====================================================================================================

/// GSUB with feature `tag` -> one LigatureSubst lookup: first + rest -> lig, with lookup flag `flag`.
pub fn encode_gsub_ligature(tag: u32, flag: u16, first: G, rest: &[G], lig: G, enc: &Enc) -> Vec<u8> {
    let mut ligt = W::new();
    ligt.u16(lig).u16(rest.len() as u16 + 1);
    for g in rest {
        ligt.u16(*g);
    }
    let mut set = Tb::new();
    set.u16(1).off16(ligt.done());
    let mut st = Tb::new();
    st.u16(1).off16(coverage(&[first], enc.cov_fmt)).u16(1).off16(set.done());
    let mut l = Tb::new();
    l.u16(4).u16(flag).u16(1).off16(st.done());
    layout_header(&[(tag, vec![0])], vec![l.done()])
}
