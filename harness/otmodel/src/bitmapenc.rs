//! Spec-based builders for the table kinds that no small repository fixture contains (seed fonts of the C01
//! fault sweep): embedded bitmaps (`EBLC`/`EBDT`, `CBLC`/`CBDT`: every index subtable format 1-5 and every glyph
//! image format 1, 2, 5, 6, 7, 8, 9, 17, 18, 19), the AAT `morx` table (extended state tables, all lookup table
//! formats, rearrangement / contextual / ligature / noncontextual / insertion subtables, version 3 glyph coverage),
//! `SVG `, `STAT`, `name` format 1, `post` 2.0, `kern` version 0 and `vhea`/`vmtx`.
//!
//! Sources: OpenType 1.9 (EBLC, EBDT, CBLC, CBDT, SVG, STAT, name, post, kern, vhea, vmtx) and Apple's TrueType
//! Reference Manual chapter 6 (morx, "Lookup tables", "Extended state tables"). Independent of allsorts.

use crate::be::W;
use crate::sfnt::search_fields;

// =================================================================================================
// EBLC / EBDT / CBLC / CBDT

/// sbitLineMetrics (12 bytes; the two pad bytes are written as zero).
#[derive(Clone, Copy, Debug)]
pub struct LineMetrics {
    pub ascender: i8,
    pub descender: i8,
    pub width_max: u8,
    pub caret_slope_numerator: i8,
    pub caret_slope_denominator: i8,
    pub caret_offset: i8,
    pub min_origin_sb: i8,
    pub min_advance_sb: i8,
    pub max_before_bl: i8,
    pub min_after_bl: i8,
}

impl LineMetrics {
    /// upright metrics for a strike of `ppem` pixels whose widest glyph is `width_max`
    pub fn upright(ppem: u8, width_max: u8) -> LineMetrics {
        let asc = (ppem as i16 * 4 / 5) as i8;
        let desc = -((ppem as i16 - asc as i16) as i8);
        LineMetrics { ascender: asc, descender: desc, width_max, caret_slope_numerator: 1, caret_slope_denominator: 0, caret_offset: 0, min_origin_sb: 0, min_advance_sb: 0, max_before_bl: asc, min_after_bl: desc }
    }
    fn write(&self, w: &mut W) {
        w.i8(self.ascender).i8(self.descender).u8(self.width_max);
        w.i8(self.caret_slope_numerator).i8(self.caret_slope_denominator).i8(self.caret_offset);
        w.i8(self.min_origin_sb).i8(self.min_advance_sb).i8(self.max_before_bl).i8(self.min_after_bl);
        w.i8(0).i8(0);
    }
}

/// smallGlyphMetrics (5 bytes)
#[derive(Clone, Copy, Debug)]
pub struct SmallMetrics {
    pub height: u8,
    pub width: u8,
    pub bearing_x: i8,
    pub bearing_y: i8,
    pub advance: u8,
}

impl SmallMetrics {
    pub fn bytes(&self) -> Vec<u8> {
        vec![self.height, self.width, self.bearing_x as u8, self.bearing_y as u8, self.advance]
    }
}

/// bigGlyphMetrics (8 bytes)
#[derive(Clone, Copy, Debug)]
pub struct BigMetrics {
    pub height: u8,
    pub width: u8,
    pub hori_bearing_x: i8,
    pub hori_bearing_y: i8,
    pub hori_advance: u8,
    pub vert_bearing_x: i8,
    pub vert_bearing_y: i8,
    pub vert_advance: u8,
}

impl BigMetrics {
    pub fn bytes(&self) -> Vec<u8> {
        vec![self.height, self.width, self.hori_bearing_x as u8, self.hori_bearing_y as u8, self.hori_advance, self.vert_bearing_x as u8, self.vert_bearing_y as u8, self.vert_advance]
    }
    pub fn of(width: u8, height: u8) -> BigMetrics {
        BigMetrics { height, width, hori_bearing_x: 0, hori_bearing_y: height as i8, hori_advance: width + 1, vert_bearing_x: -((width / 2) as i8), vert_bearing_y: 0, vert_advance: height + 1 }
    }
}

pub fn small_of(width: u8, height: u8) -> SmallMetrics {
    SmallMetrics { height, width, bearing_x: 0, bearing_y: height as i8, advance: width + 1 }
}

/// Deterministic pixel data of a `width` x `height` bitmap with `depth` bits per pixel.
/// Byte aligned: every row starts on a byte boundary (image formats 1, 6); otherwise rows are packed
/// without padding and only the end of the image is padded (formats 2, 5, 7).
pub fn pixels(width: u8, height: u8, depth: u8, byte_aligned: bool) -> Vec<u8> {
    let (w, h, d) = (width as usize, height as usize, depth as usize);
    let len = if byte_aligned { h * ((w * d + 7) / 8) } else { (w * h * d + 7) / 8 };
    (0..len).map(|i| (0xA5u8).rotate_left((i % 8) as u32) ^ (i as u8).wrapping_mul(29)).collect()
}

/// A small byte string with the PNG signature, an IHDR of a 1x1 RGBA image and IEND (not a decodable image; the
/// font tables carry it opaquely).
pub fn fake_png(salt: u8) -> Vec<u8> {
    let mut v = vec![0x89, b'P', b'N', b'G', 0x0D, 0x0A, 0x1A, 0x0A];
    v.extend_from_slice(&[0, 0, 0, 13]);
    v.extend_from_slice(b"IHDR");
    v.extend_from_slice(&[0, 0, 0, 1, 0, 0, 0, 1, 8, 6, 0, 0, 0]);
    v.extend_from_slice(&[0x1F, 0x15, 0xC4, salt]);
    v.extend_from_slice(&[0, 0, 0, 0]);
    v.extend_from_slice(b"IEND");
    v.extend_from_slice(&[0xAE, 0x42, 0x60, 0x82]);
    v
}

/// Glyph bitmap data record of the EBDT/CBDT table for each image format.
pub fn image1(m: &SmallMetrics, depth: u8) -> Vec<u8> {
    let mut v = m.bytes();
    v.extend(pixels(m.width, m.height, depth, true));
    v
}
pub fn image2(m: &SmallMetrics, depth: u8) -> Vec<u8> {
    let mut v = m.bytes();
    v.extend(pixels(m.width, m.height, depth, false));
    v
}
/// format 5: bit-aligned image data only; the metrics live in the index subtable (formats 2 and 5)
pub fn image5(m: &BigMetrics, depth: u8) -> Vec<u8> {
    pixels(m.width, m.height, depth, false)
}
pub fn image6(m: &BigMetrics, depth: u8) -> Vec<u8> {
    let mut v = m.bytes();
    v.extend(pixels(m.width, m.height, depth, true));
    v
}
pub fn image7(m: &BigMetrics, depth: u8) -> Vec<u8> {
    let mut v = m.bytes();
    v.extend(pixels(m.width, m.height, depth, false));
    v
}
/// format 8: small metrics, pad byte, component array (glyph id, x offset, y offset)
pub fn image8(m: &SmallMetrics, components: &[(u16, i8, i8)]) -> Vec<u8> {
    let mut w = W::new();
    w.bytes(&m.bytes()).u8(0).u16(components.len() as u16);
    for c in components {
        w.u16(c.0).i8(c.1).i8(c.2);
    }
    w.done()
}
pub fn image9(m: &BigMetrics, components: &[(u16, i8, i8)]) -> Vec<u8> {
    let mut w = W::new();
    w.bytes(&m.bytes()).u16(components.len() as u16);
    for c in components {
        w.u16(c.0).i8(c.1).i8(c.2);
    }
    w.done()
}
pub fn image17(m: &SmallMetrics, png: &[u8]) -> Vec<u8> {
    let mut w = W::new();
    w.bytes(&m.bytes()).u32(png.len() as u32).bytes(png);
    w.done()
}
pub fn image18(m: &BigMetrics, png: &[u8]) -> Vec<u8> {
    let mut w = W::new();
    w.bytes(&m.bytes()).u32(png.len() as u32).bytes(png);
    w.done()
}
/// format 19: PNG data only; the metrics live in the index subtable (formats 2 and 5)
pub fn image19(png: &[u8]) -> Vec<u8> {
    let mut w = W::new();
    w.u32(png.len() as u32).bytes(png);
    w.done()
}

/// One index subtable with the images of its glyphs.
#[derive(Clone, Debug)]
pub struct IndexSub {
    /// 1..=5
    pub index_format: u16,
    pub image_format: u16,
    pub first_glyph: u16,
    pub last_glyph: u16,
    /// (glyph id, glyph bitmap data record), ascending glyph ids inside `first_glyph..=last_glyph`.
    /// Index formats 1 and 3: a glyph of the range that is absent here gets a zero-length entry.
    /// Index format 2: every glyph of the range must be present. Formats 2 and 5: all records must have the same
    /// length (shorter ones are zero padded to the longest — `imageSize`).
    pub images: Vec<(u16, Vec<u8>)>,
    /// index formats 2 and 5
    pub big_metrics: BigMetrics,
}

#[derive(Clone, Debug)]
pub struct Strike {
    pub ppem_x: u8,
    pub ppem_y: u8,
    pub bit_depth: u8,
    /// 1 = horizontal small metrics, 2 = vertical
    pub flags: i8,
    pub hori: LineMetrics,
    pub vert: LineMetrics,
    pub subs: Vec<IndexSub>,
}

impl Strike {
    pub fn new(ppem: u8, bit_depth: u8, subs: Vec<IndexSub>) -> Strike {
        let wm = subs.iter().map(|s| s.big_metrics.width).max().unwrap_or(0);
        Strike { ppem_x: ppem, ppem_y: ppem, bit_depth, flags: 1, hori: LineMetrics::upright(ppem, wm), vert: LineMetrics::upright(ppem, wm), subs }
    }
}

/// Build the location table (EBLC / CBLC) and the data table (EBDT / CBDT).
/// `major_version`: 2 for EBLC/EBDT, 3 for CBLC/CBDT (minor version 0).
///
/// Layout of the location table: header (8) | bitmapSize records (48 each) | for every strike: its
/// indexSubTableArray (8 bytes per subtable) immediately followed by its index subtables (each padded to a
/// 4-byte boundary). `indexTablesSize` covers the array and the subtables of the strike.
pub fn build_bitmaps(major_version: u16, strikes: &[Strike]) -> (Vec<u8>, Vec<u8>) {
    let mut dat = W::new();
    dat.u16(major_version).u16(0);
    // per strike: bytes of array + subtables
    let mut blocks: Vec<Vec<u8>> = Vec::new();
    for st in strikes {
        let n = st.subs.len();
        let mut subs: Vec<Vec<u8>> = Vec::new();
        for s in &st.subs {
            let image_data_offset = dat.len() as u32;
            let mut w = W::new();
            w.u16(s.index_format).u16(s.image_format).u32(image_data_offset);
            let const_size = s.images.iter().map(|i| i.1.len()).max().unwrap_or(0);
            match s.index_format {
                1 | 3 => {
                    // offsets for every glyph of the range plus one
                    let mut off = 0u32;
                    let mut offs = Vec::new();
                    for g in s.first_glyph..=s.last_glyph {
                        offs.push(off);
                        if let Some(img) = s.images.iter().find(|i| i.0 == g) {
                            dat.bytes(&img.1);
                            off += img.1.len() as u32;
                        }
                    }
                    offs.push(off);
                    for o in offs {
                        if s.index_format == 1 {
                            w.u32(o);
                        } else {
                            w.u16(o as u16);
                        }
                    }
                }
                2 => {
                    w.u32(const_size as u32).bytes(&s.big_metrics.bytes());
                    for g in s.first_glyph..=s.last_glyph {
                        let mut img = s.images.iter().find(|i| i.0 == g).map(|i| i.1.clone()).unwrap_or_default();
                        img.resize(const_size, 0);
                        dat.bytes(&img);
                    }
                }
                4 => {
                    w.u32(s.images.len() as u32);
                    let mut off = 0u16;
                    for (g, img) in &s.images {
                        w.u16(*g).u16(off);
                        dat.bytes(img);
                        off += img.len() as u16;
                    }
                    // the extra pair: glyph id 0, offset of the end of the last image
                    w.u16(0).u16(off);
                }
                5 => {
                    w.u32(const_size as u32).bytes(&s.big_metrics.bytes()).u32(s.images.len() as u32);
                    for (g, img) in &s.images {
                        w.u16(*g);
                        let mut img = img.clone();
                        img.resize(const_size, 0);
                        dat.bytes(&img);
                    }
                }
                _ => {}
            }
            w.pad_to(4);
            subs.push(w.done());
        }
        let mut block = W::new();
        let mut add = 8 * n;
        for (k, s) in st.subs.iter().enumerate() {
            block.u16(s.first_glyph).u16(s.last_glyph).u32(add as u32);
            add += subs[k].len();
        }
        for s in subs {
            block.bytes(&s);
        }
        blocks.push(block.done());
    }
    let mut loc = W::new();
    loc.u16(major_version).u16(0).u32(strikes.len() as u32);
    let mut array_off = 8 + 48 * strikes.len();
    for (k, st) in strikes.iter().enumerate() {
        loc.u32(array_off as u32).u32(blocks[k].len() as u32).u32(st.subs.len() as u32).u32(0);
        st.hori.write(&mut loc);
        st.vert.write(&mut loc);
        let start = st.subs.iter().map(|s| s.first_glyph).min().unwrap_or(0);
        let end = st.subs.iter().map(|s| s.last_glyph).max().unwrap_or(0);
        loc.u16(start).u16(end).u8(st.ppem_x).u8(st.ppem_y).u8(st.bit_depth).i8(st.flags);
        array_off += blocks[k].len();
    }
    for b in &blocks {
        loc.bytes(b);
    }
    (loc.done(), dat.done())
}

// =================================================================================================
// AAT lookup tables and morx

/// AAT lookup table ("Lookup tables" in the TrueType Reference Manual), 16-bit values unless stated.
#[derive(Clone, Debug)]
pub enum Lookup {
    /// format 0: one value per glyph of the font
    Simple(Vec<u16>),
    /// format 2: (first glyph, last glyph, value) sorted by last glyph
    SegmentSingle(Vec<(u16, u16, u16)>),
    /// format 4: (first glyph, last glyph, one value per glyph of the segment)
    SegmentArray(Vec<(u16, u16, Vec<u16>)>),
    /// format 6: (glyph, value) sorted by glyph
    Single(Vec<(u16, u16)>),
    /// format 8: first glyph, values
    Trimmed(u16, Vec<u16>),
    /// format 10: unit size (1, 2, 4 or 8), first glyph, values
    TrimmedSized(u16, u16, Vec<u64>),
}

fn bin_srch_header(w: &mut W, unit_size: u16, n_units: u16) {
    let (sr, es, rs) = search_fields(n_units, unit_size);
    w.u16(unit_size).u16(n_units).u16(sr).u16(es).u16(rs);
}

pub fn lookup(l: &Lookup) -> Vec<u8> {
    let mut w = W::new();
    match l {
        Lookup::Simple(v) => {
            w.u16(0);
            for x in v {
                w.u16(*x);
            }
        }
        Lookup::SegmentSingle(segs) => {
            w.u16(2);
            bin_srch_header(&mut w, 6, segs.len() as u16);
            for (first, last, v) in segs {
                w.u16(*last).u16(*first).u16(*v);
            }
            // end-of-search sentinel (not counted in nUnits)
            w.u16(0xFFFF).u16(0xFFFF).u16(0);
        }
        Lookup::SegmentArray(segs) => {
            w.u16(4);
            bin_srch_header(&mut w, 6, segs.len() as u16);
            // values follow the segments and the sentinel; offsets are from the start of the lookup table
            let mut off = 12 + 6 * (segs.len() + 1);
            for (first, last, vals) in segs {
                w.u16(*last).u16(*first).u16(off as u16);
                off += 2 * vals.len();
            }
            w.u16(0xFFFF).u16(0xFFFF).u16(0);
            for (_, _, vals) in segs {
                for v in vals {
                    w.u16(*v);
                }
            }
        }
        Lookup::Single(entries) => {
            w.u16(6);
            bin_srch_header(&mut w, 4, entries.len() as u16);
            for (g, v) in entries {
                w.u16(*g).u16(*v);
            }
            w.u16(0xFFFF).u16(0);
        }
        Lookup::Trimmed(first, vals) => {
            w.u16(8).u16(*first).u16(vals.len() as u16);
            for v in vals {
                w.u16(*v);
            }
        }
        Lookup::TrimmedSized(unit, first, vals) => {
            w.u16(10).u16(*unit).u16(*first).u16(vals.len() as u16);
            for v in vals {
                match unit {
                    1 => {
                        w.u8(*v as u8);
                    }
                    2 => {
                        w.u16(*v as u16);
                    }
                    4 => {
                        w.u32(*v as u32);
                    }
                    _ => {
                        w.u64(*v);
                    }
                }
            }
        }
    }
    w.pad_to(2);
    w.done()
}

/// Class codes fixed by the extended state table format.
pub const CLASS_END_OF_TEXT: u16 = 0;
pub const CLASS_OUT_OF_BOUNDS: u16 = 1;
pub const CLASS_DELETED: u16 = 2;
pub const CLASS_END_OF_LINE: u16 = 3;

/// The common part of an extended state table (STXHeader): the state array holds one row of `n_classes` entry
/// indices per state (state 0 = start of text, state 1 = start of line).
#[derive(Clone, Debug)]
pub struct StateTable {
    pub n_classes: u32,
    pub class_table: Lookup,
    pub states: Vec<Vec<u16>>,
}

/// Lay out an extended state subtable: STXHeader (16 bytes) | `extra_offsets` further u32 offsets | class table |
/// state array | entry table | the extra blocks, each 4-byte aligned. Offsets are from the start of the
/// STXHeader. The entry table is followed directly by the first extra block.
fn state_subtable(st: &StateTable, entries: &[u8], extra: &[Vec<u8>]) -> Vec<u8> {
    let header = 16 + 4 * extra.len();
    let mut class = lookup(&st.class_table);
    while class.len() % 4 != 0 {
        class.push(0);
    }
    let mut states = W::new();
    for row in &st.states {
        debug_assert_eq!(row.len() as u32, st.n_classes);
        for e in row {
            states.u16(*e);
        }
    }
    states.pad_to(4);
    let mut ent = entries.to_vec();
    while ent.len() % 4 != 0 {
        ent.push(0);
    }
    let class_off = header;
    let state_off = class_off + class.len();
    let entry_off = state_off + states.len();
    let mut w = W::new();
    w.u32(st.n_classes).u32(class_off as u32).u32(state_off as u32).u32(entry_off as u32);
    let mut off = entry_off + ent.len();
    for e in extra {
        w.u32(off as u32);
        off += (e.len() + 3) / 4 * 4;
    }
    w.bytes(&class).bytes(&states.b).bytes(&ent);
    for e in extra {
        w.bytes(e).pad_to(4);
    }
    w.done()
}

/// Rearrangement subtable (type 0). Entries: (new state, flags).
pub fn morx_rearrangement(st: &StateTable, entries: &[(u16, u16)]) -> Vec<u8> {
    let mut e = W::new();
    for (ns, fl) in entries {
        e.u16(*ns).u16(*fl);
    }
    state_subtable(st, &e.b, &[])
}

/// Contextual substitution subtable (type 1). Entries: (new state, flags, mark index, current index);
/// flags 0x8000 = set mark, 0x4000 = don't advance; index 0xFFFF = no substitution.
/// The substitution table is an array of u32 offsets (from its own start) to lookup tables.
pub fn morx_contextual(st: &StateTable, entries: &[(u16, u16, u16, u16)], substitutions: &[Lookup]) -> Vec<u8> {
    let mut e = W::new();
    for (ns, fl, mi, ci) in entries {
        e.u16(*ns).u16(*fl).u16(*mi).u16(*ci);
    }
    let tables: Vec<Vec<u8>> = substitutions
        .iter()
        .map(|l| {
            let mut t = lookup(l);
            while t.len() % 4 != 0 {
                t.push(0);
            }
            t
        })
        .collect();
    let mut s = W::new();
    let mut off = 4 * tables.len();
    for t in &tables {
        s.u32(off as u32);
        off += t.len();
    }
    for t in &tables {
        s.bytes(t);
    }
    state_subtable(st, &e.b, &[s.done()])
}

pub const LIG_SET_COMPONENT: u16 = 0x8000;
pub const LIG_DONT_ADVANCE: u16 = 0x4000;
pub const LIG_PERFORM_ACTION: u16 = 0x2000;
pub const LIG_ACTION_LAST: u32 = 0x8000_0000;
pub const LIG_ACTION_STORE: u32 = 0x4000_0000;

/// A ligature action: flags in the top two bits, a 30-bit signed offset added to the popped glyph index to give
/// the index into the component table.
pub fn lig_action(flags: u32, offset: i32) -> u32 {
    flags | (offset as u32 & 0x3FFF_FFFF)
}

/// Ligature subtable (type 2). Entries: (next state, flags, ligature action index).
pub fn morx_ligature(st: &StateTable, entries: &[(u16, u16, u16)], actions: &[u32], components: &[u16], ligatures: &[u16]) -> Vec<u8> {
    let mut e = W::new();
    for (ns, fl, ai) in entries {
        e.u16(*ns).u16(*fl).u16(*ai);
    }
    let mut a = W::new();
    for x in actions {
        a.u32(*x);
    }
    let mut c = W::new();
    for x in components {
        c.u16(*x);
    }
    let mut l = W::new();
    for x in ligatures {
        l.u16(*x);
    }
    state_subtable(st, &e.b, &[a.done(), c.done(), l.done()])
}

/// Noncontextual ("swash") subtable (type 4): a lookup table mapping glyphs to glyphs.
pub fn morx_noncontextual(l: &Lookup) -> Vec<u8> {
    let mut t = lookup(l);
    while t.len() % 4 != 0 {
        t.push(0);
    }
    t
}

/// Insertion subtable (type 5). Entries: (new state, flags, current insert index, marked insert index);
/// the low 10 bits of the flags hold the two insertion counts (current: bits 5-9, marked: bits 0-4).
pub fn morx_insertion(st: &StateTable, entries: &[(u16, u16, u16, u16)], insert_glyphs: &[u16]) -> Vec<u8> {
    let mut e = W::new();
    for (ns, fl, ci, mi) in entries {
        e.u16(*ns).u16(*fl).u16(*ci).u16(*mi);
    }
    let mut g = W::new();
    for x in insert_glyphs {
        g.u16(*x);
    }
    state_subtable(st, &e.b, &[g.done()])
}

#[derive(Clone, Debug)]
pub struct MorxSubtable {
    /// low byte: subtable type; top byte: 0x80 vertical, 0x40 descending, 0x20 both orientations, 0x10 logical order
    pub coverage: u32,
    pub sub_feature_flags: u32,
    pub body: Vec<u8>,
    /// version 3 only: glyphs covered (None = offset 0xFFFFFFFF, no bitfield)
    pub glyph_coverage: Option<Vec<u16>>,
}

#[derive(Clone, Debug)]
pub struct MorxChain {
    pub default_flags: u32,
    /// (feature type, feature setting, enable flags, disable flags)
    pub features: Vec<(u16, u16, u32, u32)>,
    pub subtables: Vec<MorxSubtable>,
}

/// `morx` version 2 or 3. Version 3 appends the subtableGlyphCoverageArray (one u32 offset per subtable followed by
/// bitfields of ceil(numGlyphs / 8) bytes, bit k of byte j = glyph 8j + k) to every chain; chainLength includes it.
pub fn morx_table(version: u16, num_glyphs: u16, chains: &[MorxChain]) -> Vec<u8> {
    let mut w = W::new();
    w.u16(version).u16(0).u32(chains.len() as u32);
    for ch in chains {
        let mut c = W::new();
        c.u32(ch.default_flags).u32(0).u32(ch.features.len() as u32).u32(ch.subtables.len() as u32);
        for (t, s, en, dis) in &ch.features {
            c.u16(*t).u16(*s).u32(*en).u32(*dis);
        }
        for s in &ch.subtables {
            let mut body = s.body.clone();
            while body.len() % 4 != 0 {
                body.push(0);
            }
            c.u32(12 + body.len() as u32).u32(s.coverage).u32(s.sub_feature_flags).bytes(&body);
        }
        if version >= 3 {
            let bytes_per = (num_glyphs as usize + 7) / 8;
            let mut off = 4 * ch.subtables.len();
            let mut fields = W::new();
            for s in &ch.subtables {
                match &s.glyph_coverage {
                    Some(glyphs) => {
                        c.u32(off as u32);
                        let mut bits = vec![0u8; bytes_per];
                        for g in glyphs {
                            if (*g as usize) < num_glyphs as usize {
                                bits[*g as usize / 8] |= 1 << (*g % 8);
                            }
                        }
                        fields.bytes(&bits);
                        off += bytes_per;
                    }
                    None => {
                        c.u32(0xFFFF_FFFF);
                    }
                }
            }
            c.bytes(&fields.b).pad_to(4);
        }
        let len = c.len() as u32;
        c.set_u32(4, len);
        w.bytes(&c.b);
    }
    w.done()
}

// =================================================================================================
// SVG

pub fn gzip(data: &[u8]) -> Vec<u8> {
    use flate2::write::GzEncoder;
    use flate2::Compression;
    use std::io::Write;
    let mut e = GzEncoder::new(Vec::new(), Compression::new(6));
    e.write_all(data).unwrap();
    e.finish().unwrap()
}

/// `SVG ` table version 0: header (10 bytes) | document list (count + 12-byte records, offsets from the start of the
/// list) | documents. `docs`: (start glyph, end glyph, document bytes as stored), sorted by start glyph.
pub fn svg_table(docs: &[(u16, u16, Vec<u8>)]) -> Vec<u8> {
    let mut w = W::new();
    w.u16(0).u32(10).u32(0);
    w.u16(docs.len() as u16);
    let mut off = 2 + 12 * docs.len();
    for (s, e, d) in docs {
        w.u16(*s).u16(*e).u32(off as u32).u32(d.len() as u32);
        off += d.len();
    }
    for (_, _, d) in docs {
        w.bytes(d);
    }
    w.done()
}

// =================================================================================================
// STAT

#[derive(Clone, Debug)]
pub enum AxisValue {
    /// format 1: axis index, flags, value name id, value (16.16)
    F1(u16, u16, u16, i32),
    /// format 2: axis index, flags, name id, nominal, range min, range max
    F2(u16, u16, u16, i32, i32, i32),
    /// format 3: axis index, flags, name id, value, linked value
    F3(u16, u16, u16, i32, i32),
    /// format 4: flags, name id, (axis index, value) per contributing axis
    F4(u16, u16, Vec<(u16, i32)>),
}

/// `STAT` version 1.2: header (20) | design axis records (8 each: tag, name id, ordering) | axis value offsets
/// (u16, from the start of this array) | axis value tables.
pub fn stat_table(axes: &[(u32, u16, u16)], values: &[AxisValue], elided_fallback_name_id: u16) -> Vec<u8> {
    let mut w = W::new();
    let axes_off = 20u32;
    let offsets_off = axes_off + 8 * axes.len() as u32;
    w.u16(1).u16(2).u16(8).u16(axes.len() as u16).u32(axes_off).u16(values.len() as u16).u32(offsets_off).u16(elided_fallback_name_id);
    for (t, n, o) in axes {
        w.u32(*t).u16(*n).u16(*o);
    }
    let mut tabs: Vec<Vec<u8>> = Vec::new();
    for v in values {
        let mut t = W::new();
        match v {
            AxisValue::F1(a, f, n, x) => {
                t.u16(1).u16(*a).u16(*f).u16(*n).i32(*x);
            }
            AxisValue::F2(a, f, n, x, lo, hi) => {
                t.u16(2).u16(*a).u16(*f).u16(*n).i32(*x).i32(*lo).i32(*hi);
            }
            AxisValue::F3(a, f, n, x, l) => {
                t.u16(3).u16(*a).u16(*f).u16(*n).i32(*x).i32(*l);
            }
            AxisValue::F4(f, n, av) => {
                t.u16(4).u16(av.len() as u16).u16(*f).u16(*n);
                for (a, x) in av {
                    t.u16(*a).i32(*x);
                }
            }
        }
        tabs.push(t.done());
    }
    let mut off = 2 * values.len();
    for t in &tabs {
        w.u16(off as u16);
        off += t.len();
    }
    for t in &tabs {
        w.bytes(t);
    }
    w.done()
}

// =================================================================================================
// name format 1

pub fn utf16be(s: &str) -> Vec<u8> {
    s.encode_utf16().flat_map(|u| u.to_be_bytes()).collect()
}

/// `name` table version 1: header (6) | name records (12 each) | langTagCount | langTag records (4 each) | strings.
/// `records`: (platform, encoding, language, name id, encoded string), sorted as the specification requires by the
/// caller; language ids >= 0x8000 refer to `lang_tags[id - 0x8000]` (BCP 47 tags, stored as UTF-16BE).
pub fn name_v1(records: &[(u16, u16, u16, u16, Vec<u8>)], lang_tags: &[&str]) -> Vec<u8> {
    let mut w = W::new();
    let storage = 6 + 12 * records.len() + 2 + 4 * lang_tags.len();
    w.u16(1).u16(records.len() as u16).u16(storage as u16);
    let mut strings = W::new();
    for (p, e, l, n, s) in records {
        w.u16(*p).u16(*e).u16(*l).u16(*n).u16(s.len() as u16).u16(strings.len() as u16);
        strings.bytes(s);
    }
    w.u16(lang_tags.len() as u16);
    for t in lang_tags {
        let s = utf16be(t);
        w.u16(s.len() as u16).u16(strings.len() as u16);
        strings.bytes(&s);
    }
    w.bytes(&strings.b);
    w.done()
}

// =================================================================================================
// post 2.0

/// `post` version 2.0: `glyph_names[g]` is either a standard Macintosh glyph index (< 258) or a custom name.
#[derive(Clone, Debug)]
pub enum PostName {
    Standard(u16),
    Custom(String),
}

pub fn post_v2(glyph_names: &[PostName]) -> Vec<u8> {
    let mut w = W::new();
    w.u32(0x0002_0000).u32(0).i16(-100).i16(50).u32(0).u32(0).u32(0).u32(0).u32(0);
    w.u16(glyph_names.len() as u16);
    let mut custom: Vec<&str> = Vec::new();
    for n in glyph_names {
        match n {
            PostName::Standard(i) => {
                w.u16(*i);
            }
            PostName::Custom(s) => {
                // identical names share one string
                let k = match custom.iter().position(|c| *c == s.as_str()) {
                    Some(k) => k,
                    None => {
                        custom.push(s);
                        custom.len() - 1
                    }
                };
                w.u16(258 + k as u16);
            }
        }
    }
    for s in custom {
        w.u8(s.len() as u8).bytes(s.as_bytes());
    }
    w.done()
}

// =================================================================================================
// kern version 0

#[derive(Clone, Debug)]
pub enum KernSub {
    /// format 0: coverage low byte (1 horizontal, 2 minimum, 4 cross-stream, 8 override), sorted (left, right, value)
    Pairs(u8, Vec<(u16, u16, i16)>),
    /// format 2: coverage low byte, first left glyph, left classes (row index per glyph), first right glyph, right
    /// classes (column index per glyph), rows x columns values
    Classes(u8, u16, Vec<u16>, u16, Vec<u16>, Vec<Vec<i16>>),
}

/// `kern` table version 0 with any number of subtables (each: version 0, length, coverage with the format in the
/// high byte).
pub fn kern_v0(subs: &[KernSub]) -> Vec<u8> {
    let mut w = W::new();
    w.u16(0).u16(subs.len() as u16);
    for s in subs {
        let mut t = W::new();
        match s {
            KernSub::Pairs(cov, pairs) => {
                let n = pairs.len() as u16;
                let (sr, es, rs) = search_fields(n, 6);
                t.u16(0).u16(0).u16(*cov as u16);
                t.u16(n).u16(sr).u16(es).u16(rs);
                for (l, r, v) in pairs {
                    t.u16(*l).u16(*r).i16(*v);
                }
            }
            KernSub::Classes(cov, lfirst, lclasses, rfirst, rclasses, rows) => {
                let cols = rows.first().map_or(0, |r| r.len());
                let row_width = 2 * cols;
                // subtable header (6) | rowWidth, leftClassTable, rightClassTable, array (8) | left | right | array
                let left_off = 14;
                let right_off = left_off + 4 + 2 * lclasses.len();
                let array_off = right_off + 4 + 2 * rclasses.len();
                t.u16(0).u16(0).u16(0x0200 | *cov as u16);
                t.u16(row_width as u16).u16(left_off as u16).u16(right_off as u16).u16(array_off as u16);
                // left class values are byte offsets from the start of the subtable to the start of the row
                t.u16(*lfirst).u16(lclasses.len() as u16);
                for c in lclasses {
                    t.u16((array_off + *c as usize * row_width) as u16);
                }
                // right class values are byte offsets of the column within a row
                t.u16(*rfirst).u16(rclasses.len() as u16);
                for c in rclasses {
                    t.u16(*c * 2);
                }
                for r in rows {
                    for v in r {
                        t.i16(*v);
                    }
                }
            }
        }
        let len = t.len() as u16;
        t.set_u16(2, len);
        w.bytes(&t.b);
    }
    w.done()
}

// =================================================================================================
// vhea / vmtx

/// `vhea` version 1.1 (36 bytes).
pub fn vhea(num_long_ver_metrics: u16, advance_height_max: u16) -> Vec<u8> {
    let mut w = W::new();
    w.u32(0x0001_1000);
    w.i16(500).i16(-500).i16(0); // vertTypoAscender, vertTypoDescender, vertTypoLineGap
    w.u16(advance_height_max);
    w.i16(0).i16(0).i16(1000); // minTopSideBearing, minBottomSideBearing, yMaxExtent
    w.i16(0).i16(1).i16(0); // caretSlopeRise, caretSlopeRun, caretOffset (vertical caret)
    w.i16(0).i16(0).i16(0).i16(0);
    w.i16(0); // metricDataFormat
    w.u16(num_long_ver_metrics);
    w.done()
}

/// `vmtx` (and `hmtx`): `long` = (advance, side bearing) records, then one side bearing for each remaining glyph.
pub fn long_metrics(long: &[(u16, i16)], rest: &[i16]) -> Vec<u8> {
    let mut w = W::new();
    for (a, b) in long {
        w.u16(*a).i16(*b);
    }
    for b in rest {
        w.i16(*b);
    }
    w.done()
}

// =================================================================================================
// gvar without variation data

/// `gvar` 1.0 for `glyph_count` glyphs none of which has variation data (short offsets, all zero): enough for an
/// instancer to accept a TrueType-flavoured variable font.
pub fn gvar_empty(axis_count: u16, glyph_count: u16) -> Vec<u8> {
    let mut w = W::new();
    let data_off = 20 + 2 * (glyph_count as u32 + 1);
    w.u16(1).u16(0).u16(axis_count).u16(0).u32(data_off).u16(glyph_count).u16(0).u32(data_off);
    for _ in 0..=glyph_count {
        w.u16(0);
    }
    w.done()
}
