//! mcx — small model-checking engines used by every check in /verif.
//!
//! * `Chooser` / `explore` / `explore_par`: stateless, deviation-bounded, exhaustive choice-tree
//!   exploration of a deterministic body (sequential analogue of CHESS/loom).
//! * `bfs`: level-synchronous explicit-state breadth first search with caller-supplied canonical keys.
//! * `guard`: run a closure, turning a panic into a value that carries message and source location.
//! * `Ctx`: coverage counters, distinct-case sets, samples, violation bookkeeping, known-findings
//!   matching, evidence and replay files, exit code.

pub mod ctx;
pub mod explore;
pub mod guard;
pub mod search;

pub use ctx::{Ctx, Tier};
pub use explore::{explore, explore_par, Chooser, ExploreStats};
pub use guard::{guard, install_quiet_panic_hook, PanicInfo};
pub use search::{bfs, BfsStats};

/// FNV-1a 64 bit — deterministic hashing for canonical case keys (never `RandomState`).
pub fn fnv64(bytes: &[u8]) -> u64 {
    let mut h: u64 = 0xcbf29ce484222325;
    for b in bytes {
        h ^= *b as u64;
        h = h.wrapping_mul(0x100000001b3);
    }
    h
}

/// Incremental deterministic hasher.
#[derive(Clone, Copy)]
pub struct H(pub u64);
impl H {
    pub fn new() -> H {
        H(0xcbf29ce484222325)
    }
    pub fn u8(mut self, b: u8) -> H {
        self.0 ^= b as u64;
        self.0 = self.0.wrapping_mul(0x100000001b3);
        self
    }
    pub fn bytes(mut self, bs: &[u8]) -> H {
        for b in bs {
            self = self.u8(*b);
        }
        self.u8(0xfe)
    }
    pub fn u64(self, v: u64) -> H {
        self.bytes(&v.to_le_bytes())
    }
    pub fn str(self, s: &str) -> H {
        self.bytes(s.as_bytes())
    }
    pub fn get(self) -> u64 {
        // final avalanche so that low bits are usable for sharding
        let mut x = self.0;
        x ^= x >> 33;
        x = x.wrapping_mul(0xff51afd7ed558ccd);
        x ^= x >> 33;
        x
    }
}

impl Default for H {
    fn default() -> Self {
        H::new()
    }
}

pub fn hex(bytes: &[u8]) -> String {
    let mut s = String::with_capacity(bytes.len() * 2);
    for b in bytes {
        s.push_str(&format!("{:02x}", b));
    }
    s
}

pub fn unhex(s: &str) -> Vec<u8> {
    (0..s.len() / 2)
        .map(|i| u8::from_str_radix(&s[2 * i..2 * i + 2], 16).unwrap())
        .collect()
}
