//! Explicit-state breadth-first search. The caller supplies the successor function (which runs real
//! code) and a canonical key; states with equal keys are merged. Level synchronous so that the first
//! witness of every state is a shortest one and counts are deterministic.

use rayon::prelude::*;
use std::collections::HashSet;
use std::hash::Hash;

#[derive(Clone, Copy, Debug, Default)]
pub struct BfsStats {
    pub states: u64,
    pub transitions: u64,
    pub depth: u64,
    pub fixpoint: bool,
}

/// `succ(state)` returns all successors (one per enabled operation). `key` is the canonical form.
/// Search stops at a fixpoint or after `max_depth` levels / `max_states` states.
pub fn bfs<S, K, FS, FK>(init: Vec<S>, key: FK, succ: FS, max_depth: u64, max_states: u64) -> BfsStats
where
    S: Send + Sync,
    K: Hash + Eq + Send,
    FS: Fn(&S) -> Vec<S> + Sync,
    FK: Fn(&S) -> K + Sync,
{
    let mut seen: HashSet<K> = HashSet::new();
    let mut frontier: Vec<S> = Vec::new();
    for s in init {
        if seen.insert(key(&s)) {
            frontier.push(s);
        }
    }
    let mut st = BfsStats { states: frontier.len() as u64, ..Default::default() };
    while !frontier.is_empty() {
        if st.depth >= max_depth || st.states >= max_states {
            return st;
        }
        let next: Vec<Vec<(K, S)>> = frontier
            .par_iter()
            .map(|s| succ(s).into_iter().map(|n| (key(&n), n)).collect())
            .collect();
        let mut nf = Vec::new();
        for v in next {
            for (k, n) in v {
                st.transitions += 1;
                if seen.insert(k) {
                    nf.push(n);
                }
            }
        }
        st.states += nf.len() as u64;
        if !nf.is_empty() {
            st.depth += 1;
        }
        frontier = nf;
    }
    st.fixpoint = true;
    st
}
