//! Per-check context: coverage counters, distinct-case sets, samples, violations, known findings,
//! evidence + replay files, exit code.

use serde_json::{json, Map, Value};
use std::collections::{BTreeMap, HashSet};
use std::path::PathBuf;
use std::sync::atomic::{AtomicU64, Ordering};
use std::sync::Mutex;
use std::time::Instant;

#[derive(Clone, Copy, Debug, PartialEq, Eq)]
pub enum Tier {
    Quick,
    Thorough,
}

impl Tier {
    pub fn name(&self) -> &'static str {
        match self {
            Tier::Quick => "quick",
            Tier::Thorough => "thorough",
        }
    }
    pub fn thorough(&self) -> bool {
        *self == Tier::Thorough
    }
}

const SHARDS: usize = 64;

pub struct DistinctSet {
    shards: Vec<Mutex<HashSet<u64>>>,
}

impl DistinctSet {
    fn new() -> Self {
        DistinctSet { shards: (0..SHARDS).map(|_| Mutex::new(HashSet::new())).collect() }
    }
    pub fn insert(&self, h: u64) -> bool {
        self.shards[(h >> 58) as usize % SHARDS].lock().unwrap().insert(h)
    }
    pub fn len(&self) -> u64 {
        self.shards.iter().map(|s| s.lock().unwrap().len() as u64).sum()
    }
}

struct Viol {
    count: u64,
    witness: Value,
}

pub struct Ctx {
    pub id: String,
    pub tier: Tier,
    pub seed: u64,
    pub level: String,
    pub verif_root: PathBuf,
    start: Instant,
    pub evaluations: AtomicU64,
    pub states: AtomicU64,
    pub transitions: AtomicU64,
    pub traces: AtomicU64,
    pub nontrivial: DistinctSet,
    pub outcomes: DistinctSet,
    samples: Mutex<Vec<(u64, Value)>>,
    violations: Mutex<BTreeMap<String, Viol>>,
    extra: Mutex<Map<String, Value>>,
    assumptions: Mutex<Vec<String>>,
    rule: Mutex<String>,
    exhaustive: Mutex<bool>,
    known: Vec<(String, String)>, // (key, what) for this property
}

fn read_known(root: &PathBuf, id: &str) -> Vec<(String, String)> {
    let mut v = Vec::new();
    if let Ok(s) = std::fs::read_to_string(root.join("KNOWN_FINDINGS.txt")) {
        for line in s.lines() {
            let line = line.trim();
            if !line.starts_with("known:") {
                continue;
            }
            let mut prop = None;
            let mut key = None;
            let mut what = String::new();
            for tok in line["known:".len()..].split_whitespace() {
                if let Some(p) = tok.strip_prefix("property=") {
                    prop = Some(p.to_string());
                } else if let Some(k) = tok.strip_prefix("key=") {
                    key = Some(k.to_string());
                }
            }
            if let Some(i) = line.find("what=") {
                what = line[i + 5..].to_string();
            }
            if prop.as_deref() == Some(id) {
                if let Some(k) = key {
                    v.push((k, what));
                }
            }
        }
    }
    v
}

impl Ctx {
    pub fn new(id: &str, tier: Tier, level: &str) -> Ctx {
        let verif_root =
            PathBuf::from(std::env::var("VERIF_ROOT").unwrap_or_else(|_| "/verif".to_string()));
        let seed = std::env::var("VERIF_SEED").ok().and_then(|s| s.parse().ok()).unwrap_or(0);
        let known = read_known(&verif_root, id);
        crate::guard::install_quiet_panic_hook();
        Ctx {
            id: id.to_string(),
            tier,
            seed,
            level: level.to_string(),
            verif_root,
            start: Instant::now(),
            evaluations: AtomicU64::new(0),
            states: AtomicU64::new(0),
            transitions: AtomicU64::new(0),
            traces: AtomicU64::new(0),
            nontrivial: DistinctSet::new(),
            outcomes: DistinctSet::new(),
            samples: Mutex::new(Vec::new()),
            violations: Mutex::new(BTreeMap::new()),
            extra: Mutex::new(Map::new()),
            assumptions: Mutex::new(Vec::new()),
            rule: Mutex::new(String::new()),
            exhaustive: Mutex::new(true),
            known,
        }
    }

    pub fn elapsed(&self) -> f64 {
        self.start.elapsed().as_secs_f64()
    }

    /// one complete execution of real code compared with the model
    pub fn evals(&self, n: u64) {
        self.evaluations.fetch_add(n, Ordering::Relaxed);
        self.traces.fetch_add(n, Ordering::Relaxed);
    }
    pub fn add_states(&self, n: u64) {
        self.states.fetch_add(n, Ordering::Relaxed);
    }
    pub fn add_transitions(&self, n: u64) {
        self.transitions.fetch_add(n, Ordering::Relaxed);
    }
    pub fn add_explore(&self, s: &crate::ExploreStats) {
        self.add_states(s.states);
        self.add_transitions(s.transitions);
        self.evals(s.executions);
    }
    pub fn mark_nontrivial(&self, h: u64) {
        self.nontrivial.insert(h);
    }
    pub fn mark_outcome(&self, h: u64) {
        self.outcomes.insert(h);
    }
    pub fn set_rule(&self, r: &str) {
        *self.rule.lock().unwrap() = r.to_string();
    }
    pub fn assume(&self, a: &str) {
        let mut v = self.assumptions.lock().unwrap();
        if !v.iter().any(|x| x == a) {
            v.push(a.to_string());
        }
    }
    pub fn set(&self, k: &str, v: Value) {
        self.extra.lock().unwrap().insert(k.to_string(), v);
    }
    /// add to a numeric extra counter
    pub fn bump(&self, k: &str, n: u64) {
        let mut e = self.extra.lock().unwrap();
        let cur = e.get(k).and_then(|v| v.as_u64()).unwrap_or(0);
        e.insert(k.to_string(), json!(cur + n));
    }
    pub fn not_exhaustive(&self, why: &str) {
        *self.exhaustive.lock().unwrap() = false;
        let mut e = self.extra.lock().unwrap();
        let mut caps = e.get("caps_hit").and_then(|v| v.as_array().cloned()).unwrap_or_default();
        if !caps.iter().any(|c| c.as_str() == Some(why)) {
            caps.push(json!(why));
        }
        e.insert("caps_hit".into(), Value::Array(caps));
    }

    /// Offer a sample case; a handful are kept (the first few plus those whose hash is closest to the
    /// seed, so that VERIF_SEED rotates what is shown without affecting what is explored).
    pub fn sample(&self, h: u64, mk: impl FnOnce() -> Value) {
        let score = h ^ self.seed.wrapping_mul(0x9e3779b97f4a7c15);
        let mut s = self.samples.lock().unwrap();
        if s.len() < 6 {
            s.push((score, mk()));
            return;
        }
        let (imax, max) = s.iter().enumerate().skip(2).map(|(i, x)| (i, x.0)).max_by_key(|x| x.1).unwrap();
        if score < max {
            s[imax] = (score, mk());
        }
    }
    pub fn samples_len(&self) -> usize {
        self.samples.lock().unwrap().len()
    }

    /// Report a disagreement. `key` identifies the *class* of failure (stable, no whitespace): it is
    /// matched against KNOWN_FINDINGS.txt and names the replay file. The first witness per key is kept.
    pub fn violation(&self, key: &str, mk: impl FnOnce() -> Value) {
        let key: String = key.chars().map(|c| if c.is_whitespace() { '_' } else { c }).collect();
        let mut v = self.violations.lock().unwrap();
        match v.get_mut(&key) {
            Some(e) => e.count += 1,
            None => {
                v.insert(key, Viol { count: 1, witness: mk() });
            }
        }
    }

    pub fn violation_keys(&self) -> Vec<String> {
        self.violations.lock().unwrap().keys().cloned().collect()
    }

    pub fn is_known(&self, key: &str) -> bool {
        self.known.iter().any(|(k, _)| k == key)
    }

    /// Write evidence + replay files, print verdict lines, return the process exit code.
    pub fn finish(self) -> i32 {
        let wall = self.elapsed();
        let viols = self.violations.into_inner().unwrap();
        let mut new_count = 0;
        let mut known_hit: Vec<String> = Vec::new();
        let mut lines: Vec<String> = Vec::new();
        let mut viol_summary = Vec::new();
        let mut machinery: Vec<Value> = Vec::new();
        let replay_dir = self.verif_root.join("replays").join(&self.id);
        for (key, v) in &viols {
            if let Some((_, what)) = self.known.iter().find(|(k, _)| k == key) {
                known_hit.push(key.clone());
                lines.push(format!(
                    "KNOWN-FINDING: property={} key={} cases={} {}",
                    self.id, key, v.count, what
                ));
            } else if key.contains(":machinery:") {
                // the harness itself failed (a worker that ended without a result, a cross-check between engines that
                // disagrees): never a verdict about the property - reported on its own line, exit code 2
                machinery.push(json!({"key": key, "cases": v.count, "witness": v.witness}));
                lines.push(format!("MACHINERY-ERROR: property={} key={} cases={} {}", self.id, key, v.count, v.witness));
            } else {
                new_count += 1;
                let _ = std::fs::create_dir_all(&replay_dir);
                let fname = format!("{:016x}.json", crate::fnv64(key.as_bytes()));
                let path = replay_dir.join(fname);
                let doc = json!({
                    "property_id": self.id, "tier": self.tier.name(), "key": key,
                    "cases_with_this_key": v.count, "witness": v.witness,
                });
                let _ = std::fs::write(&path, serde_json::to_string_pretty(&doc).unwrap());
                lines.push(format!("VIOLATION property={} replay={}", self.id, path.display()));
                viol_summary.push(json!({"key": key, "cases": v.count, "replay": path.display().to_string()}));
            }
        }
        let stale: Vec<String> =
            self.known.iter().filter(|(k, _)| !viols.contains_key(k)).map(|(k, _)| k.clone()).collect();

        let mut cov = self.extra.into_inner().unwrap();
        let evals = self.evaluations.load(Ordering::Relaxed);
        let states = self.states.load(Ordering::Relaxed);
        let transitions = self.transitions.load(Ordering::Relaxed);
        cov.insert("evaluations".into(), json!(evals));
        cov.insert("states".into(), json!(states));
        cov.insert("transitions".into(), json!(transitions));
        if !machinery.is_empty() {
            cov.insert("machinery_errors".into(), Value::Array(machinery.clone()));
        }
        cov.insert("traces_validated_against_impl".into(), json!(self.traces.load(Ordering::Relaxed)));
        cov.insert("distinct_nontrivial".into(), json!(self.nontrivial.len()));
        cov.insert("distinct_outcomes".into(), json!(self.outcomes.len()));
        cov.insert("rule".into(), json!(self.rule.into_inner().unwrap()));
        cov.insert("exhaustive".into(), json!(self.exhaustive.into_inner().unwrap()));
        let mut samples: Vec<Value> =
            self.samples.into_inner().unwrap().into_iter().map(|(_, v)| v).collect();
        if samples.is_empty() {
            samples.push(json!("no sample recorded"));
        }
        cov.insert("samples".into(), Value::Array(samples));
        if !cov.contains_key("caps_hit") {
            cov.insert("caps_hit".into(), json!([]));
        }
        let ev = json!({
            "property_id": self.id,
            "tier": self.tier.name(),
            "seed": self.seed,
            "level": self.level,
            "coverage": Value::Object(cov),
            "assumptions": self.assumptions.into_inner().unwrap(),
            "wall_s": (wall * 1000.0).round() / 1000.0,
            "violations": new_count,
            "violation_list": viol_summary,
            "known_findings": known_hit,
            "stale_known_findings": stale,
        });
        let evdir = self.verif_root.join("evidence");
        let _ = std::fs::create_dir_all(&evdir);
        let evpath = evdir.join(format!("{}.json", self.id));
        std::fs::write(&evpath, serde_json::to_string_pretty(&ev).unwrap() + "\n")
            .expect("cannot write evidence");
        for l in &lines {
            println!("{}", l);
        }
        println!(
            "{} {}: evaluations={} states={} transitions={} distinct_nontrivial={} outcomes={} violations={} known={} wall={:.1}s",
            self.id,
            self.tier.name(),
            evals,
            states,
            transitions,
            ev["coverage"]["distinct_nontrivial"],
            ev["coverage"]["distinct_outcomes"],
            new_count,
            ev["known_findings"].as_array().map(|a| a.len()).unwrap_or(0),
            wall
        );
        if new_count > 0 {
            1
        } else if !machinery.is_empty() {
            2
        } else {
            0
        }
    }
}
