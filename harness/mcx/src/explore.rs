//! Stateless choice-tree exploration with a deviation bound.
//!
//! A body is a deterministic function of the answers it receives from `Chooser::pick` (free choice
//! point: every alternative is explored) and `Chooser::dev` (deviation point: alternative 0 is the
//! default answer; an execution may take at most `bound` non-default answers). The explorer enumerates
//! *every* answer sequence admitted by the bound, always running the body to completion.

use rayon::prelude::*;

#[derive(Clone, Copy, Debug)]
struct Pt {
    choice: u32,
    arity: u32,
    dev: bool,
}

pub struct Chooser<'a> {
    prefix: &'a [u32],
    trace: Vec<Pt>,
    devs: u32,
    bound: u32,
    /// positions >= freeze are answered 0 and never varied (used while collecting subtree roots)
    freeze: usize,
}

impl<'a> Chooser<'a> {
    fn new(prefix: &'a [u32], bound: u32, freeze: usize) -> Self {
        Chooser { prefix, trace: Vec::with_capacity(16), devs: 0, bound, freeze }
    }

    fn next(&mut self, n: usize, dev: bool) -> usize {
        assert!(n >= 1, "mcx: choice point with zero alternatives");
        let idx = self.trace.len();
        let c = if idx < self.prefix.len() { self.prefix[idx] } else { 0 };
        assert!(
            (c as usize) < n,
            "mcx: replay divergence: choice {} at point {} but arity is {}",
            c,
            idx,
            n
        );
        if dev && c > 0 {
            self.devs += 1;
            assert!(self.devs <= self.bound, "mcx: deviation bound exceeded while replaying");
        }
        self.trace.push(Pt { choice: c, arity: n as u32, dev });
        c as usize
    }

    /// Free choice: all `n` alternatives are explored.
    pub fn pick(&mut self, n: usize) -> usize {
        self.next(n, false)
    }

    /// Deviation point: 0 is the default; 1..n cost one deviation each.
    pub fn dev(&mut self, n: usize) -> usize {
        self.next(n, true)
    }

    /// Convenience: pick an element of a slice.
    pub fn of<'b, T>(&mut self, xs: &'b [T]) -> &'b T {
        &xs[self.pick(xs.len())]
    }

    pub fn dev_of<'b, T>(&mut self, xs: &'b [T]) -> &'b T {
        &xs[self.dev(xs.len())]
    }

    pub fn flag(&mut self) -> bool {
        self.pick(2) == 1
    }

    pub fn deviations(&self) -> u32 {
        self.devs
    }

    /// The answers given so far (a replayable schedule).
    pub fn choices(&self) -> Vec<u32> {
        self.trace.iter().map(|p| p.choice).collect()
    }
}

#[derive(Clone, Copy, Debug, Default)]
pub struct ExploreStats {
    /// complete executions of the body (leaves of the choice tree)
    pub executions: u64,
    /// choice-tree nodes (root + one per edge)
    pub states: u64,
    /// choice-tree edges
    pub transitions: u64,
    pub max_depth: u64,
}

impl ExploreStats {
    pub fn add(&mut self, o: &ExploreStats) {
        self.executions += o.executions;
        self.states += o.states;
        self.transitions += o.transitions;
        self.max_depth = self.max_depth.max(o.max_depth);
    }
}

/// Compute the next prefix in depth-first order, not touching positions below `floor`.
fn advance(trace: &[Pt], bound: u32, floor: usize, freeze: usize) -> Option<Vec<u32>> {
    // devs_before[i] = number of non-default deviation answers in trace[..i]
    let mut devs_before = Vec::with_capacity(trace.len() + 1);
    let mut d = 0u32;
    for p in trace {
        devs_before.push(d);
        if p.dev && p.choice > 0 {
            d += 1;
        }
    }
    let mut i = trace.len().min(freeze);
    while i > floor {
        i -= 1;
        let p = trace[i];
        if p.choice + 1 < p.arity {
            let ok = if p.dev { p.choice > 0 || devs_before[i] < bound } else { true };
            if ok {
                let mut next: Vec<u32> = trace[..i].iter().map(|q| q.choice).collect();
                next.push(p.choice + 1);
                return Some(next);
            }
        }
    }
    None
}

fn run_subtree<F>(root: Vec<u32>, bound: u32, body: &F) -> ExploreStats
where
    F: Fn(&mut Chooser<'_>),
{
    let floor = root.len();
    let mut stats = ExploreStats::default();
    let mut prefix = root;
    let mut first = true;
    loop {
        let mut ch = Chooser::new(&prefix, bound, usize::MAX);
        body(&mut ch);
        let trace = ch.trace;
        assert!(trace.len() >= prefix.len(), "mcx: replay divergence: execution shorter than its prefix");
        stats.executions += 1;
        let new_edges = if first {
            (trace.len() - floor) as u64
        } else {
            (trace.len() + 1 - prefix.len()) as u64
        };
        stats.transitions += new_edges;
        stats.states += new_edges;
        stats.max_depth = stats.max_depth.max(trace.len() as u64);
        first = false;
        match advance(&trace, bound, floor, usize::MAX) {
            Some(p) => prefix = p,
            None => break,
        }
    }
    stats
}

/// Sequential exhaustive exploration.
pub fn explore<F>(bound: u32, body: F) -> ExploreStats
where
    F: Fn(&mut Chooser<'_>),
{
    let mut s = run_subtree(Vec::new(), bound, &body);
    s.states += 1; // root
    s
}

/// Parallel exhaustive exploration: the tree is cut at `split_depth`; every subtree below the cut is
/// explored by a rayon task. Counting is exact (the probing runs used to find the subtree roots are not
/// counted as executions).
pub fn explore_par<F>(bound: u32, split_depth: usize, body: F) -> ExploreStats
where
    F: Fn(&mut Chooser<'_>) + Sync,
{
    // phase 1: collect subtree roots (all admissible answer vectors for the first split_depth points)
    let mut roots: Vec<Vec<u32>> = Vec::new();
    let mut top = ExploreStats::default();
    let mut prefix: Vec<u32> = Vec::new();
    let mut first = true;
    loop {
        let mut ch = Chooser::new(&prefix, bound, split_depth);
        body(&mut ch);
        let trace = ch.trace;
        let cut = trace.len().min(split_depth);
        let root: Vec<u32> = trace[..cut].iter().map(|p| p.choice).collect();
        let new_edges = if first { cut as u64 } else { (cut + 1).saturating_sub(prefix.len()) as u64 };
        top.transitions += new_edges;
        top.states += new_edges;
        first = false;
        roots.push(root);
        match advance(&trace, bound, 0, split_depth) {
            Some(p) => prefix = p,
            None => break,
        }
    }
    top.states += 1;
    let subs: Vec<ExploreStats> = roots.into_par_iter().map(|r| run_subtree(r, bound, &body)).collect();
    for s in &subs {
        top.add(s);
    }
    top
}

/// Re-run a body on one recorded schedule.
pub fn replay<F>(choices: &[u32], bound: u32, body: F)
where
    F: Fn(&mut Chooser<'_>),
{
    let mut ch = Chooser::new(choices, bound, usize::MAX);
    body(&mut ch);
}

#[cfg(test)]
mod tests {
    use super::*;
    use std::sync::atomic::{AtomicU64, Ordering};
    use std::sync::Mutex;

    #[test]
    fn full_product() {
        let n = AtomicU64::new(0);
        let s = explore(0, |c| {
            let a = c.pick(3);
            let b = c.pick(if a == 0 { 2 } else { 4 });
            let _ = b;
            n.fetch_add(1, Ordering::Relaxed);
        });
        assert_eq!(n.load(Ordering::Relaxed), 2 + 4 + 4);
        assert_eq!(s.executions, 10);
        assert_eq!(s.transitions, 3 + 10);
    }

    #[test]
    fn deviation_bound() {
        // 4 dev points with 3 alternatives each: bound 1 => 1 + 4*2 = 9; bound 2 => 9 + C(4,2)*4 = 33
        for (b, want) in [(0u32, 1u64), (1, 9), (2, 33), (4, 81)] {
            let seen = Mutex::new(std::collections::HashSet::new());
            let s = explore(b, |c| {
                let v: Vec<usize> = (0..4).map(|_| c.dev(3)).collect();
                assert!(seen.lock().unwrap().insert(v));
            });
            assert_eq!(s.executions, want);
            let p = explore_par(b, 2, |c| {
                for _ in 0..4 {
                    c.dev(3);
                }
            });
            assert_eq!(p.executions, want);
            assert_eq!(p.transitions, s.transitions);
        }
    }
}
