//! Panic capture: run a closure and turn a panic into a value with message + source location.

use std::cell::RefCell;
use std::panic::{self, AssertUnwindSafe};
use std::sync::Once;

#[derive(Clone, Debug, PartialEq, Eq, Hash)]
pub struct PanicInfo {
    pub msg: String,
    pub file: String,
    pub line: u32,
    pub col: u32,
}

impl PanicInfo {
    /// `file:line` — enough for a human; stable keys are derived with `site_key`.
    pub fn loc(&self) -> String {
        format!("{}:{}", self.file, self.line)
    }

    /// A key that survives unrelated edits: file + the normalised text of the panicking source line
    /// (looked up under `repo_root`), falling back to the message when the file cannot be read
    /// (e.g. a panic inside std).
    pub fn site_key(&self, repo_root: &str) -> String {
        let rel = self.file.strip_prefix(repo_root).unwrap_or(&self.file).trim_start_matches('/');
        let path = if self.file.starts_with('/') {
            self.file.clone()
        } else {
            format!("{}/{}", repo_root, self.file)
        };
        let text = std::fs::read_to_string(&path)
            .ok()
            .and_then(|s| s.lines().nth(self.line.saturating_sub(1) as usize).map(|l| l.to_string()));
        match text {
            Some(t) if rel.starts_with("src/") => {
                let norm: String = t.split_whitespace().collect::<Vec<_>>().join(" ");
                format!("{}::{}", rel, norm)
            }
            _ => {
                let m: String = self.msg.chars().filter(|c| !c.is_ascii_digit()).take(60).collect();
                format!("{}::{}", rel, m)
            }
        }
    }
}

thread_local! {
    static LAST: RefCell<Option<PanicInfo>> = const { RefCell::new(None) };
    static ARMED: RefCell<u32> = const { RefCell::new(0) };
}

static HOOK: Once = Once::new();

/// Install a panic hook that records the panic for `guard` and prints nothing while a guard is armed
/// on the panicking thread; panics outside a guard (machinery bugs) are printed as usual.
pub fn install_quiet_panic_hook() {
    HOOK.call_once(|| {
        let default = panic::take_hook();
        panic::set_hook(Box::new(move |info| {
            let armed = ARMED.with(|a| *a.borrow() > 0);
            if armed {
                let msg = if let Some(s) = info.payload().downcast_ref::<&str>() {
                    s.to_string()
                } else if let Some(s) = info.payload().downcast_ref::<String>() {
                    s.clone()
                } else {
                    "<non-string panic payload>".to_string()
                };
                let (file, line, col) = info
                    .location()
                    .map(|l| (l.file().to_string(), l.line(), l.column()))
                    .unwrap_or_else(|| ("<unknown>".to_string(), 0, 0));
                if std::env::var_os("VERIF_BT").is_some() {
                    eprintln!("VERIF_BT panic at {}:{}: {}\n{}", file, line, msg, std::backtrace::Backtrace::force_capture());
                }
                LAST.with(|l| *l.borrow_mut() = Some(PanicInfo { msg, file, line, col }));
            } else {
                default(info);
            }
        }));
    });
}

/// Run `f`; a panic becomes `Err(PanicInfo)`.
pub fn guard<T>(f: impl FnOnce() -> T) -> Result<T, PanicInfo> {
    install_quiet_panic_hook();
    ARMED.with(|a| *a.borrow_mut() += 1);
    let r = panic::catch_unwind(AssertUnwindSafe(f));
    ARMED.with(|a| *a.borrow_mut() -= 1);
    match r {
        Ok(v) => Ok(v),
        Err(_) => Err(LAST.with(|l| l.borrow_mut().take()).unwrap_or(PanicInfo {
            msg: "<panic without info>".into(),
            file: "<unknown>".into(),
            line: 0,
            col: 0,
        })),
    }
}
