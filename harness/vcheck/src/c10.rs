//! C10 — OpenType, collection and WOFF containers yield exactly the stored tables.
//!
//! Exhaustive enumeration of container configurations built by the independent builders in
//! `otmodel::sfnt` (table sets and lengths, directory/data order, flavour, TTC sharing patterns and
//! header versions, WOFF per-table compression choices, metadata/private blocks). The oracle is the
//! configuration itself.

use allsorts::binary::read::ReadScope;
use allsorts::font_data::FontData;
use allsorts::tables::{FontTableProvider, OpenTypeFont, SfntVersion};
use allsorts::woff::WoffFont;
use mcx::{explore_par, guard, Chooser, Ctx, H};
use otmodel::sfnt::{self, BuildOpts};
use otmodel::tag;
use serde_json::{json, Value};

const TAGS: [u32; 6] = [tag(b"AAAA"), tag(b"cmap"), tag(b"glyf"), tag(b"zzzz"), tag(b"OS/2"), tag(b"a b ")];
const ABSENT: [u32; 3] = [tag(b"none"), tag(b"AAAB"), 0];
const FLAVORS: [u32; 3] = [sfnt::TTF, sfnt::TRUE, sfnt::OTTO];

fn content(seed: usize, len: usize, compressible: bool) -> Vec<u8> {
    if compressible {
        // long runs so that zlib output is smaller than the input
        (0..len).map(|j| (seed * 37 + (j / 40) * 11 + 1) as u8).collect()
    } else {
        (0..len).map(|j| (seed * 37 + j * 11 + 1) as u8).collect()
    }
}

#[derive(Clone, Debug)]
struct Expect {
    flavor: u32,
    tables: Vec<(u32, Vec<u8>)>,
}

/// Check one provider against its expectation. `what` describes the configuration for witnesses.
fn check_provider<P: FontTableProvider + SfntVersion>(ctx: &Ctx, kind: &str, p: &P, exp: &Expect, what: &dyn Fn() -> Value) {
    if p.sfnt_version() != exp.flavor {
        ctx.violation(&format!("C10:{}:flavour", kind), || json!({"config": what(), "expected": exp.flavor, "got": p.sfnt_version()}));
    }
    for (t, d) in &exp.tables {
        match guard(|| p.table_data(*t).map(|o| o.map(|c| c.into_owned()))) {
            Err(pn) => ctx.violation(&format!("C10:{}:panic:{}", kind, pn.site_key("/repo")), || json!({"config": what(), "panic": pn.msg})),
            Ok(Ok(Some(got))) => {
                if &got != d {
                    ctx.violation(&format!("C10:{}:table-bytes-differ", kind), || json!({"config": what(), "tag": otmodel::tag_str(*t), "expected": d, "got": got}));
                }
            }
            Ok(o) => ctx.violation(&format!("C10:{}:stored-table-not-returned", kind), || json!({"config": what(), "tag": otmodel::tag_str(*t), "got": format!("{:?}", o)})),
        }
        if !p.has_table(*t) {
            ctx.violation(&format!("C10:{}:has_table-false-for-stored-table", kind), || json!({"config": what(), "tag": otmodel::tag_str(*t)}));
        }
        match p.read_table_data(*t) {
            Ok(got) if got.as_ref() == &d[..] => {}
            o => ctx.violation(&format!("C10:{}:read_table_data", kind), || json!({"config": what(), "tag": otmodel::tag_str(*t), "got": format!("{:?}", o.map(|c| c.into_owned()))})),
        }
    }
    for t in ABSENT.iter().chain(TAGS.iter()) {
        if exp.tables.iter().any(|x| x.0 == *t) {
            continue;
        }
        match guard(|| p.table_data(*t).map(|o| o.map(|c| c.into_owned()))) {
            Ok(Ok(None)) => {}
            o => ctx.violation(&format!("C10:{}:absent-table-not-reported-absent", kind), || json!({"config": what(), "tag": otmodel::tag_str(*t), "got": format!("{:?}", o)})),
        }
        if p.has_table(*t) {
            ctx.violation(&format!("C10:{}:has_table-true-for-absent-table", kind), || json!({"config": what(), "tag": otmodel::tag_str(*t)}));
        }
        if p.read_table_data(*t).is_ok() {
            ctx.violation(&format!("C10:{}:read_table_data-ok-for-absent-table", kind), || json!({"config": what(), "tag": otmodel::tag_str(*t)}));
        }
    }
    match p.table_tags() {
        Some(mut tags) => {
            tags.sort();
            let mut want: Vec<u32> = exp.tables.iter().map(|x| x.0).collect();
            want.sort();
            if tags != want {
                ctx.violation(&format!("C10:{}:table_tags", kind), || json!({"config": what(), "expected": want, "got": tags}));
            }
        }
        None => ctx.violation(&format!("C10:{}:table_tags-none", kind), || json!({"config": what()})),
    }
}

fn gen_tables(c: &mut Chooser<'_>, max_tables: usize, lens: &[usize], compressible_from: usize) -> Vec<(u32, Vec<u8>)> {
    let n = 1 + c.pick(max_tables);
    // tags: choose a strictly increasing index sequence into TAGS so that every tag subset appears once;
    // directory order is varied separately
    let mut tables = Vec::new();
    let mut lo = 0;
    for k in 0..n {
        let remaining = n - k;
        let hi = TAGS.len() - remaining; // inclusive upper bound for this pick
        let idx = lo + c.pick(hi - lo + 1);
        lo = idx + 1;
        let len = *c.of(lens);
        tables.push((TAGS[idx], content(idx + 1, len, len >= compressible_from)));
    }
    tables
}

fn perm(kind: usize, n: usize) -> Vec<usize> {
    match kind {
        0 => (0..n).collect(),
        1 => (0..n).rev().collect(),
        _ => (0..n).map(|i| (i + 1) % n).collect(),
    }
}

fn run_sfnt(ctx: &Ctx) {
    let thorough = ctx.tier.thorough();
    let lens: &[usize] = if thorough { &[0, 1, 2, 3, 4, 5, 7, 8] } else { &[0, 1, 3, 4, 5] };
    let max_tables = if thorough { 4 } else { 3 };
    let s = explore_par(2, 3, |c: &mut Chooser<'_>| {
        let tables = gen_tables(c, max_tables, lens, usize::MAX);
        let flavor = *c.of(&FLAVORS);
        let n = tables.len();
        // tables are generated in tag order; directory order: sorted / reversed / rotated
        let dk = c.dev(3);
        let ok = c.dev(3);
        let opts = BuildOpts { dir_order: Some(perm(dk, n)), data_order: Some(perm(ok, n)), fix_head_adjustment: false };
        let bytes = sfnt::build_with(flavor, &tables, &opts);
        let exp = Expect { flavor, tables: tables.clone() };
        let what = || json!({"container": "sfnt", "flavor": flavor, "tables": tables.iter().map(|t| (otmodel::tag_str(t.0), t.1.len())).collect::<Vec<_>>(), "dir_order": dk, "data_order": ok, "file_hex": mcx::hex(&bytes)});
        let h = H::new().bytes(&bytes).get();
        let r = guard(|| {
            // seam 1: OpenTypeFont
            match ReadScope::new(&bytes).read::<OpenTypeFont<'_>>() {
                Ok(f) => {
                    for idx in [0usize, 1, 7] {
                        match f.table_provider(idx) {
                            Ok(p) => check_provider(ctx, "sfnt", &p, &exp, &what),
                            Err(e) => {
                                if idx == 0 {
                                    ctx.violation("C10:sfnt:table_provider-failed", || json!({"config": what(), "error": format!("{:?}", e)}))
                                }
                            }
                        }
                    }
                }
                Err(e) => ctx.violation("C10:sfnt:wellformed-file-rejected", || json!({"config": what(), "error": format!("{:?}", e)})),
            }
            // seam 2: FontData
            match ReadScope::new(&bytes).read::<FontData<'_>>() {
                Ok(f) => match f.table_provider(0) {
                    Ok(p) => check_provider(ctx, "sfnt-fontdata", &p, &exp, &what),
                    Err(e) => ctx.violation("C10:sfnt:table_provider-failed", || json!({"config": what(), "error": format!("{:?}", e)})),
                },
                Err(e) => ctx.violation("C10:sfnt:wellformed-file-rejected", || json!({"config": what(), "error": format!("{:?}", e)})),
            }
        });
        if let Err(p) = r {
            ctx.violation(&format!("C10:sfnt:panic:{}", p.site_key("/repo")), || json!({"config": what(), "panic": p.msg}));
        }
        if n > 1 {
            ctx.mark_nontrivial(h);
        }
        ctx.mark_outcome(h);
        ctx.sample(h, || {
            let mut w = what();
            w.as_object_mut().unwrap().remove("file_hex");
            w
        });
    });
    ctx.add_explore(&s);
}

fn run_ttc(ctx: &Ctx) {
    // pool: A1 and A2 share the tag AAAA with different contents (an unshared table), B and C are shareable
    let pool: Vec<(u32, Vec<u8>)> = vec![
        (tag(b"AAAA"), content(1, 5, false)),
        (tag(b"AAAA"), content(2, 3, false)),
        (tag(b"cmap"), content(3, 8, false)),
        (tag(b"glyf"), content(4, 0, false)),
    ];
    // member = non-empty subset of the pool without both AAAA variants
    let subsets: Vec<Vec<usize>> = (1u32..16)
        .filter(|m| !(m & 1 != 0 && m & 2 != 0))
        .map(|m| (0..4).filter(|i| m & (1 << i) != 0).collect())
        .collect();
    let max_members = if ctx.tier.thorough() { 3 } else { 2 };
    let s = explore_par(0, 2, |c: &mut Chooser<'_>| {
        let version = *c.of(&[0x0001_0000u32, 0x0002_0000]);
        let nm = 1 + c.pick(max_members);
        let mut members: Vec<Vec<usize>> = (0..nm).map(|_| c.of(&subsets).clone()).collect();
        let mut flavors: Vec<u32> = (0..nm).map(|k| FLAVORS[k % 3]).collect();
        let layout = *c.of(&[sfnt::TtcLayout::DirsFirst, sfnt::TtcLayout::Interleaved, sfnt::TtcLayout::TablesFirst, sfnt::TtcLayout::DirsReversed]);
        let mut bytes = sfnt::build_ttc_layout(version, &flavors, &pool, &members, layout);
        // two members may share one table directory (the header then lists the same offset twice): member 1 := member 0
        if nm >= 2 && c.pick(2) == 1 {
            let o0: [u8; 4] = [bytes[12], bytes[13], bytes[14], bytes[15]];
            bytes[16..20].copy_from_slice(&o0);
            members[1] = members[0].clone();
            flavors[1] = flavors[0];
        }
        let (members, flavors, bytes) = (members, flavors, bytes);
        let what = || json!({"container": "ttc", "version": version, "layout": format!("{:?}", layout), "members": members, "file_hex": mcx::hex(&bytes)});
        let h = H::new().bytes(&bytes).get();
        let r = guard(|| {
            for seam in 0..2 {
                // every member, the two indices behind the last one, and indices so large that index x 4 does not fit
                for idx in (0..nm + 2).chain([usize::MAX, 1usize << 62, (1usize << 62) + 1, 1usize << 63]) {
                    let exp = members.get(idx).map(|m| Expect { flavor: flavors[idx], tables: m.iter().map(|&i| pool[i].clone()).collect() });
                    if seam == 0 {
                        match ReadScope::new(&bytes).read::<OpenTypeFont<'_>>() {
                            Ok(f) => match (f.table_provider(idx), &exp) {
                                (Ok(p), Some(e)) => check_provider(ctx, "ttc", &p, e, &what),
                                (Err(_), None) => {}
                                (Ok(_), None) => ctx.violation("C10:ttc:member-index-beyond-end-accepted", || json!({"config": what(), "index": idx})),
                                (Err(e), Some(_)) => ctx.violation("C10:ttc:member-rejected", || json!({"config": what(), "index": idx, "error": format!("{:?}", e)})),
                            },
                            Err(e) => ctx.violation("C10:ttc:wellformed-file-rejected", || json!({"config": what(), "error": format!("{:?}", e)})),
                        }
                    } else {
                        match ReadScope::new(&bytes).read::<FontData<'_>>() {
                            Ok(f) => match (f.table_provider(idx), &exp) {
                                (Ok(p), Some(e)) => check_provider(ctx, "ttc-fontdata", &p, e, &what),
                                (Err(_), None) => {}
                                (Ok(_), None) => ctx.violation("C10:ttc:member-index-beyond-end-accepted", || json!({"config": what(), "index": idx})),
                                (Err(e), Some(_)) => ctx.violation("C10:ttc:member-rejected", || json!({"config": what(), "index": idx, "error": format!("{:?}", e)})),
                            },
                            Err(e) => ctx.violation("C10:ttc:wellformed-file-rejected", || json!({"config": what(), "error": format!("{:?}", e)})),
                        }
                    }
                }
            }
        });
        if let Err(p) = r {
            ctx.violation(&format!("C10:ttc:panic:{}", p.site_key("/repo")), || json!({"config": what(), "panic": p.msg}));
        }
        ctx.mark_nontrivial(h);
        ctx.mark_outcome(h);
        ctx.sample(h, || json!({"container": "ttc", "version": version, "members": members}));
    });
    ctx.add_explore(&s);
}

/// WOFF files whose tables collide on everything a directory entry says about the original data except the tag: the same
/// 32 bit words in another order (equal origLength and origChecksum, different bytes), equal length with another checksum,
/// and identical bytes. Every assignment of these contents to three tags x every compression choice x every order in which
/// the tables are asked for (and asked for again in reverse): each answer must be the table stored under that tag.
fn run_woff_twins(ctx: &Ctx) {
    let base: Vec<u8> = (0..240usize).map(|j| ((j / 48) * 29 + 7) as u8).collect(); // five runs of 48 equal bytes: compressible
    let mut permuted = base.clone();
    permuted.rotate_left(48); // same words, another order: same length, same checksum
    let mut other = base.clone();
    other[100] ^= 0x40; // same length, different checksum
    debug_assert_eq!(sfnt::checksum(&base), sfnt::checksum(&permuted));
    let contents: [Vec<u8>; 4] = [base.clone(), permuted, other, base];
    let orders: [[usize; 3]; 6] = [[0, 1, 2], [0, 2, 1], [1, 0, 2], [1, 2, 0], [2, 0, 1], [2, 1, 0]];
    let tags3 = [TAGS[0], TAGS[1], TAGS[2]];
    let s = explore_par(0, 3, |c: &mut Chooser<'_>| {
        let pickc: Vec<usize> = (0..3).map(|_| c.pick(4)).collect();
        let compress: Vec<bool> = (0..3).map(|_| c.flag()).collect();
        let order = *c.of(&orders);
        let tables: Vec<(u32, Vec<u8>)> = (0..3).map(|k| (tags3[k], contents[pickc[k]].clone())).collect();
        let (bytes, done) = sfnt::build_woff(sfnt::TTF, &tables, &compress, None, None);
        let what = || json!({"container": "woff-twins", "contents": pickc, "compressed": done, "query_order": order, "file_hex": mcx::hex(&bytes)});
        let h = H::new().bytes(&bytes).u64(order[0] as u64 * 3 + order[1] as u64).get();
        let r = guard(|| match ReadScope::new(&bytes).read::<WoffFont<'_>>() {
            Ok(f) => {
                let seq: Vec<usize> = order.iter().copied().chain(order.iter().rev().copied()).collect();
                for k in seq {
                    match f.table_data(tables[k].0) {
                        Ok(Some(got)) if got.as_ref() == &tables[k].1[..] => {}
                        o => {
                            ctx.violation("C10:woff:table-bytes-differ:colliding-directory-entries", || json!({"config": what(), "tag": otmodel::tag_str(tables[k].0), "got": format!("{:?}", o.map(|x| x.map(|c| mcx::hex(&c))))}));
                            break;
                        }
                    }
                }
            }
            Err(e) => ctx.violation("C10:woff:wellformed-file-rejected", || json!({"config": what(), "error": format!("{:?}", e)})),
        });
        if let Err(p) = r {
            ctx.violation(&format!("C10:woff:panic:{}", p.site_key("/repo")), || json!({"config": what(), "panic": p.msg}));
        }
        if done.iter().filter(|d| **d).count() >= 2 && pickc[0] != pickc[1] {
            ctx.mark_nontrivial(h);
        }
        ctx.mark_outcome(h);
    });
    ctx.add_explore(&s);
}

fn run_woff(ctx: &Ctx) {
    let thorough = ctx.tier.thorough();
    let lens: &[usize] = if thorough { &[0, 1, 4, 5, 90, 203] } else { &[0, 3, 90, 203] };
    let max_tables = if thorough { 4 } else { 3 };
    let s = explore_par(2, 3, |c: &mut Chooser<'_>| {
        let tables = gen_tables(c, max_tables, lens, 64);
        let flavor = *c.of(&FLAVORS);
        let n = tables.len();
        let compress: Vec<bool> = (0..n).map(|_| c.flag()).collect();
        let meta = c.dev(2) == 1;
        let private = c.dev(2) == 1;
        let metadata = b"<?xml version=\"1.0\"?><metadata version=\"1.0\"><uniqueid id=\"verif\"/></metadata>";
        let (bytes, done) = sfnt::build_woff(flavor, &tables, &compress, if meta { Some(&metadata[..]) } else { None }, if private { Some(&[1, 2, 3, 4, 5][..]) } else { None });
        let exp = Expect { flavor, tables: tables.clone() };
        let what = || json!({"container": "woff", "flavor": flavor, "tables": tables.iter().map(|t| (otmodel::tag_str(t.0), t.1.len())).collect::<Vec<_>>(), "compressed": done, "metadata": meta, "private": private, "file_hex": mcx::hex(&bytes)});
        let h = H::new().bytes(&bytes).get();
        // History: before the well-formed file is read, the same thread reads a file whose first compressed table is
        // corrupt (a byte of the zlib stream flipped / the stream cut in half / origLength overstated). What the
        // well-formed file yields must not depend on that (decompressor state kept between calls would show here).
        let predecessor = c.dev(4);
        if predecessor > 0 {
            if let Some(i) = done.iter().position(|d| *d) {
                let mut bad = bytes.clone();
                // the directory is sorted by tag: find the entry of table i
                let e = (0..n).map(|k| 44 + 20 * k).find(|e| bad[*e..*e + 4] == tables[i].0.to_be_bytes()).expect("machinery: directory entry");
                let off = u32::from_be_bytes([bad[e + 4], bad[e + 5], bad[e + 6], bad[e + 7]]) as usize;
                let clen = u32::from_be_bytes([bad[e + 8], bad[e + 9], bad[e + 10], bad[e + 11]]) as usize;
                match predecessor {
                    1 => bad[off + clen / 2] ^= 0x55,
                    2 => bad[e + 8..e + 12].copy_from_slice(&((clen / 2).max(1) as u32).to_be_bytes()),
                    _ => bad[e + 12..e + 16].copy_from_slice(&0x0100_0000u32.to_be_bytes()),
                }
                let _ = guard(|| {
                    if let Ok(f) = ReadScope::new(&bad).read::<WoffFont<'_>>() {
                        for (t, _) in &tables {
                            let _ = f.table_data(*t);
                        }
                    }
                });
            }
        }
        let r = guard(|| {
            match ReadScope::new(&bytes).read::<WoffFont<'_>>() {
                Ok(f) => {
                    check_provider(ctx, "woff", &f, &exp, &what);
                    match f.extended_metadata() {
                        Ok(Some(m)) if meta && m.as_bytes() == &metadata[..] => {}
                        Ok(None) if !meta => {}
                        o => ctx.violation("C10:woff:extended-metadata", || json!({"config": what(), "got": format!("{:?}", o)})),
                    }
                }
                Err(e) => ctx.violation("C10:woff:wellformed-file-rejected", || json!({"config": what(), "error": format!("{:?}", e)})),
            }
            match ReadScope::new(&bytes).read::<FontData<'_>>() {
                Ok(f) => match f.table_provider(0) {
                    Ok(p) => check_provider(ctx, "woff-fontdata", &p, &exp, &what),
                    Err(e) => ctx.violation("C10:woff:table_provider-failed", || json!({"config": what(), "error": format!("{:?}", e)})),
                },
                Err(e) => ctx.violation("C10:woff:wellformed-file-rejected", || json!({"config": what(), "error": format!("{:?}", e)})),
            }
        });
        if let Err(p) = r {
            ctx.violation(&format!("C10:woff:panic:{}", p.site_key("/repo")), || json!({"config": what(), "panic": p.msg}));
        }
        if done.iter().any(|d| *d) {
            ctx.mark_nontrivial(h);
        }
        ctx.mark_outcome(h);
        ctx.sample(h, || {
            let mut w = what();
            w.as_object_mut().unwrap().remove("file_hex");
            w
        });
    });
    ctx.add_explore(&s);
}

pub fn run(ctx: &Ctx) {
    ctx.set_rule(
        "case = one container file (sfnt / TTC / WOFF) built from a table set (every tag subset of size <= bound from 6 tags, every \
         length from the menu per table), flavour, directory/data order (deviations), TTC member sharing pattern and header version, \
         WOFF per-table compression flags, metadata/private blocks; every present and absent tag and member index is queried through \
         OpenTypeFont/WoffFont and FontData; non-trivial = more than one table (sfnt), any TTC, or a WOFF with a really compressed table",
    );
    ctx.assume("table_tags is compared as a set (the property speaks of the set of tags)");
    ctx.assume("a member index beyond 0 on a single-font sfnt/WOFF is not a collection access and is not checked");
    ctx.assume("one flate2 backend (the one the harness is built with: zlib) — the second backend is not exercised");
    run_sfnt(ctx);
    run_ttc(ctx);
    run_woff(ctx);
    run_woff_twins(ctx);
    ctx.set("bounds", json!({"tables_per_font": if ctx.tier.thorough() {4} else {3}, "ttc_members": if ctx.tier.thorough() {3} else {2}, "order_deviations": 2}));
}

pub fn replay(w: &Value) -> Result<(), String> {
    // the witness carries the whole file and the expected table
    let cfg = &w["config"];
    let bytes = mcx::unhex(cfg["file_hex"].as_str().ok_or("no file_hex")?);
    let tagname = w["tag"].as_str().ok_or("witness has no tag (structural witness): re-run ./run C10 quick")?;
    let mut t = [b' '; 4];
    for (i, b) in tagname.bytes().take(4).enumerate() {
        t[i] = b;
    }
    let tg = u32::from_be_bytes(t);
    let fd = ReadScope::new(&bytes).read::<FontData<'_>>().map_err(|e| format!("{:?}", e))?;
    let p = fd.table_provider(w["index"].as_u64().unwrap_or(0) as usize).map_err(|e| format!("{:?}", e))?;
    let got = p.table_data(tg).map_err(|e| format!("{:?}", e))?.map(|c| c.into_owned());
    match w.get("expected").and_then(|e| e.as_array()) {
        Some(exp) => {
            let exp: Vec<u8> = exp.iter().map(|x| x.as_u64().unwrap_or(0) as u8).collect();
            if got.as_deref() == Some(&exp[..]) {
                Ok(())
            } else {
                Err(format!("table {} = {:?}, expected {:?}", tagname, got, exp))
            }
        }
        None => {
            if got.is_none() {
                Ok(())
            } else {
                Err(format!("absent table {} returned data", tagname))
            }
        }
    }
}
