//! C03 — results depend only on the arguments, not on earlier calls.
//!
//! Explicit-state BFS to a fixpoint over the cache states of a real `Font`: a state is reached by a
//! witness history of API calls; the canonical fingerprint is hook H3 (`Font::verif_cache_digest`, every
//! mutable slot of the object). From every state every call of the alphabet is applied to a fresh replay
//! and its result compared with the result of the same call on a freshly loaded font. The merging is
//! cross-validated by an unmerged exploration of all histories to depth 3 (thorough 4). Pure operations
//! (subset, whole_font, instance, WOFF/WOFF2 decoding) are repeated in-process and in a second process.

use allsorts::binary::read::ReadScope;
use allsorts::bitmap::BitDepth;
use allsorts::font::{GlyphTableFlags, MatchingPresentation};
use allsorts::font_data::{DynamicFontTableProvider, FontData};
use allsorts::gsub::{FeatureInfo, FeatureMask, Features};
use allsorts::tables::variable_fonts::fvar::FvarTable;
use allsorts::tables::{F2Dot14, Fixed, FontTableProvider};
use allsorts::unicode::VariationSelector;
use allsorts::{tag, Font};
use mcx::{guard, Ctx, H};
use otmodel::be::W;
use rayon::prelude::*;
use serde_json::{json, Value};
use std::collections::HashMap;
use std::sync::Mutex;

type F<'a> = Font<DynamicFontTableProvider<'a>>;

#[derive(Clone)]
enum FeatSel {
    Mask(u64),
    Custom(Vec<u32>),
}

#[derive(Clone)]
enum Op {
    Shape { text: &'static str, script: u32, lang: Option<u32>, feats: FeatSel, tuple: Option<i16>, kerning: bool },
    Lookup { ch: char, required: bool, vs: Option<u8> },
    MapGlyphs { text: &'static str, script: u32, required: bool },
    HAdvance(u16),
    VAdvance(u16),
    Names,
    HasImages,
    Image(u16),
    /// the image filter as an argument of the query: set_embedded_image_filter(bits), then has_embedded_images()
    HasImagesF(u8),
    /// set_embedded_image_filter(bits), then lookup_glyph_image(g, 12, One)
    ImageF(u8, u16),
    /// set_embedded_image_filter(font.glyph_table_flags) - the tables the font really has, the natural way to opt into
    /// every image table - then lookup_glyph_image(g, 12, One)
    ImageOwnFlags(u16),
    Tables,
}

impl Op {
    fn kind(&self) -> &'static str {
        match self {
            Op::Shape { feats: FeatSel::Mask(_), tuple: Some(_), .. } => "shape-mask-with-tuple",
            Op::Shape { feats: FeatSel::Mask(_), .. } => "shape-mask",
            Op::Shape { tuple: Some(_), .. } => "shape-custom-with-tuple",
            Op::Shape { .. } => "shape-custom",
            Op::Lookup { ch, .. } if *ch == '\u{25CC}' => "lookup-dotted-circle",
            Op::Lookup { .. } => "lookup",
            Op::MapGlyphs { .. } => "map_glyphs",
            Op::HAdvance(_) | Op::VAdvance(_) => "advance",
            Op::Names => "glyph_names",
            Op::HasImages | Op::Image(_) => "images",
            Op::HasImagesF(_) | Op::ImageF(..) | Op::ImageOwnFlags(_) => "images-with-filter-argument",
            Op::Tables => "table-loaders",
        }
    }
    fn describe(&self) -> String {
        match self {
            Op::Shape { text, script, lang, feats, tuple, kerning } => format!(
                "shape(map_glyphs({:?}), script={}, lang={:?}, features={}, tuple={:?}, kerning={})",
                text,
                otmodel::tag_str(*script),
                lang.map(otmodel::tag_str),
                match feats {
                    FeatSel::Mask(m) => format!("Mask({:#x})", m),
                    FeatSel::Custom(v) => format!("Custom({:?})", v.iter().map(|t| otmodel::tag_str(*t)).collect::<Vec<_>>()),
                },
                tuple.map(|t| t as f32 / 16384.0),
                kerning
            ),
            Op::Lookup { ch, required, vs } => format!("lookup_glyph_index(U+{:04X}, {}, {:?})", *ch as u32, if *required { "Required" } else { "NotRequired" }, vs),
            Op::MapGlyphs { text, script, required } => format!("map_glyphs({:?}, {}, required={})", text, otmodel::tag_str(*script), required),
            Op::HAdvance(g) => format!("horizontal_advance({})", g),
            Op::VAdvance(g) => format!("vertical_advance({})", g),
            Op::Names => "glyph_names([0,1,2,3])".into(),
            Op::HasImages => "has_embedded_images()".into(),
            Op::Image(g) => format!("lookup_glyph_image({}, 16, ThirtyTwo)", g),
            Op::HasImagesF(b) => format!("set_embedded_image_filter({:#04x}); has_embedded_images()", b),
            Op::ImageF(b, g) => format!("set_embedded_image_filter({:#04x}); lookup_glyph_image({}, 12, One)", b, g),
            Op::ImageOwnFlags(g) => format!("set_embedded_image_filter(font.glyph_table_flags); lookup_glyph_image({}, 12, One)", g),
            Op::Tables => "gdef_table/kern_table/vhea_table/morx_table/os2_table".into(),
        }
    }
}

fn vs_of(v: Option<u8>) -> Option<VariationSelector> {
    match v {
        Some(15) => Some(VariationSelector::VS15),
        Some(16) => Some(VariationSelector::VS16),
        _ => None,
    }
}

/// Apply one call; the returned string is the complete observable result.
fn apply(font: &mut F<'_>, op: &Op, fvar: Option<&FvarTable<'_>>) -> String {
    match op {
        Op::Shape { text, script, lang, feats, tuple, kerning } => {
            let glyphs = font.map_glyphs(text, *script, MatchingPresentation::NotRequired);
            let features = match feats {
                FeatSel::Mask(m) => Features::Mask(FeatureMask::from_bits_truncate(*m)),
                FeatSel::Custom(v) => Features::Custom(v.iter().map(|t| FeatureInfo { feature_tag: *t, alternate: None }).collect()),
            };
            let owned = tuple.and_then(|t| fvar.and_then(|f| f.owned_tuple(&vec![F2Dot14::from_raw(t); f.axis_count() as usize])));
            let tup = owned.as_ref().map(|o| o.as_tuple());
            let r = font.shape(glyphs, *script, *lang, &features, tup, *kerning);
            match r {
                Ok(infos) => format!("Ok({:?})", infos),
                Err((e, infos)) => format!("Err({:?}, {:?})", e, infos),
            }
        }
        Op::Lookup { ch, required, vs } => {
            let mp = if *required { MatchingPresentation::Required } else { MatchingPresentation::NotRequired };
            format!("{:?}", font.lookup_glyph_index(*ch, mp, vs_of(*vs)))
        }
        Op::MapGlyphs { text, script, required } => {
            let mp = if *required { MatchingPresentation::Required } else { MatchingPresentation::NotRequired };
            format!("{:?}", font.map_glyphs(text, *script, mp))
        }
        Op::HAdvance(g) => format!("{:?}", font.horizontal_advance(*g)),
        Op::VAdvance(g) => format!("{:?}", font.vertical_advance(*g)),
        Op::Names => format!("{:?}", font.glyph_names(&[0, 1, 2, 3])),
        Op::HasImages => format!("{:?}", font.has_embedded_images()),
        Op::HasImagesF(b) => {
            font.set_embedded_image_filter(GlyphTableFlags::from_bits_truncate(*b));
            format!("{:?}", font.has_embedded_images())
        }
        Op::ImageF(..) | Op::ImageOwnFlags(_) => {
            let (flags, g) = match op {
                Op::ImageF(b, g) => (GlyphTableFlags::from_bits_truncate(*b), g),
                Op::ImageOwnFlags(g) => (font.glyph_table_flags, g),
                _ => unreachable!(),
            };
            font.set_embedded_image_filter(flags);
            match font.lookup_glyph_image(*g, 12, BitDepth::One) {
                Ok(Some(b)) => {
                    let (kind, data): (&str, &[u8]) = match &b.bitmap {
                        allsorts::bitmap::Bitmap::Embedded(e) => ("embedded", &e.data),
                        allsorts::bitmap::Bitmap::Encapsulated(e) => ("encapsulated", &e.data),
                    };
                    format!("Ok(Some(ppem=({:?},{:?}) {} {} bytes {:016x}))", b.ppem_x, b.ppem_y, kind, data.len(), mcx::fnv64(data))
                }
                Ok(None) => "Ok(None)".into(),
                Err(e) => format!("Err({:?})", e),
            }
        }
        Op::Image(g) => match font.lookup_glyph_image(*g, 16, BitDepth::ThirtyTwo) {
            Ok(Some(b)) => {
                let (kind, w, h, data): (&str, u32, u32, &[u8]) = match &b.bitmap {
                    allsorts::bitmap::Bitmap::Embedded(e) => ("embedded", e.width as u32, e.height as u32, &e.data),
                    allsorts::bitmap::Bitmap::Encapsulated(e) => ("encapsulated", 0, 0, &e.data),
                };
                format!("Ok(Some(ppem=({:?},{:?}) {} {}x{} {} bytes {:016x}))", b.ppem_x, b.ppem_y, kind, w, h, data.len(), mcx::fnv64(data))
            }
            Ok(None) => "Ok(None)".into(),
            Err(e) => format!("Err({:?})", e),
        },
        Op::Tables => format!(
            "gdef={:?} kern={:?} vhea={:?} morx={:?} os2={:?}",
            font.gdef_table().map(|t| t.is_some()),
            font.kern_table().map(|t| t.is_some()),
            font.vhea_table().map(|t| t.is_some()),
            font.morx_table().map(|t| t.is_some()),
            font.os2_table().map(|t| t.map(|o| o.us_first_char_index))
        ),
    }
}

struct Subject {
    name: String,
    data: Vec<u8>,
    filter: Option<u8>,
    ops: Vec<Op>,
}

fn with_subject<R>(s: &Subject, f: impl FnOnce(&mut F<'_>, Option<&FvarTable<'_>>) -> R) -> R {
    let fd = ReadScope::new(&s.data).read::<FontData<'_>>().expect("machinery: subject font does not parse");
    let provider = fd.table_provider(0).expect("machinery: provider");
    let fvar_data = provider.table_data(tag::FVAR).ok().flatten().map(|c| c.into_owned());
    let mut font = Font::new(provider).expect("machinery: Font::new on subject");
    if let Some(bits) = s.filter {
        font.set_embedded_image_filter(GlyphTableFlags::from_bits_truncate(bits));
    }
    let fvar = fvar_data.as_ref().and_then(|d| ReadScope::new(d).read::<FvarTable<'_>>().ok());
    f(&mut font, fvar.as_ref())
}

/// replay `hist`, then apply `op`; returns (result of op, digest after op). A panic is a result too.
fn run_hist(s: &Subject, hist: &[u8], op: u8) -> (String, u64) {
    let r = guard(|| {
        with_subject(s, |font, fvar| {
            for &h in hist {
                let _ = apply(font, &s.ops[h as usize], fvar);
            }
            let r = apply(font, &s.ops[op as usize], fvar);
            (r, H::new().str(&font.verif_cache_digest()).get())
        })
    });
    match r {
        Ok(x) => x,
        Err(p) => (format!("PANIC {} at {}", p.msg, p.site_key("/repo")), H::new().str("panic").bytes(hist).u8(op).get()),
    }
}

#[derive(Clone)]
struct St {
    hist: Vec<u8>,
    digest: u64,
}

fn explore_subject(ctx: &Ctx, s: &Subject, unmerged_depth: usize) {
    let nops = s.ops.len() as u8;
    let baseline: Vec<String> = (0..nops).map(|p| run_hist(s, &[], p).0).collect();
    // determinism of the harness itself: the same call on a fresh font twice
    for p in 0..nops {
        if run_hist(s, &[], p).0 != baseline[p as usize] {
            ctx.violation("C03:fresh-font-call-not-deterministic", || json!({"subject": s.name, "call": s.ops[p as usize].describe()}));
        }
    }
    if std::env::var("VERIF_DEBUG").is_ok() {
        for p in 0..nops {
            eprintln!("[{}] {} => {}", s.name, s.ops[p as usize].describe(), &baseline[p as usize].chars().take(400).collect::<String>());
        }
    }
    let init_digest = with_subject(s, |f, _| H::new().str(&f.verif_cache_digest()).get());
    let probe_table: Mutex<HashMap<u64, Vec<String>>> = Mutex::new(HashMap::new());
    let report = |hist: &[u8], p: u8, got: &str| {
        // minimise: a single earlier call that alone reproduces the difference
        let mut culprit: Option<u8> = None;
        for &h in hist {
            if run_hist(s, &[h], p).0 != baseline[p as usize] {
                culprit = Some(h);
                break;
            }
        }
        let (key, min_hist): (String, Vec<u8>) = match culprit {
            Some(h) => {
                let hk = s.ops[h as usize].kind();
                let pk = s.ops[p as usize].kind();
                let k = if hk == "lookup-dotted-circle" || (pk == "lookup-dotted-circle" && hk != "lookup-dotted-circle" && matches!(s.ops[h as usize], Op::Shape { .. } | Op::MapGlyphs { .. })) {
                    "C03:dotted-circle-glyph-cache-ignores-presentation-arguments".to_string()
                } else if hk.starts_with("shape-mask") && pk.starts_with("shape-mask") && (hk.ends_with("with-tuple") || pk.ends_with("with-tuple")) {
                    "C03:lookup-list-cache-key-omits-variation-tuple".to_string()
                } else {
                    format!("C03:history-dependent:{}-then-{}", hk, pk)
                };
                (k, vec![h])
            }
            None => (format!("C03:history-dependent:multi-call-history-then-{}", s.ops[p as usize].kind()), hist.to_vec()),
        };
        ctx.violation(&key, || {
            json!({"subject": s.name, "history": min_hist.iter().map(|h| s.ops[*h as usize].describe()).collect::<Vec<_>>(),
                   "history_op_ids": min_hist, "probe_op_id": p,
                   "probe": s.ops[p as usize].describe(), "on_fresh_font": baseline[p as usize], "after_history": got})
        });
    };
    let stats = mcx::bfs(
        vec![St { hist: vec![], digest: init_digest }],
        |st: &St| st.digest,
        |st: &St| {
            let mut out = Vec::new();
            let mut probes = Vec::new();
            for p in 0..nops {
                let (r, d) = run_hist(s, &st.hist, p);
                if r != baseline[p as usize] {
                    report(&st.hist, p, &r);
                }
                ctx.mark_outcome(H::new().str(&s.name).u8(p).str(&r).get());
                probes.push(r);
                let mut h = st.hist.clone();
                h.push(p);
                if d != st.digest {
                    ctx.mark_nontrivial(H::new().str(&s.name).u64(st.digest).u64(d).get());
                }
                out.push(St { hist: h, digest: d });
            }
            probe_table.lock().unwrap().insert(st.digest, probes);
            ctx.sample(H::new().str(&s.name).u64(st.digest).get(), || {
                json!({"subject": s.name, "witness_history": st.hist.iter().map(|h| s.ops[*h as usize].describe()).collect::<Vec<_>>(), "state_fingerprint": format!("{:016x}", st.digest)})
            });
            out
        },
        u64::MAX,
        if ctx.tier.thorough() { 200_000 } else { 20_000 },
    );
    ctx.add_states(stats.states);
    ctx.add_transitions(stats.transitions);
    ctx.evals(stats.transitions);
    if !stats.fixpoint {
        ctx.not_exhaustive(&format!("{}: state cap reached before fixpoint ({} states, depth {})", s.name, stats.states, stats.depth));
    }
    ctx.bump("subjects", 1);
    {
        let mut e = json!({"subject": s.name, "ops": s.ops.len(), "states": stats.states, "transitions": stats.transitions, "depth": stats.depth, "fixpoint": stats.fixpoint});
        // unmerged cross-validation: every history up to unmerged_depth maps to a fingerprint BFS reached, and
        // yields the probe vector recorded for it
        let table = probe_table.lock().unwrap();
        let mut hists: Vec<Vec<u8>> = vec![vec![]];
        let mut all: Vec<Vec<u8>> = Vec::new();
        for _ in 0..unmerged_depth {
            let mut next = Vec::new();
            for h in &hists {
                for p in 0..nops {
                    let mut n = h.clone();
                    n.push(p);
                    next.push(n);
                }
            }
            all.extend(next.iter().cloned());
            hists = next;
        }
        let bad: Vec<(Vec<u8>, String)> = all
            .par_iter()
            .filter_map(|h| {
                let (last, rest) = h.split_last().unwrap();
                let (r, d) = run_hist(s, rest, *last);
                if r != baseline[*last as usize] {
                    return None; // already reported by the BFS as a violation of the property itself
                }
                if stats.fixpoint && !table.contains_key(&d) && !r.starts_with("PANIC") {
                    // the state reached must be one BFS expanded or at least saw; seen-but-unexpanded cannot happen at a fixpoint
                    return Some((h.clone(), "fingerprint not reached by the merged search".to_string()));
                }
                None
            })
            .collect();
        for (h, why) in bad {
            ctx.violation("C03:machinery:fingerprint-abstraction-unsound", || json!({"subject": s.name, "history": h, "why": why}));
        }
        ctx.evals(all.len() as u64);
        e["unmerged_histories_cross_checked"] = json!(all.len());
        let mut ex = Vec::new();
        ex.push(e);
        ctx.set(&format!("subject_{}", s.name), json!(ex));
    }
}

// -------------------------------------------------------------------------------------------- subjects

const AAA: u32 = otmodel::tag(b"AAA ");
const BBB: u32 = otmodel::tag(b"BBB ");

/// GSUB 1.1 with FeatureVariations: liga -> lookup 0 (a->b); when axis0 in [0.5, 1.0] liga -> lookup 1 (a->c);
/// smcp -> lookup 2 (b->x). Scripts DFLT (default langsys: liga, smcp) and latn (default: liga, smcp; 'AAA ': liga only).
fn synthetic_gsub() -> Vec<u8> {
    fn single(cov_glyph: u16, delta: i16) -> Vec<u8> {
        let mut w = W::new();
        w.u16(1).u16(6).i16(delta); // format 1, coverage offset 6, delta
        w.u16(1).u16(1).u16(cov_glyph); // coverage format 1, 1 glyph
        w.done()
    }
    fn lookup(sub: Vec<u8>) -> Vec<u8> {
        let mut w = W::new();
        w.u16(1).u16(0).u16(1).u16(8); // type 1, flag 0, 1 subtable at offset 8
        w.bytes(&sub);
        w.done()
    }
    let lookups = [lookup(single(1, 1)), lookup(single(1, 2)), lookup(single(2, 2))];
    let mut ll = W::new();
    ll.u16(3);
    let mut off = 2 + 2 * 3;
    for l in &lookups {
        ll.u16(off as u16);
        off += l.len();
    }
    for l in &lookups {
        ll.bytes(l);
    }
    let ll = ll.done();
    // feature list
    let mut fl = W::new();
    fl.u16(2).tag(tag::LIGA).u16(14).tag(tag::SMCP).u16(20);
    fl.u16(0).u16(1).u16(0); // liga: params 0, 1 lookup: 0
    fl.u16(0).u16(1).u16(2); // smcp: lookup 2
    let fl = fl.done();
    // script list
    let mut sl = W::new();
    sl.u16(2).tag(tag::DFLT).u16(14).tag(tag::LATN).u16(14 + 14);
    // DFLT script table (14 bytes): defaultLangSys at 4, 0 langsys records; LangSys: order 0, req 0xFFFF, 2 features [0,1]
    sl.u16(4).u16(0).u16(0).u16(0xFFFF).u16(2).u16(0).u16(1);
    // latn script table: defaultLangSys at 10, 1 langsys record ('AAA ' at 20)
    sl.u16(10).u16(1).tag(AAA).u16(20);
    sl.u16(0).u16(0xFFFF).u16(2).u16(0).u16(1); // default langsys (10 bytes)
    sl.u16(0).u16(0xFFFF).u16(1).u16(0); // AAA: liga only
    let sl = sl.done();
    // feature variations
    let mut fv = W::new();
    fv.u16(1).u16(0).u32(1); // version 1.0, 1 record
    fv.u32(16).u32(16 + 6 + 8); // conditionSetOffset, featureTableSubstitutionOffset (from start of FeatureVariations)
    fv.u16(1).u32(6); // condition set: 1 condition at offset 6
    fv.u16(1).u16(0).i16(8192).i16(16384); // format 1, axis 0, min 0.5, max 1.0
    fv.u16(1).u16(0).u16(1); // FeatureTableSubstitution version 1.0, 1 substitution
    fv.u16(0).u32(12); // featureIndex 0, alternateFeature offset 12 (from start of FeatureTableSubstitution)
    fv.u16(0).u16(1).u16(1); // Feature: params 0, 1 lookup: 1
    let fv = fv.done();
    let mut g = W::new();
    let h = 14;
    g.u16(1).u16(1).u16(h as u16).u16((h + sl.len()) as u16).u16((h + sl.len() + fl.len()) as u16).u32((h + sl.len() + fl.len() + ll.len()) as u32);
    g.bytes(&sl).bytes(&fl).bytes(&ll).bytes(&fv);
    g.done()
}

/// GSUB 1.1 whose FeatureVariations has two records (axis 0 in [0.5, 1] and in [-1, -0.5]); both substitution tables
/// replace liga by the SAME alternate feature table (lookup 1: a->c) and smcp by different ones (lookup 3: b->+3 in the
/// first region, lookup 4: b->+4 in the second). Anything that identifies a substitution table by its first alternate
/// confuses the two regions.
fn synthetic_gsub_two_regions() -> Vec<u8> {
    fn single(cov_glyph: u16, delta: i16) -> Vec<u8> {
        let mut w = W::new();
        w.u16(1).u16(0).u16(1).u16(8); // lookup: type 1, flag 0, 1 subtable at 8
        w.u16(1).u16(6).i16(delta).u16(1).u16(1).u16(cov_glyph);
        w.done()
    }
    let lookups = [single(1, 1), single(1, 2), single(2, 2), single(2, 3), single(2, 4)];
    let mut ll = W::new();
    ll.u16(lookups.len() as u16);
    let mut off = 2 + 2 * lookups.len();
    for l in &lookups {
        ll.u16(off as u16);
        off += l.len();
    }
    for l in &lookups {
        ll.bytes(l);
    }
    let ll = ll.done();
    let mut fl = W::new();
    fl.u16(2).tag(tag::LIGA).u16(14).tag(tag::SMCP).u16(20);
    fl.u16(0).u16(1).u16(0); // liga: lookup 0
    fl.u16(0).u16(1).u16(2); // smcp: lookup 2
    let fl = fl.done();
    let mut sl = W::new();
    sl.u16(1).tag(tag::DFLT).u16(8);
    sl.u16(4).u16(0).u16(0).u16(0xFFFF).u16(2).u16(0).u16(1);
    let sl = sl.done();
    let mut fv = W::new();
    fv.u16(1).u16(0).u32(2);
    fv.u32(24).u32(52); // record A: condition set at 24, substitution table at 52
    fv.u32(38).u32(70); // record B: condition set at 38, substitution table at 70
    fv.u16(1).u32(6).u16(1).u16(0).i16(8192).i16(16384); // condition set A: axis 0 in [0.5, 1.0]
    fv.u16(1).u32(6).u16(1).u16(0).i16(-16384).i16(-8192); // condition set B: axis 0 in [-1.0, -0.5]
    fv.u16(1).u16(0).u16(2).u16(0).u32(36).u16(1).u32(42); // substitution table A (at 52): liga -> 88, smcp -> 94
    fv.u16(1).u16(0).u16(2).u16(0).u32(18).u16(1).u32(30); // substitution table B (at 70): liga -> 88, smcp -> 100
    fv.u16(0).u16(1).u16(1); // 88: alternate liga: lookup 1
    fv.u16(0).u16(1).u16(3); // 94: alternate smcp, region A: lookup 3
    fv.u16(0).u16(1).u16(4); // 100: alternate smcp, region B: lookup 4
    let fv = fv.done();
    assert_eq!(fv.len(), 106);
    let mut g = W::new();
    let h = 14;
    g.u16(1).u16(1).u16(h as u16).u16((h + sl.len()) as u16).u16((h + sl.len() + fl.len()) as u16).u32((h + sl.len() + fl.len() + ll.len()) as u32);
    g.bytes(&sl).bytes(&fl).bytes(&ll).bytes(&fv);
    g.done()
}

/// GSUB larger than 64 KiB: two Extension lookups (liga -> lookup 0: a->b, calt -> lookup 1: b->c) whose SingleSubst
/// subtables - and therefore their Coverage tables - lie exactly `distance` bytes apart. The Coverage/ClassDef object
/// caches are keyed by table offset; any key that loses high bits makes the two collide, and which coverage is returned
/// then depends on which lookup a history touched first.
fn big_gsub(distance: usize) -> Vec<u8> {
    let mut sl = W::new();
    sl.u16(1).tag(tag::DFLT).u16(8);
    sl.u16(4).u16(0).u16(0).u16(0xFFFF).u16(2).u16(0).u16(1); // default LangSys: features 0, 1
    let sl = sl.done();
    let mut fl = W::new();
    fl.u16(2).tag(tag::CALT).u16(14).tag(tag::LIGA).u16(20);
    fl.u16(0).u16(1).u16(1); // calt: lookup 1
    fl.u16(0).u16(1).u16(0); // liga: lookup 0
    let fl = fl.done();
    let h = 10usize;
    let ll_off = h + sl.len() + fl.len();
    // lookup list: 2 lookups, each type 7 with one ExtensionSubst subtable (8 bytes)
    let l0 = 2 + 2 * 2; // offset of lookup 0 within the lookup list
    let l1 = l0 + 8 + 8;
    let sub_a_abs = 0x200usize; // absolute offset of SingleSubst A within GSUB
    let sub_b_abs = sub_a_abs + distance;
    let ext0_abs = ll_off + l0 + 8;
    let ext1_abs = ll_off + l1 + 8;
    let mut ll = W::new();
    ll.u16(2).u16(l0 as u16).u16(l1 as u16);
    ll.u16(7).u16(0).u16(1).u16(8); // lookup 0: type 7, flag 0, 1 subtable at 8
    ll.u16(1).u16(1).u32((sub_a_abs - ext0_abs) as u32); // ExtensionSubst: format 1, type 1, offset32
    ll.u16(7).u16(0).u16(1).u16(8);
    ll.u16(1).u16(1).u32((sub_b_abs - ext1_abs) as u32);
    let ll = ll.done();
    let mut g = W::new();
    g.u16(1).u16(0).u16(h as u16).u16((h + sl.len()) as u16).u16(ll_off as u16);
    g.bytes(&sl).bytes(&fl).bytes(&ll);
    let mut g = g.done();
    assert!(g.len() <= sub_a_abs);
    g.resize(sub_a_abs, 0);
    let mut a = W::new();
    a.u16(1).u16(6).i16(1).u16(1).u16(1).u16(1); // SingleSubst 1: coverage at 6, delta +1; Coverage 1: [glyph 1]
    g.extend_from_slice(&a.done());
    g.resize(sub_b_abs, 0);
    let mut b = W::new();
    b.u16(1).u16(6).i16(1).u16(1).u16(1).u16(2); // delta +1; Coverage: [glyph 2]
    g.extend_from_slice(&b.done());
    g
}

/// GSUB with one single-substitution lookup per feature (glyph 1 -> 2 + k for the k-th feature) and a script list built by
/// the caller. `features`: tags in the order given (must be sorted by tag for a conforming table).
pub fn gsub_one_lookup_per_feature(script_list: &[u8], features: &[u32]) -> Vec<u8> {
    let n = features.len();
    let mut fl = W::new();
    fl.u16(n as u16);
    for (k, t) in features.iter().enumerate() {
        fl.tag(*t).u16((2 + 6 * n + 6 * k) as u16);
    }
    for k in 0..n {
        fl.u16(0).u16(1).u16(k as u16);
    }
    let fl = fl.done();
    let mut ll = W::new();
    ll.u16(n as u16);
    for k in 0..n {
        ll.u16((2 + 2 * n + 20 * k) as u16);
    }
    for k in 0..n {
        ll.u16(1).u16(0).u16(1).u16(8); // type 1, flag 0, 1 subtable at 8
        ll.u16(1).u16(6).i16(1 + k as i16).u16(1).u16(1).u16(1); // SingleSubst 1: coverage at 6, delta 1+k; Coverage: [glyph 1]
    }
    let ll = ll.done();
    let h = 10usize;
    let mut g = W::new();
    g.u16(1).u16(0).u16(h as u16).u16((h + script_list.len()) as u16).u16((h + script_list.len() + fl.len()) as u16);
    g.bytes(script_list).bytes(&fl).bytes(&ll);
    g.done()
}

fn fvar_one_axis() -> Vec<u8> {
    let mut w = W::new();
    w.u16(1).u16(0).u16(16).u16(2).u16(1).u16(20).u16(0).u16(8);
    w.tag(otmodel::tag(b"wght")).i32(100 << 16).i32(400 << 16).i32(900 << 16).u16(0).u16(256);
    w.done()
}

/// The synthetic variable font of subject 1 (GSUB 1.1 with FeatureVariations + a one-axis fvar), also a C01 seed: with
/// capital letters mapped as well, so that the battery's Latin strings reach the lookups.
pub fn synthetic_variable_gsub_font() -> Vec<u8> {
    let cmap = [(b'a' as u32, 1u16), (b'b' as u32, 2), (b'c' as u32, 3), (b'x' as u32, 4), (0x25CC, 5), (b'A' as u32, 1), (b'B' as u32, 2)];
    otmodel::tables::minimal_font(6, &cmap, &[(tag::GSUB, synthetic_gsub()), (tag::FVAR, fvar_one_axis())])
}

fn subjects(ctx: &Ctx) -> Vec<Subject> {
    let mut v = Vec::new();
    let dflt = FeatureMask::default().bits();
    let smcp = FeatureMask::SMCP.bits();
    // 1. synthetic variable font with GSUB FeatureVariations
    {
        let cmap = [(b'a' as u32, 1u16), (b'b' as u32, 2), (b'c' as u32, 3), (b'x' as u32, 4), (0x25CC, 5)];
        let data = otmodel::tables::minimal_font(6, &cmap, &[(tag::GSUB, synthetic_gsub()), (tag::FVAR, fvar_one_axis())]);
        let shape = |text, script, lang, feats, tuple| Op::Shape { text, script, lang, feats, tuple, kerning: true };
        let ops = vec![
            shape("ab", tag::DFLT, None, FeatSel::Mask(dflt), None),
            shape("ab", tag::DFLT, None, FeatSel::Mask(dflt), Some(12288)), // inside the FeatureVariations condition
            shape("ab", tag::DFLT, None, FeatSel::Mask(dflt), Some(-8192)), // outside
            shape("ab", tag::DFLT, None, FeatSel::Mask(dflt | smcp), None),
            shape("ab", tag::LATN, Some(AAA), FeatSel::Mask(dflt | smcp), None),
            shape("ab", tag::LATN, Some(BBB), FeatSel::Mask(dflt | smcp), None),
            shape("ba", tag::DFLT, None, FeatSel::Custom(vec![tag::LIGA]), Some(12288)),
            shape("ba", tag::DFLT, None, FeatSel::Custom(vec![tag::LIGA]), None),
            shape("ab", otmodel::tag(b"zzzz"), None, FeatSel::Custom(vec![]), None),
            Op::Lookup { ch: '\u{25CC}', required: true, vs: Some(16) },
            Op::Lookup { ch: '\u{25CC}', required: false, vs: None },
            Op::Lookup { ch: '\u{25CC}', required: false, vs: Some(16) },
            Op::Lookup { ch: '\u{25CC}', required: false, vs: Some(15) },
            Op::Lookup { ch: 'a', required: false, vs: None },
            Op::MapGlyphs { text: "a\u{25CC}", script: tag::DFLT, required: false },
            Op::HAdvance(2),
            Op::VAdvance(2),
            Op::Names,
            Op::Image(1),
            Op::Tables,
        ];
        v.push(Subject { name: "synthetic-variable-gsub".into(), data, filter: None, ops });
    }
    // 1b. two variation regions whose substitution tables share their first alternate feature
    {
        let cmap = [(b'a' as u32, 1u16), (b'b' as u32, 2), (b'c' as u32, 3), (b'x' as u32, 4), (0x25CC, 5)];
        let data = otmodel::tables::minimal_font(8, &cmap, &[(tag::GSUB, synthetic_gsub_two_regions()), (tag::FVAR, fvar_one_axis())]);
        let shape = |feats, tuple| Op::Shape { text: "ab", script: tag::DFLT, lang: None, feats, tuple, kerning: true };
        let ops = vec![
            shape(FeatSel::Mask(dflt | smcp), Some(12288)),
            shape(FeatSel::Mask(dflt | smcp), Some(-12288)),
            shape(FeatSel::Mask(dflt | smcp), None),
            shape(FeatSel::Mask(dflt), Some(12288)),
            shape(FeatSel::Mask(dflt), Some(-12288)),
            shape(FeatSel::Custom(vec![tag::LIGA, tag::SMCP]), Some(12288)),
            shape(FeatSel::Custom(vec![tag::LIGA, tag::SMCP]), Some(-12288)),
            Op::Tables,
        ];
        v.push(Subject { name: "synthetic-variable-gsub-two-regions-sharing-an-alternate".into(), data, filter: None, ops });
    }
    let thorough = ctx.tier.thorough();
    // 2. Devanagari (dotted circle insertion consumes the cached dotted circle glyph)
    {
        let data = crate::util::fixture("fonts/noto/NotoSansDevanagari-Regular.ttf");
        let dev2 = otmodel::tag(b"dev2");
        let shape = |text, script, lang, feats| Op::Shape { text, script, lang, feats, tuple: None, kerning: true };
        let mut ops = vec![
            shape("\u{915}\u{93F}", dev2, None, FeatSel::Mask(dflt)),
            shape("\u{93F}", dev2, None, FeatSel::Mask(dflt)), // lone matra: dotted circle is inserted
            shape("\u{915}\u{94D}\u{937}", dev2, Some(otmodel::tag(b"HIN ")), FeatSel::Mask(dflt)),
            shape("ab", tag::LATN, None, FeatSel::Mask(dflt)),
            Op::Lookup { ch: '\u{25CC}', required: true, vs: Some(16) },
            Op::Lookup { ch: '\u{25CC}', required: false, vs: None },
            Op::Lookup { ch: '\u{25CC}', required: true, vs: Some(15) },
            Op::Lookup { ch: '\u{25CC}', required: false, vs: Some(16) },
            Op::Lookup { ch: '\u{25CC}', required: false, vs: Some(15) },
            Op::MapGlyphs { text: "\u{25CC}\u{FE0F}", script: dev2, required: false },
            Op::MapGlyphs { text: "\u{25CC}\u{93F}", script: dev2, required: true },
        ];
        if thorough {
            ops.push(shape("\u{915}\u{93F}", otmodel::tag(b"deva"), None, FeatSel::Mask(dflt)));
            ops.push(shape("\u{915}\u{93F}", dev2, None, FeatSel::Custom(vec![tag::LIGA])));
            ops.push(Op::HAdvance(5));
            ops.push(Op::Tables);
        }
        v.push(Subject { name: "NotoSansDevanagari".into(), data, filter: None, ops });
    }
    // 3. Arabic
    {
        let data = crate::util::fixture("fonts/noto/NotoNaskhArabic-Regular.ttf");
        let shape = |text, script, lang, feats, kerning| Op::Shape { text, script, lang, feats, tuple: None, kerning };
        let mut ops = vec![
            shape("\u{633}\u{644}\u{627}\u{645}", tag::ARAB, None, FeatSel::Mask(dflt), true),
            shape("\u{633}\u{644}\u{627}\u{645}", tag::ARAB, Some(otmodel::tag(b"URD ")), FeatSel::Mask(dflt), true),
            shape("\u{644}\u{627}", tag::ARAB, None, FeatSel::Mask(dflt), false),
            shape("\u{633}\u{644}", tag::ARAB, None, FeatSel::Custom(vec![tag::LIGA]), true),
            shape("ab", tag::LATN, None, FeatSel::Mask(dflt), true),
            Op::Lookup { ch: '\u{25CC}', required: true, vs: Some(16) },
            Op::Lookup { ch: '\u{25CC}', required: false, vs: None },
        ];
        if thorough {
            ops.push(shape("\u{633}\u{651}\u{64E}", tag::ARAB, None, FeatSel::Mask(dflt), true));
            ops.push(Op::Tables);
            ops.push(Op::Names);
        }
        v.push(Subject { name: "NotoNaskhArabic".into(), data, filter: None, ops });
    }
    // 4. sbix font, with default image filter and with an outlines-only filter
    for (nm, filter) in [("sbix-dupe", None), ("sbix-dupe-filter-glyf-only", Some(GlyphTableFlags::GLYF.bits()))] {
        let data = crate::util::fixture("fonts/sbix/sbix-dupe.ttf");
        let ops = vec![
            Op::HasImages,
            Op::Image(1),
            Op::Image(2),
            Op::Lookup { ch: 'a', required: true, vs: Some(16) },
            Op::Lookup { ch: 'a', required: true, vs: Some(15) },
            Op::Lookup { ch: '\u{25CC}', required: true, vs: Some(16) },
            Op::Lookup { ch: '\u{25CC}', required: false, vs: None },
            Op::MapGlyphs { text: "a\u{FE0F}b", script: tag::LATN, required: true },
            Op::Shape { text: "ab", script: tag::LATN, lang: None, feats: FeatSel::Mask(dflt), tuple: None, kerning: true },
            Op::Names,
            Op::VAdvance(1),
        ];
        v.push(Subject { name: nm.into(), data, filter, ops });
    }
    // 4b. a font whose only image tables are EBLC/EBDT (synthetic, from otmodel::bitmapenc): with a fixed filter that opts
    //     into EBDT, and with the filter as an argument of every image query (the images are loaded lazily, once)
    if let Some((_, data)) = crate::synth::extra_seeds().into_iter().find(|(n, _)| n == "eblc-index2-image5+index3-image2-depth1") {
        let all = GlyphTableFlags::all().bits();
        let ops = vec![
            Op::HasImages,
            Op::Image(1),
            Op::Image(4),
            Op::Lookup { ch: 'A', required: true, vs: Some(16) },
            Op::Lookup { ch: 'A', required: true, vs: Some(15) },
            Op::MapGlyphs { text: "A\u{FE0F}B", script: tag::LATN, required: true },
            Op::Names,
        ];
        v.push(Subject { name: "synthetic-eblc-only-filter-all".into(), data: data.clone(), filter: Some(all), ops });
        let dflt_filter = (GlyphTableFlags::SVG | GlyphTableFlags::SBIX | GlyphTableFlags::CBDT).bits();
        let ebdt = GlyphTableFlags::EBDT.bits();
        let ops = vec![Op::HasImagesF(dflt_filter), Op::HasImagesF(ebdt), Op::ImageF(dflt_filter, 1), Op::ImageF(ebdt, 1), Op::ImageF(all, 4), Op::ImageF(GlyphTableFlags::GLYF.bits(), 1), Op::ImageOwnFlags(1), Op::HAdvance(1)];
        v.push(Subject { name: "synthetic-eblc-only-filter-as-argument".into(), data, filter: None, ops });
    }
    // 4c. GSUB with a single script and no DFLT: a run in any other script has no lookups at all (the reserved empty
    //     lookup list), whatever was shaped before
    {
        let cmap = [(b'a' as u32, 1u16), (b'b' as u32, 2), (0x25CC, 7)];
        let mut sl = W::new();
        sl.u16(1).tag(tag::LATN).u16(8);
        sl.u16(4).u16(0).u16(0).u16(0xFFFF).u16(1).u16(0);
        let gsub = gsub_one_lookup_per_feature(&sl.done(), &[tag::LIGA]);
        let data = otmodel::tables::minimal_font(8, &cmap, &[(tag::GSUB, gsub)]);
        let shape = |script: u32, feats: FeatSel| Op::Shape { text: "ab", script, lang: None, feats, tuple: None, kerning: true };
        let ops = vec![
            shape(tag::LATN, FeatSel::Mask(dflt)),
            shape(tag::CYRL, FeatSel::Mask(dflt)),
            shape(tag::GREK, FeatSel::Mask(smcp)),
            shape(tag::LATN, FeatSel::Mask(smcp)),
            shape(tag::CYRL, FeatSel::Custom(vec![tag::LIGA])),
            shape(tag::LATN, FeatSel::Custom(vec![tag::LIGA])),
            Op::Tables,
        ];
        v.push(Subject { name: "synthetic-gsub-latn-only-no-dflt".into(), data, filter: None, ops });
    }
    // 4c2. GPOS in which two scripts each have a feature record tagged 'kern' of their own (lookup 0: advance of glyph 1
    //      -50 under cyrl, lookup 1: -80 under latn): which lookups a feature tag stands for depends on script and language,
    //      so nothing keyed by the tag alone may be kept between calls
    {
        let cmap = [(b'a' as u32, 1u16), (b'b' as u32, 2), (0x25CC, 7)];
        let mut sl = W::new();
        sl.u16(2).tag(tag::CYRL).u16(14).tag(tag::LATN).u16(26);
        sl.u16(4).u16(0).u16(0).u16(0xFFFF).u16(1).u16(0);
        sl.u16(4).u16(0).u16(0).u16(0xFFFF).u16(1).u16(1);
        let sl = sl.done();
        let mut fl = W::new();
        fl.u16(2).tag(tag::KERN).u16(14).tag(tag::KERN).u16(20);
        fl.u16(0).u16(1).u16(0).u16(0).u16(1).u16(1);
        let fl = fl.done();
        let mut ll = W::new();
        ll.u16(2).u16(6).u16(28);
        for val in [-50i16, -80] {
            ll.u16(1).u16(0).u16(1).u16(8); // SinglePos, flag 0, one subtable at 8
            ll.u16(1).u16(8).u16(0x0004).i16(val).u16(1).u16(1).u16(1); // format 1, coverage at 8, XAdvance; Coverage: [glyph 1]
        }
        let ll = ll.done();
        let mut g = W::new();
        g.u16(1).u16(0).u16(10).u16((10 + sl.len()) as u16).u16((10 + sl.len() + fl.len()) as u16);
        g.bytes(&sl).bytes(&fl).bytes(&ll);
        let data = otmodel::tables::minimal_font(8, &cmap, &[(tag::GPOS, g.done())]);
        let shape = |script: u32, kerning: bool| Op::Shape { text: "ab", script, lang: None, feats: FeatSel::Mask(dflt), tuple: None, kerning };
        let ops = vec![shape(tag::LATN, true), shape(tag::CYRL, true), shape(tag::GREK, true), shape(tag::LATN, false), shape(tag::CYRL, false), Op::HAdvance(1)];
        v.push(Subject { name: "synthetic-gpos-two-scripts-with-a-kern-feature-of-their-own".into(), data, filter: None, ops });
    }
    // 4c3. a feature that lists a lookup index beyond the lookup list (one lookup; 'smcp' names lookup 1, 'c2sc' lookup
    //      0xFFFF): whatever such a feature yields - an error or nothing - it yields it whether or not the last lookup of the
    //      list was used before
    {
        let cmap = [(b'a' as u32, 1u16), (b'b' as u32, 2), (0x25CC, 7)];
        let mut sl = W::new();
        sl.u16(1).tag(tag::LATN).u16(8);
        sl.u16(4).u16(0).u16(0).u16(0xFFFF).u16(3).u16(0).u16(1).u16(2);
        let mut gsub = gsub_one_lookup_per_feature(&sl.done(), &[otmodel::tag(b"c2sc"), tag::LIGA, tag::SMCP]);
        // rewrite: keep only lookup 0 in the lookup list, liga -> 0, smcp -> 1, c2sc -> 0xFFFF
        let flo = u16::from_be_bytes([gsub[6], gsub[7]]) as usize;
        let llo = u16::from_be_bytes([gsub[8], gsub[9]]) as usize;
        for (k, idx) in [(0usize, 0xFFFFu16), (1, 0), (2, 1)] {
            let fo = flo + u16::from_be_bytes([gsub[flo + 2 + 6 * k + 4], gsub[flo + 2 + 6 * k + 5]]) as usize;
            gsub[fo + 4..fo + 6].copy_from_slice(&idx.to_be_bytes());
        }
        gsub[llo..llo + 2].copy_from_slice(&1u16.to_be_bytes());
        let data = otmodel::tables::minimal_font(8, &cmap, &[(tag::GSUB, gsub)]);
        let shape = |feats: FeatSel| Op::Shape { text: "ab", script: tag::LATN, lang: None, feats, tuple: None, kerning: true };
        let ops = vec![
            shape(FeatSel::Custom(vec![tag::LIGA])),
            shape(FeatSel::Custom(vec![tag::SMCP])),
            shape(FeatSel::Custom(vec![otmodel::tag(b"c2sc")])),
            shape(FeatSel::Mask(dflt)),
            shape(FeatSel::Mask(smcp)),
            shape(FeatSel::Mask(FeatureMask::C2SC.bits())),
        ];
        v.push(Subject { name: "synthetic-gsub-feature-names-a-lookup-beyond-the-list".into(), data, filter: None, ops });
    }
    // 4c4. a font whose kerning comes from the legacy kern table (no GPOS): kerning is an argument of shape, so a call with
    //      kerning = false must leave nothing behind that a later call with kerning = true (or the other way round) can see
    if let Some((_, data)) = crate::synth::seeds().into_iter().find(|(n, _)| n == "kern0") {
        let shape = |text: &'static str, kerning: bool| Op::Shape { text, script: tag::LATN, lang: None, feats: FeatSel::Mask(dflt), tuple: None, kerning };
        let ops = vec![shape("AB", false), shape("AB", true), shape("BA", true), shape("BA", false), Op::HAdvance(1), Op::Tables];
        v.push(Subject { name: "synthetic-legacy-kern-table-no-gpos".into(), data, filter: None, ops });
    }
    // 4d. a script with a LangSysRecord tagged 'dflt' that differs from its DefaultLangSys: language None, Some(DFLT),
    //     Some('dflt') and an unknown language share or do not share cache entries - whatever they resolve to, the
    //     answer may not depend on which was asked first
    {
        let cmap = [(b'a' as u32, 1u16), (b'b' as u32, 2), (0x25CC, 7)];
        let mut sl = W::new();
        sl.u16(1).tag(tag::LATN).u16(8);
        sl.u16(10).u16(1).tag(otmodel::tag(b"dflt")).u16(20);
        sl.u16(0).u16(0xFFFF).u16(2).u16(0).u16(1); // DefaultLangSys: liga, smcp
        sl.u16(0).u16(0xFFFF).u16(1).u16(1); // 'dflt': smcp only
        let gsub = gsub_one_lookup_per_feature(&sl.done(), &[tag::LIGA, tag::SMCP]);
        let data = otmodel::tables::minimal_font(8, &cmap, &[(tag::GSUB, gsub)]);
        let shape = |lang: Option<u32>, feats: FeatSel| Op::Shape { text: "ab", script: tag::LATN, lang, feats, tuple: None, kerning: true };
        let ops = vec![
            shape(None, FeatSel::Mask(dflt | smcp)),
            shape(Some(tag::DFLT), FeatSel::Mask(dflt | smcp)),
            shape(Some(otmodel::tag(b"dflt")), FeatSel::Mask(dflt | smcp)),
            shape(Some(AAA), FeatSel::Mask(dflt | smcp)),
            shape(None, FeatSel::Mask(dflt)),
            shape(Some(tag::DFLT), FeatSel::Custom(vec![tag::LIGA, tag::SMCP])),
            shape(None, FeatSel::Custom(vec![tag::LIGA, tag::SMCP])),
        ];
        v.push(Subject { name: "synthetic-langsys-record-tagged-dflt".into(), data, filter: None, ops });
    }
    // 5. symbol-encoded font (lazy OS/2 usFirstCharIndex slot)
    {
        let data = crate::util::fixture("fonts/opentype/SymbolTest-Regular.ttf");
        let ops = vec![
            Op::Lookup { ch: 'A', required: false, vs: None },
            Op::Lookup { ch: '\u{F041}', required: false, vs: None },
            Op::Lookup { ch: '\u{25CC}', required: false, vs: None },
            Op::MapGlyphs { text: "AB", script: tag::LATN, required: false },
            Op::Shape { text: "AB", script: tag::LATN, lang: None, feats: FeatSel::Mask(dflt), tuple: None, kerning: true },
            Op::Names,
            Op::Tables,
            Op::HAdvance(1),
        ];
        v.push(Subject { name: "SymbolTest".into(), data, filter: None, ops });
    }
    // 7. layout tables beyond 64 KiB / 16 MiB: object caches keyed by table offset must not confuse tables whose
    //    offsets agree in their low bits
    for (nm, distance) in [("gsub-subtables-65536-apart", 0x1_0000usize), ("gsub-subtables-131072-apart", 0x2_0000), ("gsub-subtables-16MiB-apart", 0x100_0000)] {
        if distance > 0x2_0000 && !thorough {
            continue;
        }
        let cmap = [(b'a' as u32, 1u16), (b'b' as u32, 2), (b'c' as u32, 3), (0x25CC, 4)];
        let data = otmodel::tables::minimal_font(5, &cmap, &[(tag::GSUB, big_gsub(distance))]);
        let shape = |text, feats| Op::Shape { text, script: tag::DFLT, lang: None, feats, tuple: None, kerning: true };
        let ops = vec![
            shape("ab", FeatSel::Custom(vec![tag::LIGA])),
            shape("ab", FeatSel::Custom(vec![tag::CALT])),
            shape("ba", FeatSel::Custom(vec![tag::CALT, tag::LIGA])),
            shape("ab", FeatSel::Mask(dflt)),
            shape("b", FeatSel::Custom(vec![tag::CALT])),
            Op::Tables,
        ];
        v.push(Subject { name: format!("synthetic-{}", nm), data, filter: None, ops });
    }
    // 8. Features::Custom with tags that have no FeatureMask bit (ss01, ss02, cv01) or share one (vert / vrt2): any cache
    //    of custom lookup lists must tell them apart
    {
        let cmap = [(b'a' as u32, 1u16), (b'b' as u32, 2), (0x25CC, 7)];
        let (ss01, ss02, cv01) = (otmodel::tag(b"ss01"), otmodel::tag(b"ss02"), otmodel::tag(b"cv01"));
        let (vert, vrt2) = (otmodel::tag(b"vert"), otmodel::tag(b"vrt2"));
        let mut sl = W::new();
        sl.u16(1).tag(tag::DFLT).u16(8);
        sl.u16(4).u16(0).u16(0).u16(0xFFFF).u16(4).u16(0).u16(1).u16(2).u16(3);
        let gsub = gsub_one_lookup_per_feature(&sl.done(), &[ss01, ss02, vert, vrt2]);
        let data = otmodel::tables::minimal_font(8, &cmap, &[(tag::GSUB, gsub)]);
        let shape = |feats: Vec<u32>| Op::Shape { text: "ab", script: tag::DFLT, lang: None, feats: FeatSel::Custom(feats), tuple: None, kerning: true };
        let ops = vec![
            shape(vec![ss01]),
            shape(vec![ss02]),
            shape(vec![ss01, ss02]),
            shape(vec![ss02, ss01]),
            shape(vec![vert]),
            shape(vec![vrt2]),
            shape(vec![cv01]),
            shape(vec![]),
            Op::Shape { text: "ab", script: tag::DFLT, lang: None, feats: FeatSel::Mask(dflt), tuple: None, kerning: true },
        ];
        v.push(Subject { name: "synthetic-custom-features-without-mask-bits".into(), data, filter: None, ops });
    }
    // 9. a complex-script GSUB whose default LangSys lists a feature index beyond the FeatureList (building the lookup list
    //    fails) next to a language system that is fine: the failure must be reported every time, and must not disturb the
    //    lists cached for other keys
    {
        let cmap = [(0xE01u32, 1u16), (0xE02, 2), (0x25CC, 5)];
        let pal = otmodel::tag(b"PAL ");
        let thai = otmodel::tag(b"thai");
        let mut sl = W::new();
        sl.u16(2).tag(tag::DFLT).u16(14).tag(thai).u16(14 + 12);
        sl.u16(4).u16(0).u16(0).u16(0xFFFF).u16(1).u16(0); // DFLT: default LangSys, feature 0 (12 bytes)
        // thai script table: defaultLangSys at 10, 1 LangSysRecord (PAL at 18)
        sl.u16(10).u16(1).tag(pal).u16(18);
        sl.u16(0).u16(0xFFFF).u16(1).u16(99); // default LangSys: feature index 99 does not exist
        sl.u16(0).u16(0xFFFF).u16(1).u16(1); // PAL: feature 1
        let gsub = gsub_one_lookup_per_feature(&sl.done(), &[tag::CCMP, tag::LIGA]);
        let data = otmodel::tables::minimal_font(6, &cmap, &[(tag::GSUB, gsub)]);
        let shape = |text, script, lang, feats| Op::Shape { text, script, lang, feats, tuple: None, kerning: true };
        let ops = vec![
            shape("\u{E01}\u{E02}", thai, None, FeatSel::Mask(dflt)),
            shape("\u{E01}\u{E02}", thai, Some(pal), FeatSel::Mask(dflt)),
            shape("\u{E01}", thai, Some(pal), FeatSel::Mask(dflt | smcp)),
            shape("\u{E01}\u{E02}", thai, Some(AAA), FeatSel::Mask(dflt)),
            shape("\u{E01}\u{E02}", tag::DFLT, None, FeatSel::Mask(dflt)),
            shape("\u{E01}", thai, None, FeatSel::Custom(vec![tag::LIGA])),
            Op::Tables,
        ];
        v.push(Subject { name: "synthetic-broken-default-langsys-complex-script".into(), data, filter: None, ops });
    }
    // 6. fonts that load but carry a lazily loaded table that is present and unparsable: the first query reports the
    //    parse error; every later query must report it again (a failed load must not be remembered as "table absent")
    {
        let cmap = [(b'a' as u32, 1u16), (b'b' as u32, 2), (0x25CC, 3)];
        let corrupt: [(&str, Vec<(u32, Vec<u8>)>); 5] = [
            ("corrupt-GPOS", vec![(tag::GPOS, vec![0, 1, 0, 0, 0, 10, 0, 30])]),
            ("corrupt-GSUB", vec![(tag::GSUB, vec![0, 1, 0, 0, 0, 10])]),
            ("corrupt-GDEF-kern", vec![(tag::GDEF, vec![0, 1, 0, 0]), (tag::KERN, vec![0, 0, 0, 1, 0, 0])]),
            ("corrupt-vhea-vmtx-morx", vec![(tag::VHEA, vec![0, 1, 0, 0]), (tag::VMTX, vec![0, 1]), (tag::MORX, vec![0, 2, 0, 0])]),
            ("corrupt-bitmaps", vec![(tag::SBIX, vec![0, 1, 0, 1]), (tag::CBLC, vec![0, 3, 0, 0]), (tag::CBDT, vec![0, 3, 0, 0])]),
        ];
        for (nm, tables) in corrupt {
            let data = otmodel::tables::minimal_font(4, &cmap, &tables);
            let shape = |text, feats, kerning| Op::Shape { text, script: tag::LATN, lang: None, feats, tuple: None, kerning };
            let ops = vec![
                shape("ab", FeatSel::Mask(dflt), true),
                shape("ba", FeatSel::Mask(dflt), false),
                shape("ab", FeatSel::Custom(vec![tag::LIGA, tag::KERN]), true),
                Op::Tables,
                Op::VAdvance(1),
                Op::HAdvance(1),
                Op::HasImages,
                Op::Image(1),
                Op::Names,
                Op::Lookup { ch: 'a', required: true, vs: Some(16) },
            ];
            v.push(Subject { name: format!("synthetic-{}", nm), data, filter: None, ops });
        }
    }
    v
}

// -------------------------------------------------------------------------------------------- pure operations

fn pure_digests() -> Vec<(String, String)> {
    let mut out: Vec<(String, String)> = Vec::new();
    let mut rec = |name: String, r: Result<Vec<u8>, String>| {
        out.push((name, match r {
            Ok(b) => format!("{} bytes {:016x}", b.len(), mcx::fnv64(&b)),
            Err(e) => format!("Err({})", e),
        }));
    };
    let fonts = [
        "fonts/opentype/test-font.ttf",
        "fonts/opentype/SFNT-TTF-Composite.ttf",
        "fonts/opentype/Klei.otf",
        "fonts/opentype/SourceCodePro-Regular.otf",
        "fonts/opentype/cff2/SourceSans3.abc.otf",
        "fonts/variable/UnderlineTest-VF.ttf",
        "fonts/opentype/NotoSans-VF.abc.ttf",
        "fonts/woff2/test-font.woff2",
        "fonts/woff2/SFNT-TTF-Composite.woff2",
        "fonts/woff1/valid-005.woff",
    ];
    for f in fonts {
        let path = format!("{}/tests/{}", crate::util::REPO, f);
        let data = match std::fs::read(&path) {
            Ok(d) if !d.is_empty() => d,
            _ => continue,
        };
        let r = guard(|| {
            let fd = match ReadScope::new(&data).read::<FontData<'_>>() {
                Ok(fd) => fd,
                Err(e) => return vec![(format!("{}:read", f), Err(format!("{:?}", e)))],
            };
            let p = match fd.table_provider(0) {
                Ok(p) => p,
                Err(e) => return vec![(format!("{}:provider", f), Err(format!("{:?}", e)))],
            };
            let mut v = Vec::new();
            let n = p.table_data(tag::MAXP).ok().flatten().and_then(|d| d.get(4..6).map(|b| u16::from_be_bytes([b[0], b[1]]))).unwrap_or(1);
            let lists: Vec<Vec<u16>> = vec![vec![0], (0..n.min(4)).collect(), vec![0, n.saturating_sub(1).max(1).min(n - 1)].into_iter().collect::<std::collections::BTreeSet<_>>().into_iter().collect()];
            for l in &lists {
                v.push((format!("{}:subset{:?}", f, l), allsorts::subset::subset(&p, l).map_err(|e| format!("{:?}", e))));
            }
            if let Some(mut tags) = p.table_tags() {
                tags.sort();
                v.push((format!("{}:whole_font", f), allsorts::subset::whole_font(&p, &tags).map_err(|e| format!("{:?}", e))));
                // decoded tables themselves (WOFF / WOFF2 decoding is a pure operation)
                let mut all = Vec::new();
                for t in &tags {
                    if let Ok(Some(d)) = p.table_data(*t) {
                        all.extend_from_slice(&t.to_be_bytes());
                        all.extend_from_slice(&d);
                    }
                }
                v.push((format!("{}:decoded-tables", f), Ok(all)));
            }
            if p.has_table(tag::FVAR) {
                if let Ok(Some(fv)) = p.table_data(tag::FVAR) {
                    if let Ok(fvar) = ReadScope::new(&fv).read::<FvarTable<'_>>() {
                        for which in 0..3 {
                            let user: Vec<Fixed> = fvar.axes().map(|a| match which { 0 => a.default_value, 1 => a.min_value, _ => a.max_value }).collect();
                            v.push((format!("{}:instance{}", f, which), allsorts::variations::instance(&p, &user).map(|x| x.0).map_err(|e| format!("{:?}", e))));
                        }
                    }
                }
            }
            v
        });
        match r {
            Ok(v) => {
                for (n, r) in v {
                    rec(n, r);
                }
            }
            Err(p) => rec(format!("{}:PANIC", f), Err(format!("{} at {}", p.msg, p.loc()))),
        }
    }
    // synthetic corpora of the other checks (every k-th model font, so the sequence mixes table shapes the fixtures do
    // not have: composites with varying offsets, every gvar packing, WOFF2 with every transform choice, collections):
    // instancing, WOFF2 decoding and re-subsetting of the decoded font are pure, in this process and in another one
    let c12 = crate::c12::corpus_for_c09(false);
    let step12 = (c12.len() / 40).max(1);
    for (desc, bytes, users) in c12.iter().step_by(step12) {
        let r = guard(|| {
            let mut v = Vec::new();
            let Ok(fd) = ReadScope::new(bytes).read::<FontData<'_>>() else { return v };
            let Ok(p) = fd.table_provider(0) else { return v };
            for (k, user) in users.iter().enumerate().take(3) {
                let fixed: Vec<Fixed> = user.iter().map(|u| Fixed::from_raw(*u)).collect();
                v.push((format!("{}:instance{}", desc, k), allsorts::variations::instance(&p, &fixed).map(|x| x.0).map_err(|e| format!("{:?}", e))));
            }
            v.push((format!("{}:subset[0,1]", desc), allsorts::subset::subset(&p, &[0, 1]).map_err(|e| format!("{:?}", e))));
            v
        });
        match r {
            Ok(v) => {
                for (n, r) in v {
                    rec(n, r);
                }
            }
            Err(p) => rec(format!("{}:PANIC", desc), Err(format!("{} at {}", p.msg, p.loc()))),
        }
    }
    let c11 = crate::c11::corpus_for_c09(false);
    let step11 = (c11.len() / 40).max(1);
    for (desc, bytes, members) in c11.iter().step_by(step11) {
        let r = guard(|| {
            let mut v = Vec::new();
            let Ok(fd) = ReadScope::new(bytes).read::<FontData<'_>>() else { return v };
            for &m in members.iter().take(2) {
                let Ok(p) = fd.table_provider(m) else { continue };
                let mut tags = p.table_tags().unwrap_or_default();
                tags.sort();
                let mut all = Vec::new();
                for t in &tags {
                    if let Ok(Some(d)) = p.table_data(*t) {
                        all.extend_from_slice(&t.to_be_bytes());
                        all.extend_from_slice(&d);
                    }
                }
                v.push((format!("{}[{}]:decoded-tables", desc, m), Ok(all)));
                v.push((format!("{}[{}]:subset[0]", desc, m), allsorts::subset::subset(&p, &[0]).map_err(|e| format!("{:?}", e))));
            }
            v
        });
        match r {
            Ok(v) => {
                for (n, r) in v {
                    rec(n, r);
                }
            }
            Err(p) => rec(format!("{}:PANIC", desc), Err(format!("{} at {}", p.msg, p.loc()))),
        }
    }
    out
}

/// entry point of the second process
pub fn pure_child() {
    for (n, d) in pure_digests() {
        println!("{}\t{}", n, d);
    }
}

fn run_pure(ctx: &Ctx) {
    let a = pure_digests();
    for round in 0..2 {
        let b = pure_digests();
        for (x, y) in a.iter().zip(b.iter()) {
            if x != y {
                ctx.violation("C03:pure-operation-not-deterministic-in-process", || json!({"operation": x.0, "first": x.1, "repeat": y.1, "round": round}));
            }
        }
    }
    // second process: different RandomState seeds
    let exe = std::env::current_exe().expect("current_exe");
    let out = std::process::Command::new(exe).arg("c03-pure-child").output();
    match out {
        Ok(o) if o.status.success() => {
            let text = String::from_utf8_lossy(&o.stdout);
            let b: Vec<(String, String)> = text.lines().filter_map(|l| l.split_once('\t').map(|(a, b)| (a.to_string(), b.to_string()))).collect();
            if b.len() != a.len() {
                ctx.violation("C03:machinery:child-process-output", || json!({"expected_lines": a.len(), "got": b.len()}));
            }
            for (x, y) in a.iter().zip(b.iter()) {
                if x != y {
                    ctx.violation("C03:pure-operation-differs-across-processes", || json!({"operation": x.0, "this_process": x.1, "other_process": y.1}));
                }
            }
        }
        o => ctx.violation("C03:machinery:child-process-failed", || json!({"result": format!("{:?}", o.map(|o| o.status))})),
    }
    ctx.evals(a.len() as u64 * 4);
    ctx.add_states(a.len() as u64);
    ctx.add_transitions(a.len() as u64 * 4);
    ctx.set("pure_operations", json!(a.iter().map(|x| format!("{} -> {}", x.0, x.1)).collect::<Vec<_>>()));
    for x in &a {
        ctx.mark_nontrivial(H::new().str(&x.0).get());
    }
}

/// Long chains: a cache with a capacity, an eviction or a resize threshold only misbehaves after many DISTINCT keys. The
/// subject has 64 calls with pairwise different (script, language, feature mask) keys over one text; for every k in 0..=64
/// the first k calls are made on a fresh font and then every one of the 64 calls is probed and compared with its result on a
/// fresh font (k x 64 probes - the chain order is fixed, the chain length and the probe are enumerated completely).
fn long_chain_subject() -> Subject {
    let data = crate::util::fixture("fonts/opentype/Klei.otf");
    let dflt = FeatureMask::default().bits();
    let smcp = FeatureMask::SMCP.bits();
    const LANGS: [&[u8; 4]; 16] = [b"AAA ", b"AAB ", b"AAC ", b"AAD ", b"AAE ", b"AAF ", b"AAG ", b"AAH ", b"AAI ", b"AAJ ", b"AAK ", b"AAL ", b"AAM ", b"AAN ", b"AAO ", b"AAP "];
    let mut ops = Vec::new();
    for l in LANGS.iter() {
        for (script, mask) in [(tag::LATN, dflt), (tag::LATN, dflt | smcp), (tag::DFLT, dflt), (tag::CYRL, dflt | smcp)] {
            ops.push(Op::Shape { text: "office", script, lang: Some(otmodel::tag(l)), feats: FeatSel::Mask(mask), tuple: None, kerning: true });
        }
    }
    Subject { name: "Klei-long-chain-of-distinct-cache-keys".into(), data, filter: None, ops }
}

fn long_chains(ctx: &Ctx) {
    let s = long_chain_subject();
    let n = s.ops.len();
    let fresh: Vec<String> = (0..n).map(|j| run_hist(&s, &[], j as u8).0).collect();
    let bad: Vec<(usize, usize, String)> = (0..=n)
        .into_par_iter()
        .flat_map_iter(|k| {
            let r = guard(|| {
                with_subject(&s, |font, fvar| {
                    for h in 0..k {
                        let _ = apply(font, &s.ops[h], fvar);
                    }
                    (0..n).map(|j| apply(font, &s.ops[j], fvar)).collect::<Vec<String>>()
                })
            });
            let got: Vec<String> = match r {
                Ok(v) => v,
                Err(p) => vec![format!("PANIC {} at {}", p.msg, p.site_key("/repo")); n],
            };
            let fresh = &fresh;
            (0..n).filter(move |&j| got[j] != fresh[j]).map(move |j| (k, j, String::new())).collect::<Vec<_>>()
        })
        .collect();
    for (k, j, _) in &bad {
        ctx.violation("C03:history-dependent:long-chain-of-distinct-cache-keys", || {
            json!({"subject": s.name, "history_op_ids": (0..*k).collect::<Vec<usize>>(), "probe_op_id": j, "history": format!("the first {} calls of the chain", k), "probe": s.ops[*j].describe(),
                   "on_fresh_font": fresh[*j], "after_history": run_hist(&s, &(0..*k as u8).collect::<Vec<u8>>(), *j as u8).0})
        });
    }
    let evals = ((n + 1) * n) as u64;
    ctx.evals(evals);
    ctx.add_states((n + 1) as u64);
    ctx.add_transitions(evals);
    ctx.set("long_chains", json!({"distinct_keys": n, "chain_lengths": format!("0..={}", n), "probes": evals}));
}

pub fn run(ctx: &Ctx) {
    ctx.set_rule(
        "state = canonical digest (hook H3) of every mutable slot of a Font reached by a witness history of API calls from a per-font \
         alphabet chosen to collide on cache keys; transition = one call applied to a fresh replay of the witness, its result compared \
         with the same call on a freshly loaded font; BFS to fixpoint; non-trivial = transition that changed the digest; distinct by \
         (subject, digest before, digest after)",
    );
    ctx.assume("hook H3 renders all mutable state of Font (LazyLoad slots, glyph cache, image filter, and for both layout caches: supported_features, lookups_index, cached_lookups, populated lookup_cache slots, coverage/classdef ReadCache keys); cross-validated by unmerged exploration of all histories to depth 3 (thorough 4)");
    ctx.assume("set_embedded_image_filter is a configuration: filter values are explored as subjects of their own (compared with a fresh font carrying the same filter) and, on the EBLC-only subject, as an argument of every image query (set filter, then query, compared with the same pair on a fresh font)");
    ctx.assume("observables are compared through Debug renderings of the returned values");
    let depth = if ctx.tier.thorough() { 4 } else { 3 };
    for s in subjects(ctx) {
        let d = if s.ops.len() > 12 { depth.min(3) } else { depth };
        explore_subject(ctx, &s, d);
    }
    long_chains(ctx);
    run_pure(ctx);
    ctx.set("bounds", json!({"history_length": "unbounded (fixpoint)", "unmerged_cross_check_depth": depth}));
}

pub fn replay(w: &Value) -> Result<(), String> {
    let name = w["subject"].as_str().ok_or("no subject")?;
    let ctx = Ctx::new("C03", mcx::Tier::Thorough, "model_checking");
    let mut subs = subjects(&ctx);
    subs.push(long_chain_subject());
    let s = subs.iter().find(|s| s.name == name).ok_or("unknown subject")?;
    let hist: Vec<u8> = w["history_op_ids"].as_array().ok_or("no history_op_ids")?.iter().map(|x| x.as_u64().unwrap() as u8).collect();
    let p = w["probe_op_id"].as_u64().ok_or("no probe_op_id")? as u8;
    let fresh = run_hist(s, &[], p).0;
    let a = run_hist(s, &hist, p).0;
    let b = run_hist(s, &hist, p).0;
    if a != b {
        return Err("machinery: replay not deterministic".into());
    }
    if a == fresh {
        Ok(())
    } else {
        Err(format!("after {:?}: {} returns {} but {} on a fresh font", hist.iter().map(|h| s.ops[*h as usize].describe()).collect::<Vec<_>>(), s.ops[p as usize].describe(), a, fresh))
    }
}
