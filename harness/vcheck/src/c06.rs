//! C06 — character-to-glyph mapping conforms to the cmap encodings.
//!
//! Exhaustive enumeration of cmap subtables (formats 0, 2, 4, 6, 10, 12) from structural menus with an
//! independent encoder (`otmodel::cmapenc`) that also yields the model map the specification assigns;
//! every table is read by allsorts and probed at every structural edge (thorough: every code point).
//! Seams: CmapSubtable::map_glyph, owned::CmapSubtable::map_glyph, mappings_fn / mappings, and
//! Font::lookup_glyph_index on a wrapped sfnt (Unicode, Symbol, Mac Roman, Big5 records), plus the
//! encoding-record preference and the Mac Roman / Big5 inverse laws.

use allsorts::binary::read::ReadScope;
use allsorts::font::MatchingPresentation;
use allsorts::tables::cmap::CmapSubtable;
use mcx::{explore_par, guard, Chooser, Ctx, H};
use otmodel::cmapenc::{self, Model, Seg4, Sub2, Term4};
use otmodel::{tables, tag};
use rayon::prelude::*;
use serde_json::{json, Value};
use std::collections::BTreeMap;

const LANDMARKS: [u32; 16] = [
    0, 1, 0x20, 0x41, 0x7F, 0x80, 0xFF, 0x100, 0xFFFE, 0xFFFF, 0x10000, 0x10041, 0x10FFFF, 0x110000, 0x7FFF_FFFF, 0xFFFF_FFFF,
];

fn edges(ranges: &[(u32, u32)]) -> Vec<u32> {
    let mut v: Vec<u32> = LANDMARKS.to_vec();
    for &(s, e) in ranges {
        for d in 0..=2u32 {
            v.push(s.saturating_sub(d));
            v.push(s.saturating_add(d));
            v.push(e.saturating_sub(d));
            v.push(e.saturating_add(d));
        }
    }
    v.sort();
    v.dedup();
    v
}

/// A documented way allsorts may deviate: alternative model + key.
struct Alt<'a> {
    key: &'static str,
    f: &'a dyn Fn(u32) -> u16,
}

struct Table<'a> {
    fmt: &'static str,
    bytes: &'a [u8],
    model: &'a Model,
    desc: &'a dyn Fn() -> Value,
    /// codes for which the model is authoritative (format 2 has invalid code forms)
    valid: &'a dyn Fn(u32) -> bool,
    alts: &'a [Alt<'a>],
}

fn observe(r: Result<Option<u16>, allsorts::error::ParseError>) -> Result<u16, String> {
    match r {
        Ok(Some(g)) => Ok(g),
        Ok(None) => Ok(0),
        Err(e) => Err(format!("{:?}", e)),
    }
}

fn report(ctx: &Ctx, t: &Table<'_>, seam: &str, c: u32, want: u16, got: &Result<u16, String>) {
    let mut key = format!("C06:{}:mismatch:{}", t.fmt, seam);
    if let Ok(g) = got {
        for a in t.alts {
            if (a.f)(c) == *g {
                key = format!("C06:{}", a.key);
                break;
            }
        }
    }
    ctx.violation(&key, || {
        json!({"format": t.fmt, "seam": seam, "table": (t.desc)(), "subtable_hex": mcx::hex(t.bytes),
               "code": c, "expected_glyph": want, "observed": format!("{:?}", got)})
    });
}

/// subtable-level seams
fn check_subtable(ctx: &Ctx, t: &Table<'_>, probes: &[u32], full_sweep: bool) {
    let parsed = guard(|| ReadScope::new(t.bytes).read::<CmapSubtable<'_>>());
    let sub = match parsed {
        Err(p) => {
            ctx.violation(&format!("C06:{}:panic:{}", t.fmt, p.site_key("/repo")), || json!({"table": (t.desc)(), "panic": p.msg, "subtable_hex": mcx::hex(t.bytes)}));
            return;
        }
        Ok(Err(e)) => {
            ctx.violation(&format!("C06:{}:well-formed-subtable-rejected", t.fmt), || json!({"table": (t.desc)(), "error": format!("{:?}", e), "subtable_hex": mcx::hex(t.bytes)}));
            return;
        }
        Ok(Ok(s)) => s,
    };
    let owned = sub.to_owned();
    let want_of = |c: u32| t.model.get(&c).copied().unwrap_or(0);
    let mut hout = H::new();
    let mut one = |c: u32| {
        if !(t.valid)(c) {
            return;
        }
        let want = want_of(c);
        match guard(|| observe(sub.map_glyph(c))) {
            Err(p) => ctx.violation(&format!("C06:{}:panic:{}", t.fmt, p.site_key("/repo")), || json!({"table": (t.desc)(), "code": c, "panic": p.msg})),
            Ok(got) => {
                let ok = match &got {
                    Ok(g) => *g == want,
                    Err(_) => want == 0,
                };
                if !ok {
                    report(ctx, t, "map_glyph", c, want, &got);
                }
                hout = hout.u64(c as u64).u64(*got.as_ref().unwrap_or(&0) as u64);
            }
        }
        if let Some(o) = &owned {
            match guard(|| observe(o.map_glyph(c))) {
                Err(p) => ctx.violation(&format!("C06:{}:panic:{}", t.fmt, p.site_key("/repo")), || json!({"table": (t.desc)(), "code": c, "panic": p.msg, "seam": "owned"})),
                Ok(got) => {
                    let ok = match &got {
                        Ok(g) => *g == want,
                        Err(_) => want == 0,
                    };
                    if !ok {
                        report(ctx, t, "owned-map_glyph", c, want, &got);
                    }
                }
            }
        }
    };
    if full_sweep {
        for c in 0..0x110000u32 {
            one(c);
        }
        for &c in &[0x110000u32, 0x7FFF_FFFF, 0xFFFF_FFFF] {
            one(c);
        }
    } else {
        for &c in probes {
            one(c);
        }
    }
    ctx.mark_outcome(hout.get());

    // mappings_fn lists exactly the pairs single lookups return
    let listed = guard(|| {
        let mut v: Vec<(u32, u16)> = Vec::new();
        let r = sub.mappings_fn(|c, g| v.push((c, g)));
        (r.map_err(|e| format!("{:?}", e)), v)
    });
    match listed {
        Err(p) => ctx.violation(&format!("C06:{}:panic:{}", t.fmt, p.site_key("/repo")), || json!({"table": (t.desc)(), "seam": "mappings_fn", "panic": p.msg, "subtable_hex": mcx::hex(t.bytes)})),
        Ok((Err(e), _)) => ctx.violation(&format!("C06:{}:mappings_fn-error", t.fmt), || json!({"table": (t.desc)(), "error": e, "subtable_hex": mcx::hex(t.bytes)})),
        Ok((Ok(()), v)) => {
            let mut seen: BTreeMap<u32, u16> = BTreeMap::new();
            for &(c, g) in &v {
                if !(t.valid)(c) {
                    continue;
                }
                let single = observe(sub.map_glyph(c)).unwrap_or(0);
                if single != g {
                    ctx.violation(&format!("C06:{}:mappings_fn-disagrees-with-map_glyph", t.fmt), || {
                        json!({"table": (t.desc)(), "code": c, "listed": g, "map_glyph": single, "subtable_hex": mcx::hex(t.bytes)})
                    });
                }
                seen.insert(c, g);
            }
            // the converse, for every probed code whether or not it is a well-formed character code of the encoding: a
            // non-zero glyph returned by a single lookup is a pair the enumeration lists ("lists exactly the pairs that
            // single lookups return")
            if !full_sweep {
                let all: std::collections::BTreeSet<(u32, u16)> = v.iter().copied().collect();
                for &c in probes {
                    if let Ok(Ok(g)) = guard(|| observe(sub.map_glyph(c))) {
                        if g != 0 && !all.contains(&(c, g)) {
                            ctx.violation(&format!("C06:{}:map_glyph-returns-a-pair-that-mappings_fn-does-not-list", t.fmt), || {
                                json!({"table": (t.desc)(), "code": c, "map_glyph": g, "wellformed_code": (t.valid)(c), "subtable_hex": mcx::hex(t.bytes)})
                            });
                            break;
                        }
                    }
                }
            }
            // every mapped code of the model must be listed
            for (c, g) in t.model.iter() {
                if (t.valid)(*c) && seen.get(c) != Some(g) {
                    // attribute to a documented deviation if the listing equals it
                    let got = seen.get(c).copied();
                    let mut key = format!("C06:{}:mappings_fn-misses-or-differs", t.fmt);
                    for a in t.alts {
                        if Some((a.f)(*c)) == got {
                            key = format!("C06:{}", a.key);
                        }
                    }
                    ctx.violation(&key, || json!({"table": (t.desc)(), "code": c, "expected": g, "listed": got, "seam": "mappings_fn", "subtable_hex": mcx::hex(t.bytes)}));
                }
            }
            // listed non-zero glyphs must be in the model
            for (c, g) in seen.iter() {
                if *g != 0 && t.model.get(c) != Some(g) {
                    let mut key = format!("C06:{}:mappings_fn-lists-unmapped-code", t.fmt);
                    for a in t.alts {
                        if (a.f)(*c) == *g {
                            key = format!("C06:{}", a.key);
                        }
                    }
                    ctx.violation(&key, || json!({"table": (t.desc)(), "code": c, "listed": g, "expected": t.model.get(c), "seam": "mappings_fn", "subtable_hex": mcx::hex(t.bytes)}));
                }
            }
            // mappings(): first code per glyph in listing order
            if let Ok(Ok(m)) = guard(|| sub.mappings()) {
                let mut first: BTreeMap<u16, u32> = BTreeMap::new();
                for &(c, g) in &v {
                    first.entry(g).or_insert(c);
                }
                let got: BTreeMap<u16, u32> = m.into_iter().collect();
                if got != first {
                    ctx.violation(&format!("C06:{}:mappings-not-first-code-per-glyph", t.fmt), || json!({"table": (t.desc)(), "expected": format!("{:?}", first), "got": format!("{:?}", got)}));
                }
            }
        }
    }
}

/// Font-level seam for a Unicode subtable: wrap and look every probe char up.
fn check_font_unicode(ctx: &Ctx, t: &Table<'_>, pid: u16, eid: u16, probes: &[u32]) {
    let cmap = tables::cmap_table(&[(pid, eid, t.bytes.to_vec())]);
    let font = tables::minimal_font(4, &[], &[(tag(b"cmap"), cmap)]);
    let r = guard(|| {
        crate::util::with_font(&font, |f| {
            probes
                .iter()
                .filter_map(|&c| char::from_u32(c).map(|ch| (c, f.lookup_glyph_index(ch, MatchingPresentation::NotRequired, None).0)))
                .collect::<Vec<_>>()
        })
    });
    match r {
        Err(p) => ctx.violation(&format!("C06:{}:panic:{}", t.fmt, p.site_key("/repo")), || json!({"table": (t.desc)(), "seam": "Font", "panic": p.msg})),
        Ok(Err(e)) => ctx.violation(&format!("C06:{}:font-with-wellformed-cmap-rejected", t.fmt), || json!({"table": (t.desc)(), "error": e, "record": [pid, eid]})),
        Ok(Ok(v)) => {
            for (c, g) in v {
                if !(t.valid)(c) {
                    continue;
                }
                let want = t.model.get(&c).copied().unwrap_or(0);
                if g != want {
                    report(ctx, t, "Font::lookup_glyph_index", c, want, &Ok(g));
                }
            }
        }
    }
}

// ------------------------------------------------------------------------------------------ format 4
const STARTS4: [u16; 8] = [0, 1, 0x20, 0x7F, 0xFF, 0x100, 0x7FFF, 0xFFFB];
const DELTAS4: [i16; 6] = [0, 1, -1, 0x7FFF, -0x8000, -0x20];
const ENTRIES4: [u16; 3] = [0, 3, 0xFFFE];
const ADELTAS4: [i16; 3] = [0, 5, -1];

fn gen_fmt4(c: &mut Chooser<'_>, max_segs: usize, rich: bool) -> (Vec<Seg4>, Term4) {
    let nseg = 1 + c.pick(max_segs);
    let mut segs: Vec<Seg4> = Vec::new();
    let mut min_start: u32 = 0;
    for _ in 0..nseg {
        let cands: Vec<u16> = STARTS4.iter().copied().filter(|s| *s as u32 >= min_start).collect();
        if cands.is_empty() {
            break;
        }
        let start = *c.of(&cands);
        let len = 1 + c.pick(3) as u16;
        let end = start + len - 1;
        let ndel = if rich { DELTAS4.len() } else { 3 };
        let nent = if rich { ENTRIES4.len() } else { 2 };
        let nad = if rich { ADELTAS4.len() } else { 2 };
        let mode = c.pick(ndel + 1);
        if mode < ndel {
            segs.push(Seg4::Delta { start, end, delta: DELTAS4[mode] });
        } else {
            let entries: Vec<u16> = (0..len).map(|_| ENTRIES4[c.pick(nent)]).collect();
            let delta = ADELTAS4[c.pick(nad)];
            segs.push(Seg4::Array { start, end, delta, entries });
        }
        min_start = end as u32 + 1;
    }
    let term = [Term4::Standard, Term4::Fontographer, Term4::InLastSegment][c.dev(3)];
    if term == Term4::InLastSegment {
        // the final segment ends at 0xFFFF and maps real characters (no stand-alone terminator segment)
        let cands: Vec<u16> = [0xFFF9u16, 0xFFFE, 0xFFFF].iter().copied().filter(|s| *s as u32 >= min_start).collect();
        let start = *c.of(&cands);
        let len = (0xFFFFu32 - start as u32 + 1) as usize;
        if c.pick(2) == 0 {
            segs.push(Seg4::Delta { start, end: 0xFFFF, delta: [(10i32 - start as i32) as i16, 1][c.pick(2)] });
        } else {
            let entries: Vec<u16> = (0..len).map(|k| if k % 3 == 1 { 0 } else { 3 + k as u16 }).collect();
            segs.push(Seg4::Array { start, end: 0xFFFF, delta: ADELTAS4[c.pick(2)], entries });
        }
    }
    (segs, term)
}

fn fmt4_alt_zero_entry(segs: &[Seg4]) -> impl Fn(u32) -> u16 + '_ {
    move |c: u32| {
        for s in segs {
            if let Seg4::Array { start, end, delta, entries } = s {
                if (*start as u32) <= c && c <= *end as u32 {
                    let e = entries[(c - *start as u32) as usize];
                    return (e as i32 + *delta as i32).rem_euclid(65536) as u16;
                }
            }
        }
        u16::MAX // never equal to an observed value by accident: callers compare with observed
    }
}

fn run_fmt4(ctx: &Ctx) {
    let thorough = ctx.tier.thorough();
    let body = |max_segs: usize, rich: bool, font_seam: bool, sweep: bool| {
        move |c: &mut Chooser<'_>| {
            let (segs, term) = gen_fmt4(c, max_segs, rich);
            let (bytes, model) = cmapenc::fmt4(&segs, term);
            let ranges: Vec<(u32, u32)> = segs.iter().map(|s| (s.range().0 as u32, s.range().1 as u32)).collect();
            let probes = edges(&ranges);
            let altf = fmt4_alt_zero_entry(&segs);
            let alts = [Alt { key: "fmt4:glyphIdArray-zero-entry-gets-idDelta", f: &altf }];
            let desc = || json!({"segments": segs.iter().map(|s| s.describe()).collect::<Vec<_>>(), "terminator": format!("{:?}", term)});
            let t = Table { fmt: "fmt4", bytes: &bytes, model: &model, desc: &desc, valid: &|_| true, alts: &alts };
            check_subtable(ctx, &t, &probes, sweep);
            if font_seam {
                check_font_unicode(ctx, &t, 3, 1, &probes);
                check_font_unicode(ctx, &t, 0, 3, &probes);
            }
            let h = H::new().bytes(&bytes).get();
            if segs.iter().any(|s| matches!(s, Seg4::Array { .. })) || segs.len() > 1 {
                ctx.mark_nontrivial(h);
            }
            ctx.sample(h, || json!({"format": 4, "table": desc(), "model": model.iter().take(8).collect::<Vec<_>>(), "probes": probes.len()}));
        }
    };
    // (a) 1..=2 segments, rich menus, edge probes, all seams for 1 segment
    let s = explore_par(1, 3, body(1, true, true, false));
    ctx.add_explore(&s);
    let s = explore_par(1, 4, body(2, true, thorough, false));
    ctx.add_explore(&s);
    if thorough {
        // (b) 3 segments with reduced menus
        let s = explore_par(1, 4, body(3, false, false, false));
        ctx.add_explore(&s);
        // (c) full code-point sweep for every 1-segment table
        let s = explore_par(1, 3, body(1, true, false, true));
        ctx.add_explore(&s);
        ctx.bump("full_code_point_sweeps", s.executions);
    }
}

// ------------------------------------------------------------------------------------------ format 12
fn run_fmt12(ctx: &Ctx) {
    const STARTS: [u32; 7] = [0, 0x41, 0xFFFE, 0xFFFF, 0x10000, 0x1F600, 0x10FFFD];
    const GIDS: [u32; 5] = [0, 1, 7, 0xFFF0, 0xFFFD];
    let thorough = ctx.tier.thorough();
    let max_groups = if thorough { 3 } else { 2 };
    let s = explore_par(0, 3, |c: &mut Chooser<'_>| {
        let n = 1 + c.pick(max_groups);
        let mut groups: Vec<(u32, u32, u32)> = Vec::new();
        let mut min_start = 0u32;
        for _ in 0..n {
            let cands: Vec<u32> = STARTS.iter().copied().filter(|s| *s >= min_start).collect();
            if cands.is_empty() {
                break;
            }
            let st = *c.of(&cands);
            let len = 1 + c.pick(3) as u32;
            let end = (st + len - 1).min(0x10FFFF);
            let g = *c.of(&GIDS);
            groups.push((st, end, g));
            min_start = end + 1;
        }
        let (bytes, model) = cmapenc::fmt12(&groups);
        let ranges: Vec<(u32, u32)> = groups.iter().map(|g| (g.0, g.1)).collect();
        let probes = edges(&ranges);
        let desc = || json!({"groups": groups});
        let t = Table { fmt: "fmt12", bytes: &bytes, model: &model, desc: &desc, valid: &|_| true, alts: &[] };
        check_subtable(ctx, &t, &probes, thorough && groups.len() == 1);
        if groups.len() <= 2 || thorough {
            check_font_unicode(ctx, &t, 3, 10, &probes);
            check_font_unicode(ctx, &t, 0, 4, &probes);
        }
        let h = H::new().bytes(&bytes).get();
        ctx.mark_nontrivial(h);
        ctx.sample(h, || json!({"format": 12, "table": desc(), "probes": probes.len()}));
    });
    ctx.add_explore(&s);
}

// ------------------------------------------------------------------------------------------ formats 6, 10, 0
fn run_fmt6_10_0(ctx: &Ctx) {
    const G: [u16; 3] = [0, 7, 0xFFFF];
    let s = explore_par(0, 2, |c: &mut Chooser<'_>| {
        let first = *c.of(&[0u16, 0x41, 0xFF, 0xFFFC]);
        let n = c.pick(4);
        let glyphs: Vec<u16> = (0..n).map(|_| *c.of(&G)).collect();
        let (bytes, model) = cmapenc::fmt6(first, &glyphs);
        let probes = edges(&[(first as u32, first as u32 + n.max(1) as u32 - 1)]);
        let desc = || json!({"firstCode": first, "glyphIdArray": glyphs});
        let t = Table { fmt: "fmt6", bytes: &bytes, model: &model, desc: &desc, valid: &|_| true, alts: &[] };
        check_subtable(ctx, &t, &probes, false);
        check_font_unicode(ctx, &t, 3, 1, &probes);
        let h = H::new().bytes(&bytes).get();
        if n > 0 {
            ctx.mark_nontrivial(h);
        }
        ctx.sample(h, || json!({"format": 6, "table": desc()}));
    });
    ctx.add_explore(&s);
    let s = explore_par(0, 2, |c: &mut Chooser<'_>| {
        let start = *c.of(&[0u32, 0x41, 0xFFFE, 0x10000, 0x10FFFD]);
        let n = c.pick(4);
        let glyphs: Vec<u16> = (0..n).map(|_| *c.of(&G)).collect();
        let (bytes, model) = cmapenc::fmt10(start, &glyphs);
        let probes = edges(&[(start, start + n.max(1) as u32 - 1)]);
        let desc = || json!({"startCharCode": start, "glyphs": glyphs});
        let t = Table { fmt: "fmt10", bytes: &bytes, model: &model, desc: &desc, valid: &|_| true, alts: &[] };
        check_subtable(ctx, &t, &probes, false);
        check_font_unicode(ctx, &t, 3, 10, &probes);
        let h = H::new().bytes(&bytes).get();
        if n > 0 {
            ctx.mark_nontrivial(h);
        }
        ctx.sample(h, || json!({"format": 10, "table": desc()}));
    });
    ctx.add_explore(&s);
    // format 0: a few array shapes, all 256 + landmarks probed
    let shapes: Vec<(&str, [u8; 256])> = {
        let mut v = Vec::new();
        v.push(("all-zero", [0u8; 256]));
        let mut id = [0u8; 256];
        for i in 0..256 {
            id[i] = i as u8;
        }
        v.push(("identity", id));
        let mut rev = [0u8; 256];
        for i in 0..256 {
            rev[i] = 255 - i as u8;
        }
        v.push(("reversed", rev));
        for p in [0usize, 1, 0x41, 0x7F, 0x80, 0xFF] {
            let mut a = [0u8; 256];
            a[p] = 9;
            v.push(("single", a));
        }
        v
    };
    for (name, arr) in &shapes {
        let (bytes, model) = cmapenc::fmt0(arr);
        let mut probes: Vec<u32> = (0..300).collect();
        probes.extend_from_slice(&LANDMARKS);
        let desc = || json!({"shape": name});
        let t = Table { fmt: "fmt0", bytes: &bytes, model: &model, desc: &desc, valid: &|_| true, alts: &[] };
        check_subtable(ctx, &t, &probes, ctx.tier.thorough());
        ctx.evals(1);
        ctx.add_states(1);
        ctx.add_transitions(1);
        ctx.mark_nontrivial(H::new().bytes(&bytes).get());
    }
}

// ------------------------------------------------------------------------------------------ format 2
fn run_fmt2(ctx: &Ctx) {
    const E: [u16; 3] = [0, 4, 0xFFFF];
    let s = explore_par(0, 2, |c: &mut Chooser<'_>| {
        // (0xFE + 2 entries: the one-byte range ends at byte 0xFF, the last value the high-byte loop has to visit)
        let sfirst = *c.of(&[0u8, 0x20, 0x7E, 0xFE]);
        let sn = 1 + c.pick(2);
        let single = Sub2 { first: sfirst, delta: *c.of(&[0i16, 3, -1]), entries: (0..sn).map(|_| *c.of(&E)).collect() };
        let nlead = c.pick(3);
        let mut leads: Vec<(u8, Sub2)> = Vec::new();
        let lead_bytes = [0x81u8, 0xA1, 0xFF];
        for k in 0..nlead {
            // 0x40 / 0xA1 / 0xFE, or a range that starts at the lead byte itself (then the one-byte code equal to the
            // lead byte, which is not a valid code, has a non-zero entry under that lead's own sub-header)
            let first = *c.of(&[0x40u8, 0xA1, 0xFE, lead_bytes[k].min(0xFD)]);
            let n = 1 + c.pick(2);
            let n = n.min(256 - first as usize);
            leads.push((lead_bytes[k], Sub2 { first, delta: *c.of(&[0i16, 7]), entries: (0..n).map(|_| *c.of(&E)).collect() }));
        }
        let (bytes, model) = cmapenc::fmt2(&single, &leads);
        let mut ranges = vec![(sfirst as u32, sfirst as u32 + sn as u32 - 1)];
        for (l, s) in &leads {
            let b = (*l as u32) << 8;
            ranges.push((b | s.first as u32, b | (s.first as u32 + s.entries.len() as u32 - 1)));
            ranges.push((b, b | 0xFF));
            ranges.push((*l as u32, *l as u32)); // the lead byte as a one-byte code
        }
        let probes = edges(&ranges);
        let valid = |code: u32| cmapenc::fmt2_valid_code(&leads, code);
        let trunc = |code: u32| model.get(&(code & 0xFFFF)).copied().unwrap_or(0);
        let alts = [Alt { key: "fmt2:code-above-16-bits-is-truncated", f: &trunc }];
        let desc = || json!({"single": format!("{:?}", single), "leads": format!("{:?}", leads)});
        let t = Table { fmt: "fmt2", bytes: &bytes, model: &model, desc: &desc, valid: &valid, alts: &alts };
        check_subtable(ctx, &t, &probes, false);
        let h = H::new().bytes(&bytes).get();
        if !leads.is_empty() {
            ctx.mark_nontrivial(h);
        }
        ctx.sample(h, || json!({"format": 2, "table": desc()}));
    });
    ctx.add_explore(&s);
}

// ------------------------------------------------------------------------------------------ record preference
/// capability class of an encoding record: 3 = full Unicode, 2 = Unicode BMP, 1 = legacy (symbol / Mac Roman / Big5)
fn capability(pid: u16, eid: u16) -> Option<u8> {
    match (pid, eid) {
        (3, 10) | (0, 4) | (0, 6) => Some(3),
        (3, 1) | (0, 0) | (0, 1) | (0, 2) | (0, 3) => Some(2),
        (3, 0) | (1, 0) | (3, 4) => Some(1),
        _ => None,
    }
}

fn run_preference(ctx: &Ctx) {
    let recs: [(u16, u16); 10] = [(3, 10), (3, 1), (0, 4), (0, 3), (0, 0), (3, 0), (1, 0), (3, 4), (1, 1), (3, 2)];
    // every ordered selection of 1..=3 distinct records; record k maps 'A' (and 0xF041, Big5/MacRoman 'A' = 0x41) to glyph k+1
    let mut sels: Vec<Vec<usize>> = Vec::new();
    for a in 0..10 {
        sels.push(vec![a]);
        for b in 0..10 {
            if b != a {
                sels.push(vec![a, b]);
                for c in 0..10 {
                    if c != a && c != b {
                        sels.push(vec![a, b, c]);
                    }
                }
            }
        }
    }
    ctx.add_states(sels.len() as u64 + 1);
    ctx.add_transitions(sels.len() as u64);
    sels.par_iter().for_each(|sel| {
        let records: Vec<(u16, u16, Vec<u8>)> = sel
            .iter()
            .map(|&k| {
                let (p, e) = recs[k];
                let gid = k as u16 + 1;
                let sub = if capability(p, e) == Some(3) {
                    cmapenc::fmt12(&[(0x41, 0x41, gid as u32)]).0
                } else if (p, e) == (1, 0) {
                    let mut a = [0u8; 256];
                    a[0x41] = gid as u8;
                    cmapenc::fmt0(&a).0
                } else {
                    cmapenc::fmt4(&[Seg4::Delta { start: 0x41, end: 0x41, delta: gid as i16 - 0x41 }], Term4::Standard).0
                };
                (p, e, sub)
            })
            .collect();
        let cmap = tables::cmap_table(&records);
        let font = tables::minimal_font(12, &[], &[(tag(b"cmap"), cmap), (tag(b"OS/2"), tables::os2_v4(0x20, 0xFF))]);
        let got = guard(|| crate::util::with_font(&font, |f| f.lookup_glyph_index('A', MatchingPresentation::NotRequired, None).0));
        ctx.evals(1);
        let supported: Vec<(usize, u8)> = sel.iter().filter_map(|&k| capability(recs[k].0, recs[k].1).map(|c| (k, c))).collect();
        let desc = || json!({"records_in_order": sel.iter().map(|&k| recs[k]).collect::<Vec<_>>()});
        match got {
            Err(p) => ctx.violation(&format!("C06:preference:panic:{}", p.site_key("/repo")), || json!({"case": desc(), "panic": p.msg})),
            Ok(Err(e)) => {
                if !supported.is_empty() {
                    ctx.violation("C06:preference:font-with-supported-record-rejected", || json!({"case": desc(), "error": e}));
                }
            }
            Ok(Ok(g)) => {
                ctx.mark_outcome(H::new().u64(g as u64).get());
                if supported.is_empty() {
                    ctx.violation("C06:preference:font-without-supported-record-accepted", || json!({"case": desc(), "glyph": g}));
                    return;
                }
                let best = supported.iter().map(|x| x.1).max().unwrap();
                let chosen = sel.iter().find(|&&k| k as u16 + 1 == g);
                match chosen {
                    None => ctx.violation("C06:preference:glyph-from-no-record", || json!({"case": desc(), "glyph": g})),
                    Some(&k) => {
                        let cap = capability(recs[k].0, recs[k].1);
                        if cap != Some(best) {
                            let key = if cap == Some(2) && best == 3 {
                                "C06:preference:bmp-subtable-preferred-over-full-unicode".to_string()
                            } else {
                                "C06:preference:less-capable-subtable-selected".to_string()
                            };
                            ctx.violation(&key, || json!({"case": desc(), "selected": recs[k], "most_capable_class": best}));
                        }
                        if sel.len() > 1 {
                            ctx.mark_nontrivial(H::new().bytes(&sel.iter().map(|x| *x as u8).collect::<Vec<_>>()).get());
                        }
                    }
                }
            }
        }
        ctx.sample(H::new().bytes(&sel.iter().map(|x| *x as u8).collect::<Vec<_>>()).get(), || json!({"preference_case": desc()}));
    });
}

// ------------------------------------------------------------------------------------------ legacy encodings through Font
fn run_legacy(ctx: &Ctx) {
    // Symbol: format 4 at 0xF020.. with usFirstCharIndex = 0xF020, and at 0x20.. with usFirstCharIndex 0x20
    for &(first, base) in &[(0xF020u16, 0xF000u32), (0x20u16, 0u32)] {
        let segs = [Seg4::Delta { start: first, end: first + 0xDF, delta: (1i32 - first as i32) as i16 }];
        let (sub, model) = cmapenc::fmt4(&segs, Term4::Standard);
        let cmap = tables::cmap_table(&[(3, 0, sub)]);
        let font = tables::minimal_font(100, &[], &[(tag(b"cmap"), cmap), (tag(b"OS/2"), tables::os2_v4(first, first + 0xDF))]);
        let r = guard(|| {
            crate::util::with_font(&font, |f| {
                let mut v = Vec::new();
                for c in (0x20u32..0x100).chain(0xF000..0xF100) {
                    let ch = char::from_u32(c).unwrap();
                    v.push((c, f.lookup_glyph_index(ch, MatchingPresentation::NotRequired, None).0));
                }
                v
            })
        });
        ctx.evals(1);
        ctx.add_states(1);
        ctx.add_transitions(1);
        match r {
            Ok(Ok(v)) => {
                for (c, g) in v {
                    // legacy rule: byte b (0x20..0xFF), also written U+F0bb, maps to code usFirstCharIndex + (b - 0x20)
                    let b = if c >= 0xF000 { c - 0xF000 } else { c };
                    let want = if b >= 0x20 { model.get(&(first as u32 + b - 0x20)).copied().unwrap_or(0) } else { 0 };
                    let _ = base;
                    if b >= 0x20 && g != want {
                        ctx.violation("C06:symbol:legacy-code-mapping", || json!({"usFirstCharIndex": first, "char": c, "expected": want, "got": g}));
                    }
                }
                ctx.mark_nontrivial(H::new().u64(first as u64).str("symbol").get());
            }
            o => ctx.violation("C06:symbol:font-failed", || json!({"result": format!("{:?}", o.map(|x| x.map(|_| ())))})),
        }
    }
    // Mac Roman record (1,0) with a format 0 subtable mapping byte b -> glyph (b % 250) + 1
    // (complete table), and a sparse one in which every third byte is unmapped: a Mac Roman character whose byte has no
    // glyph maps to glyph 0 - it must not be retried under another code
    for sparse in [false, true] {
    let mut arr = [0u8; 256];
    for b in 0..256usize {
        arr[b] = if sparse && b % 3 == 2 { 0 } else { (b % 250) as u8 + 1 };
    }
    let (sub, _) = cmapenc::fmt0(&arr);
    let cmap = tables::cmap_table(&[(1, 0, sub)]);
    let font = tables::minimal_font(256, &[], &[(tag(b"cmap"), cmap)]);
    // independent Mac Roman table: char -> byte
    let mut mac: BTreeMap<u32, u8> = BTreeMap::new();
    for b in 0..128u32 {
        mac.insert(b, b as u8);
    }
    for (i, u) in cmapenc::MAC_ROMAN_HIGH.iter().enumerate() {
        mac.insert(*u, 128 + i as u8);
    }
    let r = guard(|| {
        crate::util::with_font(&font, |f| {
            (0u32..0x110000)
                .filter_map(char::from_u32)
                .map(|ch| (ch as u32, f.lookup_glyph_index(ch, MatchingPresentation::NotRequired, None).0))
                .collect::<Vec<_>>()
        })
    });
    ctx.evals(1);
    ctx.add_states(1);
    ctx.add_transitions(1);
    match r {
        Ok(Ok(v)) => {
            for (c, g) in v {
                // authoritative only where the Apple table and allsorts' decoder agree that byte b is char c
                let b = mac.get(&c).copied();
                let in_allsorts = b.map_or(false, |b| allsorts::macroman::macroman_to_char(b).map(|x| x as u32) == Some(c));
                if b.is_some() && !in_allsorts {
                    continue; // allsorts implements the PDF MacRomanEncoding subset (15 maths symbols absent, 0xDB = currency): not demanded
                }
                if (0xF000..=0xF0FF).contains(&c) {
                    continue; // symbol-font convention U+F0xx -> byte xx is accepted for Mac-only fonts
                }
                let want = b.map(|b| arr[b as usize] as u16).unwrap_or(0);
                if g != want {
                    let key = if b.is_none() && c < 0x100 {
                        "C06:macroman:non-macroman-char-below-0x100-looked-up-as-raw-byte"
                    } else if b.is_none() {
                        "C06:macroman:non-macroman-char-mapped"
                    } else {
                        "C06:macroman:mismatch"
                    };
                    ctx.violation(key, || json!({"char": c, "expected": want, "got": g}));
                }
            }
            ctx.mark_nontrivial(H::new().str("macroman-font").u64(sparse as u64).get());
        }
        o => ctx.violation("C06:macroman:font-failed", || json!({"result": format!("{:?}", o.map(|x| x.map(|_| ())))})),
    }
    }
    // Big5 record (3,4): format 4 over 16-bit Big5 codes mapping code c -> (c % 60000) + 1
    // (the two-byte segment spans every lead byte 0x81..=0xFE: original Big5 0xA1..0xF9, the HKSCS / extension rows below
    // and above it - which is where the codes of supplementary-plane ideographs live)
    let segs = [Seg4::Delta { start: 0x20, end: 0x7E, delta: 1 }, Seg4::Delta { start: 0x8140, end: 0xFEFE, delta: 0x100 }];
    let (sub, model) = cmapenc::fmt4(&segs, Term4::Standard);
    let cmap = tables::cmap_table(&[(3, 4, sub)]);
    let font = tables::minimal_font(300, &[], &[(tag(b"cmap"), cmap)]);
    let r = guard(|| {
        crate::util::with_font(&font, |f| {
            (0u32..0x110000)
                .filter_map(char::from_u32)
                .map(|ch| (ch, f.lookup_glyph_index(ch, MatchingPresentation::NotRequired, None).0))
                .collect::<Vec<_>>()
        })
    });
    ctx.evals(1);
    ctx.add_states(1);
    ctx.add_transitions(1);
    match r {
        Ok(Ok(v)) => {
            let mut mapped = 0u64;
            for (ch, g) in v {
                // the code of a char comes from the independent reference (util::big5ref), not from allsorts::big5
                let code = crate::util::big5ref::encode(ch);
                let want = code.map(|c| model.get(&(c as u32)).copied().unwrap_or(0)).unwrap_or(0);
                if g != want {
                    ctx.violation("C06:big5:font-lookup", || json!({"char": ch as u32, "big5": code, "expected": want, "got": g}));
                }
                if g != 0 {
                    mapped += 1;
                }
            }
            ctx.set("big5_chars_mapped", json!(mapped));
            ctx.mark_nontrivial(H::new().str("big5-font").get());
        }
        o => ctx.violation("C06:big5:font-failed", || json!({"result": format!("{:?}", o.map(|x| x.map(|_| ())))})),
    }
}

// ------------------------------------------------------------------------------------------ inverse laws
fn run_inverse_laws(ctx: &Ctx) {
    use allsorts::big5::{big5_to_unicode, unicode_to_big5};
    use allsorts::macroman::{char_to_macroman, macroman_to_char};
    // Mac Roman: byte -> char -> byte on all 256 bytes; char -> byte -> char on all chars; plus the Apple table
    for b in 0u32..256 {
        let b = b as u8;
        let ch = macroman_to_char(b);
        let want = if b < 128 { b as u32 } else { cmapenc::MAC_ROMAN_HIGH[b as usize - 128] };
        // the decoder may be partial (PDF MacRomanEncoding omits 15 maths symbols); where it is defined it must
        // agree with Apple's table (0xDB: CURRENCY SIGN before Mac OS 8.5, EURO SIGN after) and be invertible
        // the only bytes the decoder may leave undefined are the 15 characters PDF MacRomanEncoding lacks (maths symbols, the
        // Apple logo); every other byte must decode (a decoder that loses, say, 0x8A would otherwise excuse itself below)
        const MAC_OPTIONAL_BYTES: [u8; 15] = [0xAD, 0xB0, 0xB2, 0xB3, 0xB6, 0xB7, 0xB8, 0xB9, 0xBA, 0xBD, 0xC3, 0xC5, 0xC6, 0xD7, 0xF0];
        if ch.is_none() && !MAC_OPTIONAL_BYTES.contains(&b) {
            ctx.violation("C06:macroman:byte-not-decoded", || json!({"byte": b, "expected": want}));
        }
        if ch.is_none() {
            // ... and then the character must not be encodable either (the two directions describe the same set)
            if let Some(back) = char::from_u32(want).and_then(char_to_macroman) {
                ctx.violation("C06:macroman:inverse-law", || json!({"char": want, "byte": back, "back": Value::Null}));
            }
        }
        if let Some(c) = ch {
            if c as u32 != want && !(b == 0xDB && c as u32 == 0xA4) {
                ctx.violation("C06:macroman:table-differs-from-apple-roman", || json!({"byte": b, "expected": want, "got": c as u32}));
            }
            if char_to_macroman(c) != Some(b) {
                ctx.violation("C06:macroman:inverse-law", || json!({"byte": b, "char": c as u32, "back": char_to_macroman(c)}));
            }
        }
    }
    let bad: Vec<(u32, u8, Option<char>)> = (0u32..0x110000)
        .into_par_iter()
        .filter_map(char::from_u32)
        .filter_map(|c| match char_to_macroman(c) {
            Some(b) if macroman_to_char(b) != Some(c) => Some((c as u32, b, macroman_to_char(b))),
            _ => None,
        })
        .collect();
    for (c, b, back) in bad {
        ctx.violation("C06:macroman:inverse-law", || json!({"char": c, "byte": b, "back": back.map(|x| x as u32)}));
    }
    // Big5: char -> code -> char on all chars
    let bad: Vec<(u32, u16, Option<char>)> = (0u32..0x110000)
        .into_par_iter()
        .filter_map(char::from_u32)
        .filter_map(|c| match unicode_to_big5(c) {
            Some(b) if big5_to_unicode(b) != Some(c) => Some((c as u32, b, big5_to_unicode(b))),
            _ => None,
        })
        .collect();
    for (c, b, back) in bad {
        ctx.violation("C06:big5:encode-then-decode-is-not-identity", || json!({"char": c, "code": b, "back": back.map(|x| x as u32)}));
    }
    // both conversions against the independent reference (util::big5ref: the WHATWG index through encoding_rs' whole-string
    // API): every character has exactly the reference code or none, every 16 bit code decodes to the reference character
    // (for the four codes that stand for two characters the first one or nothing is accepted)
    let bad: Vec<(u32, Option<u16>, Option<u16>)> = (0u32..0x110000)
        .into_par_iter()
        .filter_map(char::from_u32)
        .filter_map(|c| {
            let (want, got) = (crate::util::big5ref::encode(c), unicode_to_big5(c));
            (want != got).then(|| (c as u32, want, got))
        })
        .collect();
    for (c, want, got) in bad.into_iter().take(8) {
        ctx.violation("C06:big5:unicode_to_big5-differs-from-the-big5-index", || json!({"char": c, "expected": want, "got": got}));
    }
    let bad: Vec<(u16, Option<Vec<char>>, Option<char>)> = (0u32..0x10000)
        .into_par_iter()
        .filter_map(|b| {
            let b = b as u16;
            let (want, got) = (crate::util::big5ref::decode(b), big5_to_unicode(b));
            let ok = match (&want, got) {
                (None, None) => true,
                (Some(w), Some(g)) => w.first() == Some(&g),
                (Some(w), None) => w.len() > 1,
                (None, Some(_)) => false,
            };
            (!ok).then(|| (b, want, got))
        })
        .collect();
    for (b, want, got) in bad.into_iter().take(8) {
        ctx.violation("C06:big5:big5_to_unicode-differs-from-the-big5-index", || json!({"code": b, "expected": want.map(|w| w.iter().map(|c| *c as u32).collect::<Vec<_>>()), "got": got.map(|c| c as u32)}));
    }
    // (code -> char -> code is NOT demanded: the WHATWG Big5 index decodes HKSCS extension codes that its encoder never emits)
    let n_dec = (0u32..0x10000).filter(|b| big5_to_unicode(*b as u16).is_some()).count();
    ctx.set("big5_codes_that_decode", json!(n_dec));
    ctx.evals(256 + 3 * 0x110000 + 2 * 0x10000);
    ctx.add_states(256 + 3 * 0x110000 + 2 * 0x10000);
    ctx.add_transitions(256 + 3 * 0x110000 + 2 * 0x10000);
    ctx.mark_nontrivial(H::new().str("inverse-laws").get());
}

pub fn run(ctx: &Ctx) {
    ctx.set_rule(
        "case = one cmap subtable from the structural menus (segments/groups/sub-headers, delta vs glyphIdArray, boundary \
         codes and deltas) x the codes at every structural edge +-2 and fixed landmarks (thorough: all 0x110000 code points for \
         one-segment tables); non-trivial = table with >1 segment/group, a glyphIdArray or sub-header, or >1 encoding record; \
         distinct by subtable bytes",
    );
    ctx.assume("format 4 tables are well formed (sorted, disjoint segments, mandatory 0xFFFF terminator); the Fontographer idRangeOffset=0xFFFF terminator is accepted as glyph 0");
    ctx.assume("format 2: only valid code forms are compared (one-byte codes that are not lead bytes; two-byte codes whose first byte is a lead byte; codes above 16 bits must be unmapped)");
    ctx.assume("an Err from CmapSubtable::map_glyph is accepted as 'unmapped' (Font maps it to glyph 0)");
    ctx.assume("capability classes for record preference: full Unicode {(3,10),(0,4),(0,6)} > Unicode BMP {(3,1),(0,0..3)} > legacy {(3,0),(1,0),(3,4)}; any record of the best class present is accepted");
    ctx.assume("Mac Roman reference: Apple ROMAN.TXT where allsorts' (partial, PDF MacRomanEncoding style) decoder is defined; 0xDB may be CURRENCY SIGN or EURO SIGN; U+F0xx -> byte xx accepted for Mac-only fonts");
    ctx.assume("Big5 reference: the WHATWG Big5 index as shipped by the encoding_rs crate, reached through its whole-string API independently of allsorts::big5 (trusted data); char -> code -> char is demanded, code -> char -> code is not (the decoder is a superset of the encoder by design of that index)");
    run_fmt4(ctx);
    run_fmt12(ctx);
    run_fmt6_10_0(ctx);
    run_fmt2(ctx);
    run_preference(ctx);
    run_legacy(ctx);
    run_inverse_laws(ctx);
    ctx.set("bounds", json!({"fmt4_segments": if ctx.tier.thorough() {3} else {2}, "fmt12_groups": if ctx.tier.thorough() {3} else {2}, "encoding_records": 3, "deviations": 1}));
}

pub fn replay(w: &Value) -> Result<(), String> {
    // witnesses of the subtable seams carry the subtable bytes, the code and the expected glyph
    let hex = w["subtable_hex"].as_str().ok_or("witness has no subtable_hex (font-level witness: re-run ./run C06 quick)")?;
    let code = w["code"].as_u64().ok_or("witness has no code")? as u32;
    let want = w["expected_glyph"].as_u64().or_else(|| w["expected"].as_u64()).ok_or("witness has no expected glyph")? as u16;
    let bytes = mcx::unhex(hex);
    let sub = ReadScope::new(&bytes).read::<CmapSubtable<'_>>().map_err(|e| format!("subtable does not parse: {:?}", e))?;
    let a = observe(sub.map_glyph(code));
    let b = observe(sub.map_glyph(code));
    if a != b {
        return Err("machinery: replay not deterministic".into());
    }
    match a {
        Ok(g) if g == want => Ok(()),
        Err(_) if want == 0 => Ok(()),
        o => Err(format!("code {:#x}: expected glyph {}, observed {:?}", code, want, o)),
    }
}
