//! Process-level isolation for crash-prone sweeps: a counting global allocator with an optional cap,
//! fatal-signal handlers that report which case was running, and a watchdog thread for time budgets.
//! A dying worker writes one line `DIED case=<n> reason=<r> sig=<s>` to fd 2 and exits.

use std::alloc::{GlobalAlloc, Layout, System};
use std::sync::atomic::{AtomicBool, AtomicI64, AtomicU64, Ordering};

pub static LIVE: AtomicI64 = AtomicI64::new(0);
pub static CAP: AtomicI64 = AtomicI64::new(i64::MAX);
pub static PEAK: AtomicI64 = AtomicI64::new(0);
/// index of the case currently running in this worker (u64::MAX = none)
pub static CUR: AtomicU64 = AtomicU64::new(u64::MAX);
/// monotonically increasing stamp bumped at every case start (for the watchdog)
pub static STAMP: AtomicU64 = AtomicU64::new(0);
static DYING: AtomicBool = AtomicBool::new(false);
/// name of the entry point currently running (a &'static str stored as pointer + length)
pub static ENTRY_PTR: AtomicU64 = AtomicU64::new(0);
pub static ENTRY_LEN: AtomicU64 = AtomicU64::new(0);

pub fn set_entry(name: &'static str) {
    ENTRY_LEN.store(0, Ordering::SeqCst);
    ENTRY_PTR.store(name.as_ptr() as u64, Ordering::SeqCst);
    ENTRY_LEN.store(name.len() as u64, Ordering::SeqCst);
}

/// Counting is switched on only in worker processes (by `install`): the shared counters are a contention point
/// for the multi-threaded in-process checks, which do not need an allocation cap.
pub static COUNTING: AtomicBool = AtomicBool::new(false);

pub struct Counting;

unsafe impl GlobalAlloc for Counting {
    unsafe fn alloc(&self, l: Layout) -> *mut u8 {
        if !COUNTING.load(Ordering::Relaxed) {
            return System.alloc(l);
        }
        let live = LIVE.fetch_add(l.size() as i64, Ordering::Relaxed) + l.size() as i64;
        if live > CAP.load(Ordering::Relaxed) {
            die("alloc-cap", 0);
        }
        if live > PEAK.load(Ordering::Relaxed) {
            PEAK.store(live, Ordering::Relaxed);
        }
        System.alloc(l)
    }
    unsafe fn dealloc(&self, p: *mut u8, l: Layout) {
        if !COUNTING.load(Ordering::Relaxed) {
            return System.dealloc(p, l);
        }
        LIVE.fetch_sub(l.size() as i64, Ordering::Relaxed);
        System.dealloc(p, l)
    }
    unsafe fn alloc_zeroed(&self, l: Layout) -> *mut u8 {
        if !COUNTING.load(Ordering::Relaxed) {
            return System.alloc_zeroed(l);
        }
        let live = LIVE.fetch_add(l.size() as i64, Ordering::Relaxed) + l.size() as i64;
        if live > CAP.load(Ordering::Relaxed) {
            die("alloc-cap", 0);
        }
        if live > PEAK.load(Ordering::Relaxed) {
            PEAK.store(live, Ordering::Relaxed);
        }
        System.alloc_zeroed(l)
    }
    unsafe fn realloc(&self, p: *mut u8, l: Layout, new: usize) -> *mut u8 {
        if !COUNTING.load(Ordering::Relaxed) {
            return System.realloc(p, l, new);
        }
        let d = new as i64 - l.size() as i64;
        let live = LIVE.fetch_add(d, Ordering::Relaxed) + d;
        if d > 0 && live > CAP.load(Ordering::Relaxed) {
            die("alloc-cap", 0);
        }
        if live > PEAK.load(Ordering::Relaxed) {
            PEAK.store(live, Ordering::Relaxed);
        }
        System.realloc(p, l, new)
    }
}

fn put_num(buf: &mut [u8], pos: &mut usize, mut v: u64) {
    let mut tmp = [0u8; 20];
    let mut n = 0;
    if v == 0 {
        tmp[0] = b'0';
        n = 1;
    }
    while v > 0 {
        tmp[n] = b'0' + (v % 10) as u8;
        v /= 10;
        n += 1;
    }
    for i in (0..n).rev() {
        buf[*pos] = tmp[i];
        *pos += 1;
    }
}

/// async-signal-safe: format without allocating, write(2), _exit.
pub fn die(reason: &str, sig: i32) -> ! {
    if DYING.swap(true, Ordering::SeqCst) {
        unsafe { libc::_exit(71) }
    }
    let mut buf = [0u8; 240];
    let mut pos = 0;
    for b in b"\nDIED case=" {
        buf[pos] = *b;
        pos += 1;
    }
    put_num(&mut buf, &mut pos, CUR.load(Ordering::SeqCst));
    for b in b" reason=" {
        buf[pos] = *b;
        pos += 1;
    }
    for b in reason.bytes().take(40) {
        buf[pos] = b;
        pos += 1;
    }
    for b in b" entry=" {
        buf[pos] = *b;
        pos += 1;
    }
    let (ep, el) = (ENTRY_PTR.load(Ordering::SeqCst), ENTRY_LEN.load(Ordering::SeqCst) as usize);
    if ep != 0 && el > 0 {
        let name = unsafe { std::slice::from_raw_parts(ep as *const u8, el.min(60)) };
        for b in name {
            buf[pos] = if *b == b' ' { b'_' } else { *b };
            pos += 1;
        }
    } else {
        buf[pos] = b'?';
        pos += 1;
    }
    for b in b" sig=" {
        buf[pos] = *b;
        pos += 1;
    }
    put_num(&mut buf, &mut pos, sig as u64);
    buf[pos] = b'\n';
    pos += 1;
    unsafe {
        libc::write(2, buf.as_ptr() as *const libc::c_void, pos);
        libc::_exit(70);
    }
}

extern "C" fn on_signal(sig: libc::c_int) {
    let reason = match sig {
        libc::SIGSEGV | libc::SIGBUS => "segv-or-stack-overflow",
        libc::SIGABRT => "abort",
        libc::SIGILL => "illegal-instruction",
        libc::SIGFPE => "fpe",
        _ => "signal",
    };
    die(reason, sig);
}

/// Install handlers on an alternate stack (so that a stack overflow can still report).
pub fn install_worker_handlers(alloc_cap_bytes: i64) {
    unsafe {
        let size = 1 << 16;
        let stack = libc::mmap(std::ptr::null_mut(), size, libc::PROT_READ | libc::PROT_WRITE, libc::MAP_PRIVATE | libc::MAP_ANONYMOUS, -1, 0);
        let ss = libc::stack_t { ss_sp: stack, ss_flags: 0, ss_size: size };
        libc::sigaltstack(&ss, std::ptr::null_mut());
        for sig in [libc::SIGSEGV, libc::SIGBUS, libc::SIGABRT, libc::SIGILL, libc::SIGFPE] {
            let mut sa: libc::sigaction = std::mem::zeroed();
            sa.sa_sigaction = on_signal as usize;
            sa.sa_flags = libc::SA_ONSTACK;
            libc::sigemptyset(&mut sa.sa_mask);
            libc::sigaction(sig, &sa, std::ptr::null_mut());
        }
    }
    LIVE.store(0, Ordering::Relaxed);
    CAP.store(alloc_cap_bytes, Ordering::Relaxed);
    COUNTING.store(true, Ordering::SeqCst);
}

fn process_cpu_ms() -> u64 {
    let mut ts = libc::timespec { tv_sec: 0, tv_nsec: 0 };
    // SAFETY: plain syscall wrapper writing into a local
    unsafe {
        libc::clock_gettime(libc::CLOCK_PROCESS_CPUTIME_ID, &mut ts);
    }
    (ts.tv_sec as u64) * 1000 + (ts.tv_nsec as u64) / 1_000_000
}

/// Watchdog: if one case consumes more than `budget_ms` of *CPU time* (the property speaks of time out of
/// proportion to the input, and CPU time does not depend on how loaded the machine is), report a timeout
/// for it and exit. A wall-clock fallback of 30 x the budget catches a case that blocks without computing.
pub fn start_watchdog(budget_ms: u64) {
    std::thread::spawn(move || {
        let mut last = STAMP.load(Ordering::SeqCst);
        let mut since_cpu = process_cpu_ms();
        let mut since = std::time::Instant::now();
        loop {
            std::thread::sleep(std::time::Duration::from_millis(50));
            let now = STAMP.load(Ordering::SeqCst);
            if now != last {
                last = now;
                since_cpu = process_cpu_ms();
                since = std::time::Instant::now();
            } else if CUR.load(Ordering::SeqCst) != u64::MAX
                && (process_cpu_ms().saturating_sub(since_cpu) > budget_ms || since.elapsed().as_millis() as u64 > budget_ms * 30)
            {
                die("timeout", 0);
            }
        }
    });
}

pub fn begin_case(idx: u64) {
    CUR.store(idx, Ordering::SeqCst);
    STAMP.fetch_add(1, Ordering::SeqCst);
}

pub fn end_cases() {
    CUR.store(u64::MAX, Ordering::SeqCst);
    STAMP.fetch_add(1, Ordering::SeqCst);
}
