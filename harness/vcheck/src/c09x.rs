//! C09, other writers: whole_font over all subsets of the tag list of small fonts, instances of the variable
//! fixtures at default / minimum / maximum, and fonts rebuilt from WOFF2-reconstructed tables.

use allsorts::binary::read::ReadScope;
use allsorts::font_data::FontData;
use allsorts::tables::variable_fonts::fvar::FvarTable;
use allsorts::tables::{Fixed, FontTableProvider};
use allsorts::{tag, Font};
use mcx::{guard, Ctx, H};
use otmodel::read;
use rayon::prelude::*;
use serde_json::json;

fn class_of(pr: &str) -> String {
    pr.split(|c: char| c.is_ascii_digit()).next().unwrap_or("").trim().chars().take(60).collect::<String>().replace(' ', "-")
}

fn validate_and_load(ctx: &Ctx, kind: &str, what: &dyn Fn() -> serde_json::Value, out: &[u8], need_cmap: bool) {
    let mut problems = read::validate_font(out);
    if kind == "woff2-reconstruction" {
        // loca of a null-transformed glyf/loca pair is the source font's table verbatim; a padded loca is the
        // source's doing, not the decoder's
        problems.retain(|p| !p.starts_with("loca is "));
    }
    for pr in problems.iter().take(3) {
        // Known deviation of the WOFF2 hmtx reconstruction (see KNOWN_FINDINGS.txt): the trailing leftSideBearing[] array
        // is rebuilt for *every* glyph instead of the glyphs after numberOfHMetrics, i.e. the table is exactly
        // 2 * numberOfHMetrics bytes too long. Any other length problem keeps the generic key.
        if kind == "woff2-reconstruction" && pr.starts_with("hmtx is ") {
            let n: Vec<u64> = pr.split(|c: char| !c.is_ascii_digit()).filter(|t| !t.is_empty()).filter_map(|t| t.parse().ok()).collect();
            if n.len() == 4 && n[0] == n[3] + 2 * n[2] && n[2] > 0 {
                ctx.violation("C09:woff2-reconstruction:hmtx-has-a-left-side-bearing-for-every-glyph", || json!({"case": what(), "problem": pr}));
                continue;
            }
        }
        ctx.violation(&format!("C09:{}:{}", kind, class_of(pr)), || json!({"case": what(), "problem": pr, "all_problems": problems.iter().take(10).collect::<Vec<_>>()}));
    }
    if need_cmap {
        let r = guard(|| {
            let fd = ReadScope::new(out).read::<FontData<'_>>().map_err(|e| format!("{:?}", e))?;
            let p = fd.table_provider(0).map_err(|e| format!("{:?}", e))?;
            let mut font = Font::new(p).map_err(|e| format!("Font::new {:?}", e))?;
            let n = font.num_glyphs();
            for g in 0..n.min(300) {
                font.horizontal_advance(g).ok_or(format!("no advance for glyph {}", g))?;
            }
            let p2 = fd.table_provider(0).map_err(|e| format!("{:?}", e))?;
            if p2.has_table(tag::GLYF) || p2.has_table(tag::CFF) || p2.has_table(tag::CFF2) {
                for g in 0..n.min(300) {
                    crate::c07::outline_of(&p2, g).map_err(|e| format!("glyph {}: {}", g, e))?;
                }
            }
            Ok::<bool, String>(font.is_variable())
        });
        match r {
            Err(p) => ctx.violation(&format!("C09:panic:{}", p.site_key("/repo")), || json!({"case": what(), "panic": p.msg})),
            Ok(Err(e)) => ctx.violation(&format!("C09:{}:library-cannot-use-its-own-output:{}", kind, class_of(&e)), || json!({"case": what(), "error": e})),
            Ok(Ok(var)) => {
                if kind == "instance" && var {
                    ctx.violation("C09:instance:output-is-still-variable", || json!({"case": what()}));
                }
            }
        }
    }
}

pub fn extra(ctx: &Ctx) {
    // whole_font over every subset of the tag list
    for f in ["fonts/opentype/test-font.ttf", "fonts/sbix/sbix-dupe.ttf", "fonts/opentype/cff2/SourceSans3.abc.otf"] {
        let data = crate::util::fixture(f);
        let fd = ReadScope::new(&data).read::<FontData<'_>>().expect("fixture");
        let p = fd.table_provider(0).expect("provider");
        let mut tags = p.table_tags().unwrap_or_default();
        tags.sort();
        let n = tags.len().min(13);
        for mask in 0u32..(1 << n) {
            let sel: Vec<u32> = (0..n).filter(|i| mask & (1 << i) != 0).map(|i| tags[i]).collect();
            let what = || json!({"font": f, "operation": "whole_font", "tags": sel.iter().map(|t| otmodel::tag_str(*t)).collect::<Vec<_>>()});
            ctx.evals(1);
            match guard(|| allsorts::subset::whole_font(&p, &sel)) {
                Err(pn) => ctx.violation(&format!("C09:panic:{}", pn.site_key("/repo")), || json!({"case": what(), "panic": pn.msg})),
                Ok(Err(_)) => {}
                Ok(Ok(out)) => {
                    // a partial table set is structurally checkable only; full consistency needs the core tables
                    let core = [tag::CMAP, tag::HHEA, tag::HMTX, tag::MAXP, tag::HEAD];
                    let complete = core.iter().all(|t| sel.contains(t)) && (sel.contains(&tag::GLYF) == sel.contains(&tag::LOCA));
                    if complete {
                        validate_and_load(ctx, "whole_font", &what, &out, true);
                    } else {
                        for pr in otmodel::sfnt::validate(&out).iter().take(2) {
                            ctx.violation(&format!("C09:whole_font:{}", class_of(pr)), || json!({"case": what(), "problem": pr}));
                        }
                    }
                    ctx.mark_nontrivial(H::new().str(f).u64(mask as u64).get());
                }
            }
        }
        ctx.add_states(1 << n);
        ctx.add_transitions(1 << n);
    }
    // instances of the variable fixtures
    for f in ["fonts/variable/UnderlineTest-VF.ttf", "fonts/variable/Inter[slnt,wght].abc.ttf", "fonts/opentype/NotoSans-VF.abc.ttf", "fonts/variable/Zycon.ttf", "fonts/opentype/cff2/SourceSansVariable-Roman.abc.otf"] {
        let data = crate::util::fixture(f);
        let fd = ReadScope::new(&data).read::<FontData<'_>>().expect("fixture");
        let p = fd.table_provider(0).expect("provider");
        let fv = match p.table_data(tag::FVAR) {
            Ok(Some(d)) => d.into_owned(),
            _ => continue,
        };
        let fvar = match ReadScope::new(&fv).read::<FvarTable<'_>>() {
            Ok(f) => f,
            Err(_) => continue,
        };
        let axes: Vec<(Fixed, Fixed, Fixed)> = fvar.axes().map(|a| (a.min_value, a.default_value, a.max_value)).collect();
        // every combination of {min, default, max, midpoints} per axis
        let choices = 5usize;
        let total = choices.pow(axes.len() as u32);
        for k in 0..total {
            let mut kk = k;
            let user: Vec<Fixed> = axes
                .iter()
                .map(|a| {
                    let c = kk % choices;
                    kk /= choices;
                    match c {
                        0 => a.1,
                        1 => a.0,
                        2 => a.2,
                        3 => Fixed::from_raw(((a.0.raw_value() as i64 + a.1.raw_value() as i64) / 2) as i32),
                        _ => Fixed::from_raw(((a.1.raw_value() as i64 + a.2.raw_value() as i64) / 2) as i32),
                    }
                })
                .collect();
            let what = || json!({"font": f, "operation": "instance", "user_tuple_16.16": user.iter().map(|u| u.raw_value()).collect::<Vec<_>>()});
            ctx.evals(1);
            match guard(|| allsorts::variations::instance(&p, &user)) {
                Err(pn) => ctx.violation(&format!("C09:panic:{}", pn.site_key("/repo")), || json!({"case": what(), "panic": pn.msg})),
                Ok(Err(_)) => {}
                Ok(Ok((out, _))) => {
                    validate_and_load(ctx, "instance", &what, &out, true);
                    if let Some(sf) = otmodel::sfnt::parse(&out) {
                        for t in [b"fvar", b"gvar", b"avar", b"HVAR", b"MVAR", b"cvar", b"STAT"] {
                            if sf.table(otmodel::tag(t)).is_some() && t != b"STAT" {
                                ctx.violation("C09:instance:variation-table-left-in-output", || json!({"case": what(), "table": String::from_utf8_lossy(t)}));
                            }
                        }
                    }
                    ctx.mark_nontrivial(H::new().str(f).u64(k as u64).get());
                }
            }
        }
        ctx.add_states(total as u64);
        ctx.add_transitions(total as u64);
    }
    // instances of synthetic variable fonts (the model fonts of C12: composites whose offsets vary, several contours,
    // 300-point glyphs, HVAR/MVAR): the instancer rewrites glyf/loca/hmtx/head/maxp and every output must be a valid font
    {
        let corpus = crate::c12::corpus_for_c09(ctx.tier.thorough());
        let n: u64 = corpus
            .par_iter()
            .map(|(desc, bytes, users)| {
                let mut n = 0u64;
                let Ok(fd) = ReadScope::new(bytes).read::<FontData<'_>>() else { return 0 };
                let Ok(p) = fd.table_provider(0) else { return 0 };
                for (k, user) in users.iter().enumerate() {
                    let fixed: Vec<Fixed> = user.iter().map(|u| Fixed::from_raw(*u)).collect();
                    let what = || json!({"font": desc, "operation": "instance", "user_tuple_16.16": user, "replay": "re-run ./run C09 (the font is regenerated from the index vector)"});
                    n += 1;
                    match guard(|| allsorts::variations::instance(&p, &fixed)) {
                        Err(pn) => ctx.violation(&format!("C09:panic:{}", pn.site_key("/repo")), || json!({"case": what(), "panic": pn.msg})),
                        Ok(Err(_)) => {}
                        Ok(Ok((out, _))) => {
                            validate_and_load(ctx, "instance-of-model-font", &what, &out, true);
                            ctx.mark_nontrivial(H::new().str(desc).u64(k as u64).get());
                        }
                    }
                }
                n
            })
            .sum();
        ctx.evals(n);
        ctx.add_states(n + corpus.len() as u64);
        ctx.add_transitions(n);
        ctx.set("instances_of_c12_model_fonts", json!({"fonts": corpus.len(), "instances": n}));
    }
    // fonts rebuilt from WOFF2-reconstructed tables: consistency of the reconstructed maxp/hhea/hmtx/head/loca/glyf.
    // The six fixtures, then the model fonts of the C11 encoder (glyf sizes around the short/long loca switch, glyph count
    // boundaries, five glyph sets under hmtx / bbox / loca choices, mixed collections).
    let mut files: Vec<(String, Vec<u8>, Vec<usize>)> = Vec::new();
    for f in ["fonts/woff2/test-font.woff2", "fonts/woff2/SFNT-TTF-Composite.woff2", "fonts/woff2/roundtrip-hmtx-lsb-001.woff2", "fonts/woff2/roundtrip-offset-tables-001.woff2", "fonts/woff2/test_glyf_loca_null_transforms.woff2", "fonts/woff2/TestSVGgzip.woff2"] {
        files.push((f.to_string(), crate::util::fixture(f), vec![0]));
    }
    files.extend(crate::c11::corpus_for_c09(ctx.tier.thorough()));
    let n: u64 = files
        .par_iter()
        .map(|(f, data, indices)| {
            let mut n = 0u64;
            for &index in indices {
                let what = || json!({"font": f, "member": index, "operation": "woff2 decode, tables re-wrapped by otmodel::sfnt::build"});
                n += 1;
                let r = guard(|| {
                    let fd = ReadScope::new(data).read::<FontData<'_>>().map_err(|e| format!("{:?}", e))?;
                    let p = fd.table_provider(index).map_err(|e| format!("{:?}", e))?;
                    let mut tables = Vec::new();
                    let mut tags = p.table_tags().unwrap_or_default();
                    tags.sort();
                    for t in tags {
                        if let Ok(Some(d)) = p.table_data(t) {
                            tables.push((t, d.into_owned()));
                        }
                    }
                    Ok::<_, String>(tables)
                });
                match r {
                    Ok(Ok(tables)) => {
                        let flavor = if tables.iter().any(|t| t.0 == tag::CFF) { otmodel::sfnt::OTTO } else { otmodel::sfnt::TTF };
                        let out = otmodel::sfnt::build_with(flavor, &tables, &otmodel::sfnt::BuildOpts { fix_head_adjustment: true, ..Default::default() });
                        validate_and_load(ctx, "woff2-reconstruction", &what, &out, true);
                        ctx.mark_nontrivial(H::new().str(f).u64(index as u64).get());
                    }
                    Ok(Err(_)) => {}
                    Err(pn) => ctx.violation(&format!("C09:panic:{}", pn.site_key("/repo")), || json!({"case": what(), "panic": pn.msg})),
                }
            }
            n
        })
        .sum();
    ctx.evals(n);
    ctx.add_states(n);
    ctx.add_transitions(n);
    ctx.set("woff2_reconstructions", json!({"files": files.len(), "fonts": n}));
}
