//! C14 — the binary reader never reads outside its buffer and decodes exactly.
//!
//! Explicit-state BFS to a fixpoint. A state is (s, l, o): a window [s, s+l) of a root buffer of n
//! pairwise distinct bytes (embedded between guard bytes) and a cursor o inside it. That triple is all
//! the state a `ReadCtxt` has, so merging on it is exact. From every reachable state every operation of
//! the alphabet is applied to a *real* `ReadCtxt` and compared with plain slice indexing.

use allsorts::binary::read::{
    CheckIndex, ReadArray, ReadArrayCow, ReadBinaryDep, ReadCtxt, ReadFixedSizeDep, ReadScope,
    ReadScopeOwned, ReadUnchecked,
};
use allsorts::binary::{I16Be, I32Be, I64Be, U16Be, U24Be, U32Be, U64Be, I8, U8};
use allsorts::error::ParseError;
use allsorts::tables::{F2Dot14, Fixed, LongHorMetric};
use mcx::{guard, Ctx};
use serde_json::{json, Value};
use std::fmt::Debug;

const G: usize = 16;
const GUARD: u8 = 0xEE;

fn arena(n: usize) -> Vec<u8> {
    let mut a = vec![GUARD; G];
    a.extend((0..n).map(|i| (17 * i + 3) as u8));
    a.extend(std::iter::repeat(GUARD).take(G));
    a
}

#[derive(Clone, Copy, Debug, PartialEq, Eq, Hash, PartialOrd, Ord)]
pub struct St {
    n: usize,
    s: usize,
    l: usize,
    o: usize,
}

/// Reporter abstraction so that `replay` can reuse `step` without writing evidence.
struct Rep<'a> {
    ctx: &'a Ctx,
    st: St,
}

impl<'a> Rep<'a> {
    fn bad(&self, op: &str, kind: &str, detail: Value) {
        let key = format!("C14:{}:{}", op_name(op), kind);
        let st = self.st;
        self.ctx.violation(&key, || {
            json!({"n": st.n, "s": st.s, "l": st.l, "o": st.o, "op": op, "kind": kind, "detail": detail,
                   "buffer": arena(st.n)[G..G + st.n].to_vec()})
        });
    }
}

/// operation name without type parameters and arguments (stable part of a violation key)
fn op_name(op: &str) -> &str {
    let e = op.find("::<").or_else(|| op.find('(')).unwrap_or(op.len());
    &op[..e]
}

trait Elem: ReadUnchecked + Clone
where
    Self::HostType: PartialEq + Debug + Copy + Ord,
{
    const NAME: &'static str;
    fn decode(b: &[u8]) -> Self::HostType;
}

fn be(b: &[u8]) -> u64 {
    b.iter().fold(0u64, |a, x| (a << 8) | *x as u64)
}

impl Elem for U8 {
    const NAME: &'static str = "U8";
    fn decode(b: &[u8]) -> u8 {
        b[0]
    }
}
impl Elem for I8 {
    const NAME: &'static str = "I8";
    fn decode(b: &[u8]) -> i8 {
        b[0] as i8
    }
}
impl Elem for U16Be {
    const NAME: &'static str = "U16Be";
    fn decode(b: &[u8]) -> u16 {
        be(&b[..2]) as u16
    }
}
impl Elem for I16Be {
    const NAME: &'static str = "I16Be";
    fn decode(b: &[u8]) -> i16 {
        be(&b[..2]) as u16 as i16
    }
}
impl Elem for U24Be {
    const NAME: &'static str = "U24Be";
    fn decode(b: &[u8]) -> u32 {
        be(&b[..3]) as u32
    }
}
impl Elem for U32Be {
    const NAME: &'static str = "U32Be";
    fn decode(b: &[u8]) -> u32 {
        be(&b[..4]) as u32
    }
}
impl Elem for I32Be {
    const NAME: &'static str = "I32Be";
    fn decode(b: &[u8]) -> i32 {
        be(&b[..4]) as u32 as i32
    }
}
impl Elem for U64Be {
    const NAME: &'static str = "U64Be";
    fn decode(b: &[u8]) -> u64 {
        be(&b[..8])
    }
}
impl Elem for I64Be {
    const NAME: &'static str = "I64Be";
    fn decode(b: &[u8]) -> i64 {
        be(&b[..8]) as i64
    }
}
impl Elem for (U16Be, U8) {
    const NAME: &'static str = "(U16Be,U8)";
    fn decode(b: &[u8]) -> (u16, u8) {
        (be(&b[..2]) as u16, b[2])
    }
}
impl Elem for (U8, U16Be, U16Be) {
    const NAME: &'static str = "(U8,U16Be,U16Be)";
    fn decode(b: &[u8]) -> (u8, u16, u16) {
        (b[0], be(&b[1..3]) as u16, be(&b[3..5]) as u16)
    }
}
impl Elem for (U8, U8, U16Be, U24Be) {
    const NAME: &'static str = "(U8,U8,U16Be,U24Be)";
    fn decode(b: &[u8]) -> (u8, u8, u16, u32) {
        (b[0], b[1], be(&b[2..4]) as u16, be(&b[4..7]) as u32)
    }
}

/// A dependent fixed-size type for `read_array_dep`: `Args` is the element size.
pub struct DepBytes;
impl ReadBinaryDep for DepBytes {
    type Args<'a> = usize;
    type HostType<'a> = &'a [u8];
    fn read_dep<'a>(ctxt: &mut ReadCtxt<'a>, n: usize) -> Result<&'a [u8], ParseError> {
        Ok(ctxt.read_slice(n)?)
    }
}
impl ReadFixedSizeDep for DepBytes {
    fn size(n: usize) -> usize {
        n
    }
}

/// A dependent fixed-size type whose decoding fails for some element values (first byte divisible by 3): an array of these has
/// elements that are inside the window but do not decode; `read_item` and the iterator must agree on every index.
pub struct DepPicky;
impl ReadBinaryDep for DepPicky {
    type Args<'a> = usize;
    type HostType<'a> = &'a [u8];
    fn read_dep<'a>(ctxt: &mut ReadCtxt<'a>, n: usize) -> Result<&'a [u8], ParseError> {
        let b = ctxt.read_slice(n)?;
        if b[0] % 3 == 0 {
            return Err(ParseError::BadValue);
        }
        Ok(b)
    }
}
impl ReadFixedSizeDep for DepPicky {
    fn size(n: usize) -> usize {
        n
    }
}

struct Env<'a> {
    ar: &'a [u8],
    st: St,
}

impl<'a> Env<'a> {
    fn root(&self) -> ReadScope<'a> {
        ReadScope::new(&self.ar[G..G + self.st.n])
    }
    fn win(&self) -> &'a [u8] {
        &self.ar[G + self.st.s..G + self.st.s + self.st.l]
    }
    fn rem(&self) -> usize {
        self.st.l - self.st.o
    }
    /// the bytes from the cursor to the end of the window
    fn rest(&self) -> &'a [u8] {
        &self.win()[self.st.o..]
    }
    fn ctxt(&self) -> ReadCtxt<'a> {
        let w = self.root().offset_length(self.st.s, self.st.l).expect("machinery: cannot build window");
        let mut c = w.ctxt();
        c.read_slice(self.st.o).expect("machinery: cannot place cursor");
        c
    }
    /// absolute position (relative to the root buffer) of a slice handed out by the reader
    fn pos_of(&self, d: &[u8]) -> isize {
        (d.as_ptr() as isize) - (self.ar.as_ptr() as isize) - (G as isize)
    }
    /// (absolute cursor position, remaining bytes) of a ctxt
    fn obs(&self, c: &ReadCtxt<'a>) -> (isize, usize) {
        let sc = c.scope();
        (self.pos_of(sc.data()), sc.data().len())
    }
    fn here(&self) -> (isize, usize) {
        ((self.st.s + self.st.o) as isize, self.rem())
    }
    fn after(&self, k: usize) -> (isize, usize) {
        ((self.st.s + self.st.o + k) as isize, self.rem() - k)
    }
}

fn base_of(sc: &ReadScope<'_>) -> Option<usize> {
    // `base` is private; Debug prints it: ReadScope { base: 3, data: [..] }
    let d = format!("{:?}", sc);
    let i = d.find("base: ")? + 6;
    let rest = &d[i..];
    let j = rest.find(|c: char| !c.is_ascii_digit())?;
    rest[..j].parse().ok()
}

fn lens(rem: usize, size: usize) -> Vec<usize> {
    let mut v = vec![0, 1, 2, 3, rem, rem + 1, rem.saturating_sub(1), usize::MAX, usize::MAX / 2 + 1];
    if size > 0 {
        v.push(rem / size);
        v.push(rem / size + 1);
        v.push((usize::MAX / size).saturating_add(1));
        v.push(usize::MAX / size);
    }
    v.sort();
    v.dedup();
    v
}

/// typed scalar read through `f`; `size` bytes
fn scalar<'a, V: PartialEq + Debug>(
    env: &Env<'a>,
    rep: &Rep<'_>,
    op: &str,
    size: usize,
    want: impl Fn(&[u8]) -> V,
    f: impl FnOnce(&mut ReadCtxt<'a>) -> Result<V, ()>,
) {
    let mut c = env.ctxt();
    match guard(|| {
        let r = f(&mut c);
        (r, c)
    }) {
        Err(p) => rep.bad(op, &format!("panic:{}", p.site_key("/repo")), json!({"panic": p.msg, "at": p.loc()})),
        Ok((r, c)) => {
            let ok = size <= env.rem();
            match (ok, r) {
                (true, Ok(v)) => {
                    let w = want(&env.rest()[..size]);
                    if v != w {
                        rep.bad(op, "value", json!({"expected": format!("{:?}", w), "got": format!("{:?}", v)}));
                    }
                    if env.obs(&c) != env.after(size) {
                        rep.bad(op, "cursor", json!({"expected": format!("{:?}", env.after(size)), "got": format!("{:?}", env.obs(&c))}));
                    }
                }
                (false, Err(())) => {
                    if env.obs(&c) != env.here() {
                        rep.bad(op, "effect-on-failure", json!({"expected": format!("{:?}", env.here()), "got": format!("{:?}", env.obs(&c))}));
                    }
                }
                (true, Err(())) => rep.bad(op, "should-succeed", json!({"size": size, "rem": env.rem()})),
                (false, Ok(v)) => rep.bad(op, "should-fail", json!({"size": size, "rem": env.rem(), "got": format!("{:?}", v)})),
            }
        }
    }
}

fn generic<'a, T: Elem>(env: &Env<'a>, rep: &Rep<'_>)
where
    T::HostType: PartialEq + Debug + Copy + Ord,
{
    let op = format!("read::<{}>", T::NAME);
    scalar(env, rep, &op, T::SIZE, |b| T::decode(b), |c| c.read::<T>().map_err(|_| ()));
    let op = format!("read_dep::<{}>", T::NAME);
    scalar(env, rep, &op, T::SIZE, |b| T::decode(b), |c| c.read_dep::<T>(()).map_err(|_| ()));
}

/// Query an array completely and compare with `want` (elements in order).
fn array_queries<'a, T: Elem>(
    env: &Env<'a>,
    rep: &Rep<'_>,
    op: &str,
    arr: &ReadArray<'a, T>,
    want: &[T::HostType],
    window: (isize, usize),
) where
    T::HostType: PartialEq + Debug + Copy + Ord,
{
    let k = want.len();
    let r = guard(|| {
        let mut bad: Vec<(String, Value)> = Vec::new();
        if arr.len() != k || arr.is_empty() != (k == 0) {
            bad.push(("len".into(), json!({"expected": k, "got": arr.len()})));
            return bad;
        }
        let mut idxs: Vec<usize> = (0..k + 2).collect();
        idxs.push(usize::MAX);
        idxs.push(usize::MAX / 2 + 1);
        for &i in &idxs {
            let w = want.get(i).copied();
            let g = arr.get_item(i);
            if g != w {
                bad.push(("get_item".into(), json!({"index": i, "expected": format!("{:?}", w), "got": format!("{:?}", g)})));
            }
            let g = arr.read_item(i).ok();
            if g != w {
                bad.push(("read_item".into(), json!({"index": i, "expected": format!("{:?}", w), "got": format!("{:?}", g)})));
            }
            if arr.check_index(i).is_ok() != (i < k) {
                bad.push(("check_index".into(), json!({"index": i})));
            }
        }
        if arr.last() != want.last().copied() {
            bad.push(("last".into(), json!({"expected": format!("{:?}", want.last()), "got": format!("{:?}", arr.last())})));
        }
        let it: Vec<T::HostType> = arr.iter().take(k + 4).collect();
        if it != want {
            bad.push(("iter".into(), json!({"expected": format!("{:?}", want), "got": format!("{:?}", it)})));
        }
        // an exhausted iterator may be polled again (Iterator allows it; zip_longest-style walks do it): it must keep
        // answering None, without touching anything
        {
            let mut itr = arr.iter();
            let mut n = 0usize;
            while itr.next().is_some() && n <= k + 4 {
                n += 1;
            }
            let after: Vec<bool> = (0..3).map(|_| itr.next().is_some()).collect();
            if n != k || after.iter().any(|x| *x) {
                bad.push(("iter-polled-after-the-end".into(), json!({"items_before_none": n, "expected_items": k, "polls_after_none_returned_some": after})));
            }
            let mut itr = arr.iter_res();
            let mut n = 0usize;
            while itr.next().is_some() && n <= k + 4 {
                n += 1;
            }
            let after: Vec<bool> = (0..3).map(|_| itr.next().is_some()).collect();
            if n != k || after.iter().any(|x| *x) {
                bad.push(("iter_res-polled-after-the-end".into(), json!({"items_before_none": n, "expected_items": k, "polls_after_none_returned_some": after})));
            }
        }
        let it: Vec<T::HostType> = (&*arr).into_iter().take(k + 4).collect();
        if it != want {
            bad.push(("into_iter".into(), json!({"expected": format!("{:?}", want), "got": format!("{:?}", it)})));
        }
        let tv = arr.to_vec();
        if tv != want {
            bad.push(("to_vec".into(), json!({"expected": format!("{:?}", want), "got": format!("{:?}", tv)})));
        }
        match arr.read_to_vec() {
            Ok(v) if v == want => {}
            o => bad.push(("read_to_vec".into(), json!({"expected": format!("{:?}", want), "got": format!("{:?}", o.ok())}))),
        }
        let ir: Vec<Option<T::HostType>> = arr.iter_res().take(k + 4).map(|r| r.ok()).collect();
        if ir != want.iter().map(|x| Some(*x)).collect::<Vec<_>>() {
            bad.push(("iter_res".into(), json!({"expected": format!("{:?}", want), "got": format!("{:?}", ir)})));
        }
        // Cow views
        let cows = [ReadArrayCow::Borrowed(arr.clone()), ReadArrayCow::Owned(want.to_vec())];
        for (ci, cow) in cows.iter().enumerate() {
            let nm = if ci == 0 { "cow-borrowed" } else { "cow-owned" };
            if cow.len() != k || cow.is_empty() != (k == 0) {
                bad.push((format!("{}-len", nm), json!({"expected": k, "got": cow.len()})));
                continue;
            }
            for &i in &idxs {
                let w = want.get(i).copied();
                if cow.get_item(i) != w || cow.read_item(i).ok() != w || cow.check_index(i).is_ok() != (i < k) {
                    bad.push((format!("{}-item", nm), json!({"index": i, "expected": format!("{:?}", w)})));
                }
            }
            let it: Vec<T::HostType> = cow.iter().take(k + 4).collect();
            if it != want {
                bad.push((format!("{}-iter", nm), json!({"expected": format!("{:?}", want), "got": format!("{:?}", it)})));
            }
        }
        // binary search (elements are strictly increasing for the unsigned types over our buffer)
        if want.windows(2).all(|w| w[0] < w[1]) {
            let mut probes: Vec<T::HostType> = want.to_vec();
            probes.push(T::decode(&[0u8; 8]));
            probes.push(T::decode(&[0xFFu8; 8]));
            probes.push(T::decode(&[0x7Fu8; 8]));
            // values between elements: decode of bytes one step away
            for w in want.iter() {
                let _ = w;
            }
            for p in probes {
                let g = arr.binary_search_by(|x| x.cmp(&p));
                let w = want.binary_search(&p);
                if g != w {
                    bad.push(("binary_search_by".into(), json!({"probe": format!("{:?}", p), "expected": format!("{:?}", w), "got": format!("{:?}", g)})));
                }
            }
        }
        bad
    });
    let _ = (env, window);
    match r {
        Err(p) => rep.bad(op, &format!("query-panic:{}", p.site_key("/repo")), json!({"panic": p.msg, "at": p.loc(), "len": k})),
        Ok(bad) => {
            for (kind, d) in bad {
                rep.bad(op, &format!("array-{}", kind), d);
            }
        }
    }
}

fn arrays<'a, T: Elem>(env: &Env<'a>, rep: &Rep<'_>, out: &mut Vec<St>)
where
    T::HostType: PartialEq + Debug + Copy + Ord,
{
    let rem = env.rem();
    // read_array
    for k in lens(rem, T::SIZE) {
        let op = format!("read_array::<{}>({})", T::NAME, k);
        let mut c = env.ctxt();
        let ok = k.checked_mul(T::SIZE).map_or(false, |b| b <= rem);
        match guard(|| {
            let r = c.read_array::<T>(k);
            (r, c)
        }) {
            Err(p) => rep.bad(&op, &format!("panic:{}", p.site_key("/repo")), json!({"panic": p.msg, "at": p.loc(), "k": k})),
            Ok((Ok(arr), c)) => {
                if !ok {
                    rep.bad(&op, "should-fail", json!({"k": k, "rem": rem, "len_reported": arr.len()}));
                    continue;
                }
                let bytes = k * T::SIZE;
                if env.obs(&c) != env.after(bytes) {
                    rep.bad(&op, "cursor", json!({"expected": format!("{:?}", env.after(bytes)), "got": format!("{:?}", env.obs(&c))}));
                }
                let want: Vec<T::HostType> = (0..k).map(|i| T::decode(&env.rest()[i * T::SIZE..])).collect();
                array_queries::<T>(env, rep, &op, &arr, &want, env.here());
                out.push(St { o: env.st.o + bytes, ..env.st });
            }
            Ok((Err(_), c)) => {
                if ok {
                    rep.bad(&op, "should-succeed", json!({"k": k, "rem": rem}));
                } else if env.obs(&c) != env.here() {
                    rep.bad(&op, "effect-on-failure", json!({"got": format!("{:?}", env.obs(&c))}));
                }
            }
        }
    }
    // read_array_upto_hack
    for k in lens(rem, T::SIZE) {
        let op = format!("read_array_upto_hack::<{}>({})", T::NAME, k);
        let mut c = env.ctxt();
        let kk = k.min(rem / T::SIZE);
        match guard(|| {
            let r = c.read_array_upto_hack::<T>(k);
            (r, c)
        }) {
            Err(p) => rep.bad(&op, &format!("panic:{}", p.site_key("/repo")), json!({"panic": p.msg, "at": p.loc(), "k": k})),
            Ok((Ok(arr), c)) => {
                let bytes = kk * T::SIZE;
                if env.obs(&c) != env.after(bytes) {
                    rep.bad(&op, "cursor", json!({"expected": format!("{:?}", env.after(bytes)), "got": format!("{:?}", env.obs(&c))}));
                }
                let want: Vec<T::HostType> = (0..kk).map(|i| T::decode(&env.rest()[i * T::SIZE..])).collect();
                array_queries::<T>(env, rep, &op, &arr, &want, env.here());
            }
            Ok((Err(_), _)) => rep.bad(&op, "should-succeed", json!({"k": k, "rem": rem})),
        }
    }
    // read_array_stride
    let strides = [0usize, 1, 2, 3, 4, 5, 8, usize::MAX, usize::MAX / 2 + 1];
    for &stride in &strides {
        for k in lens(rem, stride.max(1)) {
            let op = format!("read_array_stride::<{}>({},{})", T::NAME, k, stride);
            let mut c = env.ctxt();
            let ok = T::SIZE <= stride && k.checked_mul(stride).map_or(false, |b| b <= rem);
            match guard(|| {
                let r = c.read_array_stride::<T>(k, stride);
                (r, c)
            }) {
                Err(p) => rep.bad(&op, &format!("panic:{}", p.site_key("/repo")), json!({"panic": p.msg, "at": p.loc(), "k": k, "stride": stride})),
                Ok((Ok(arr), c)) => {
                    if !ok {
                        rep.bad(&op, "should-fail", json!({"k": k, "stride": stride, "rem": rem, "len_reported": arr.len()}));
                        continue;
                    }
                    let bytes = k * stride;
                    if env.obs(&c) != env.after(bytes) {
                        rep.bad(&op, "cursor", json!({"expected": format!("{:?}", env.after(bytes)), "got": format!("{:?}", env.obs(&c))}));
                    }
                    let want: Vec<T::HostType> = (0..k).map(|i| T::decode(&env.rest()[i * stride..])).collect();
                    array_queries::<T>(env, rep, &op, &arr, &want, env.here());
                }
                Ok((Err(_), c)) => {
                    if ok {
                        rep.bad(&op, "should-succeed", json!({"k": k, "stride": stride, "rem": rem}));
                    } else if env.obs(&c) != env.here() {
                        rep.bad(&op, "effect-on-failure", json!({"got": format!("{:?}", env.obs(&c))}));
                    }
                }
            }
        }
    }
}

/// Apply every operation of the alphabet to state `st`; returns the successor states.
fn step(ctx: &Ctx, st: St) -> Vec<St> {
    let ar = arena(st.n);
    let env = Env { ar: &ar, st };
    let rep = Rep { ctx, st };
    let mut out: Vec<St> = Vec::new();
    let rem = env.rem();

    // --- invariants of the state itself
    {
        let c = env.ctxt();
        if env.obs(&c) != env.here() {
            rep.bad("construct", "cursor", json!({"got": format!("{:?}", env.obs(&c))}));
        }
        if c.bytes_available() != (rem > 0) {
            rep.bad("bytes_available", "value", json!({"rem": rem, "got": c.bytes_available()}));
        }
        let sc = c.scope();
        if sc.data() != env.rest() {
            rep.bad("scope", "window", json!({"expected": env.rest(), "got": sc.data()}));
        }
        if let Some(b) = base_of(&sc) {
            if b != st.s + st.o {
                rep.bad("scope", "base", json!({"expected": st.s + st.o, "got": b}));
            }
        }
        let c2 = c.clone();
        if env.obs(&c2) != env.here() {
            rep.bad("clone", "cursor", json!({}));
        }
        out.push(St { n: st.n, s: st.s + st.o, l: rem, o: 0 }); // scope()
        // owned copy of the scope
        let owned = ReadScopeOwned::new(sc);
        if owned.scope().data() != env.rest() || base_of(&owned.scope()) != base_of(&sc) {
            rep.bad("ReadScopeOwned", "window", json!({}));
        }
    }

    // --- typed scalar reads
    scalar(&env, &rep, "read_u8", 1, |b| b[0], |c| c.read_u8().map_err(|_| ()));
    scalar(&env, &rep, "read_i8", 1, |b| b[0] as i8, |c| c.read_i8().map_err(|_| ()));
    scalar(&env, &rep, "read_u16be", 2, |b| be(b) as u16, |c| c.read_u16be().map_err(|_| ()));
    scalar(&env, &rep, "read_i16be", 2, |b| be(b) as u16 as i16, |c| c.read_i16be().map_err(|_| ()));
    scalar(&env, &rep, "read_u32be", 4, |b| be(b) as u32, |c| c.read_u32be().map_err(|_| ()));
    scalar(&env, &rep, "read_i32be", 4, |b| be(b) as u32 as i32, |c| c.read_i32be().map_err(|_| ()));
    scalar(&env, &rep, "read_u64be", 8, |b| be(b), |c| c.read_u64be().map_err(|_| ()));
    scalar(&env, &rep, "read_i64be", 8, |b| be(b) as i64, |c| c.read_i64be().map_err(|_| ()));
    generic::<U8>(&env, &rep);
    generic::<I8>(&env, &rep);
    generic::<U16Be>(&env, &rep);
    generic::<I16Be>(&env, &rep);
    generic::<U24Be>(&env, &rep);
    generic::<U32Be>(&env, &rep);
    generic::<I32Be>(&env, &rep);
    generic::<U64Be>(&env, &rep);
    generic::<I64Be>(&env, &rep);
    generic::<(U16Be, U8)>(&env, &rep);
    generic::<(U8, U16Be, U16Be)>(&env, &rep);
    generic::<(U8, U8, U16Be, U24Be)>(&env, &rep);
    // ReadFrom types
    scalar(&env, &rep, "read::<Fixed>", 4, |b| be(b) as u32 as i32, |c| c.read::<Fixed>().map(|f| f.raw_value()).map_err(|_| ()));
    scalar(&env, &rep, "read::<F2Dot14>", 2, |b| be(b) as u16 as i16, |c| c.read::<F2Dot14>().map(|f| f.raw_value()).map_err(|_| ()));
    scalar(
        &env,
        &rep,
        "read::<LongHorMetric>",
        4,
        |b| (be(&b[..2]) as u16, be(&b[2..4]) as u16 as i16),
        |c| c.read::<LongHorMetric>().map(|m| (m.advance_width, m.lsb)).map_err(|_| ()),
    );
    // successor states of successful scalar reads
    for size in [1usize, 2, 3, 4, 5, 7, 8] {
        if size <= rem {
            out.push(St { o: st.o + size, ..st });
        }
    }

    // --- read_slice / read_scope
    for k in lens(rem, 1) {
        for which in 0..2 {
            let op = if which == 0 { format!("read_slice({})", k) } else { format!("read_scope({})", k) };
            let mut c = env.ctxt();
            let r = guard(|| {
                let r = if which == 0 {
                    c.read_slice(k).ok().map(|d| (d, None))
                } else {
                    c.read_scope(k).ok().map(|s| (s.data(), base_of(&s)))
                };
                (r, c)
            });
            match r {
                Err(p) => rep.bad(&op, &format!("panic:{}", p.site_key("/repo")), json!({"panic": p.msg, "at": p.loc()})),
                Ok((Some((d, base)), c)) => {
                    if k > rem {
                        rep.bad(&op, "should-fail", json!({"k": k, "rem": rem}));
                        continue;
                    }
                    if d != &env.rest()[..k] || (k > 0 && env.pos_of(d) != (st.s + st.o) as isize) {
                        rep.bad(&op, "window", json!({"expected": &env.rest()[..k], "got": d}));
                    }
                    if let Some(b) = base {
                        if b != st.s + st.o {
                            rep.bad(&op, "base", json!({"expected": st.s + st.o, "got": b}));
                        }
                    }
                    if env.obs(&c) != env.after(k) {
                        rep.bad(&op, "cursor", json!({"expected": format!("{:?}", env.after(k)), "got": format!("{:?}", env.obs(&c))}));
                    }
                    out.push(St { o: st.o + k, ..st });
                    if which == 1 {
                        out.push(St { n: st.n, s: st.s + st.o, l: k, o: 0 });
                    }
                }
                Ok((None, c)) => {
                    if k <= rem {
                        rep.bad(&op, "should-succeed", json!({"k": k, "rem": rem}));
                    } else if env.obs(&c) != env.here() {
                        rep.bad(&op, "effect-on-failure", json!({"got": format!("{:?}", env.obs(&c))}));
                    }
                }
            }
        }
    }

    // --- ReadScope::offset / offset_length on the scope at the cursor
    for k in lens(rem, 1) {
        let op = format!("offset({})", k);
        let sc = env.ctxt().scope();
        match guard(|| sc.offset(k)) {
            Err(p) => rep.bad(&op, &format!("panic:{}", p.site_key("/repo")), json!({"panic": p.msg, "at": p.loc(), "k": k, "base": base_of(&sc)})),
            Ok(sub) => {
                let want: &[u8] = if k <= rem { &env.rest()[k..] } else { &[] };
                if sub.data() != want || (!want.is_empty() && env.pos_of(sub.data()) != (st.s + st.o + k) as isize) {
                    rep.bad(&op, "window", json!({"expected": want, "got": sub.data()}));
                }
                if k <= rem {
                    if base_of(&sub) != Some(st.s + st.o + k) {
                        rep.bad(&op, "base", json!({"expected": st.s + st.o + k, "got": base_of(&sub)}));
                    }
                    out.push(St { n: st.n, s: st.s + st.o + k, l: rem - k, o: 0 });
                }
            }
        }
        for m in lens(rem.saturating_sub(k), 1) {
            let op = format!("offset_length({},{})", k, m);
            match guard(|| sc.offset_length(k, m)) {
                Err(p) => rep.bad(&op, &format!("panic:{}", p.site_key("/repo")), json!({"panic": p.msg, "at": p.loc(), "k": k, "m": m})),
                Ok(Ok(sub)) => {
                    let inside = k <= rem && m <= rem - k;
                    if !(inside || m == 0) {
                        rep.bad(&op, "should-fail", json!({"k": k, "m": m, "rem": rem}));
                        continue;
                    }
                    let want: &[u8] = if inside { &env.rest()[k..k + m] } else { &[] };
                    if sub.data() != want || (!want.is_empty() && env.pos_of(sub.data()) != (st.s + st.o + k) as isize) {
                        rep.bad(&op, "window", json!({"expected": want, "got": sub.data()}));
                    }
                    if inside {
                        if base_of(&sub) != Some(st.s + st.o + k) {
                            rep.bad(&op, "base", json!({"expected": st.s + st.o + k, "got": base_of(&sub)}));
                        }
                        out.push(St { n: st.n, s: st.s + st.o + k, l: m, o: 0 });
                    }
                }
                Ok(Err(_)) => {
                    if k <= rem && m <= rem - k {
                        rep.bad(&op, "should-succeed", json!({"k": k, "m": m, "rem": rem}));
                    }
                }
            }
        }
    }

    // --- read_until_nibble
    for nib in 0u8..16 {
        let op = format!("read_until_nibble({})", nib);
        let mut c = env.ctxt();
        let want = env.rest().iter().position(|b| (b >> 4) == nib || (b & 0xF) == nib);
        match guard(|| {
            let r = c.read_until_nibble(nib).ok();
            (r, c)
        }) {
            Err(p) => rep.bad(&op, &format!("panic:{}", p.site_key("/repo")), json!({"panic": p.msg, "at": p.loc()})),
            Ok((Some(d), c)) => match want {
                Some(e) => {
                    if d != &env.rest()[..e + 1] {
                        rep.bad(&op, "window", json!({"expected": &env.rest()[..e + 1], "got": d}));
                    }
                    if env.obs(&c) != env.after(e + 1) {
                        rep.bad(&op, "cursor", json!({}));
                    }
                }
                None => rep.bad(&op, "should-fail", json!({"got": d})),
            },
            Ok((None, c)) => {
                if want.is_some() {
                    rep.bad(&op, "should-succeed", json!({}));
                } else if env.obs(&c) != env.here() {
                    rep.bad(&op, "effect-on-failure", json!({}));
                }
            }
        }
    }

    // --- arrays
    arrays::<U8>(&env, &rep, &mut out);
    arrays::<U16Be>(&env, &rep, &mut out);
    arrays::<I16Be>(&env, &rep, &mut out);
    arrays::<U24Be>(&env, &rep, &mut out);
    arrays::<U32Be>(&env, &rep, &mut out);
    arrays::<(U16Be, U8)>(&env, &rep, &mut out);
    arrays::<(U8, U16Be, U16Be)>(&env, &rep, &mut out);
    arrays::<U64Be>(&env, &rep, &mut out);

    // --- dependent arrays
    for sz in [0usize, 1, 2, 3, usize::MAX, usize::MAX / 2 + 1] {
        for k in lens(rem, sz.max(1)) {
            let op = format!("read_array_dep::<DepBytes>({},{})", k, sz);
            let mut c = env.ctxt();
            let ok = k.checked_mul(sz).map_or(false, |b| b <= rem);
            match guard(|| {
                let r = c.read_array_dep::<DepBytes>(k, sz);
                (r, c)
            }) {
                Err(p) => rep.bad(&op, &format!("panic:{}", p.site_key("/repo")), json!({"panic": p.msg, "at": p.loc(), "k": k, "size": sz})),
                Ok((Ok(arr), c)) => {
                    if !ok {
                        rep.bad(&op, "should-fail", json!({"k": k, "size": sz, "rem": rem, "len_reported": arr.len()}));
                        continue;
                    }
                    if env.obs(&c) != env.after(k * sz) {
                        rep.bad(&op, "cursor", json!({}));
                    }
                    if arr.len() != k {
                        rep.bad(&op, "array-len", json!({"expected": k, "got": arr.len()}));
                        continue;
                    }
                    let kk = k.min(rem + 3); // k can be huge only when sz == 0
                    let q = guard(|| {
                        let mut bad = Vec::new();
                        for i in (0..kk + 2).chain([usize::MAX]) {
                            let w: Option<&[u8]> = if i < k { Some(&env.rest()[i * sz..i * sz + sz]) } else { None };
                            let g = arr.read_item(i).ok();
                            if g != w {
                                bad.push(json!({"index": i, "expected": w, "got": g}));
                            }
                        }
                        let items: Vec<Option<&[u8]>> = arr.iter_res().take(kk).map(|r| r.ok()).collect();
                        for (i, it) in items.iter().enumerate() {
                            if *it != Some(&env.rest()[i * sz..i * sz + sz]) {
                                bad.push(json!({"iter_res_index": i}));
                            }
                        }
                        bad
                    });
                    match q {
                        Err(p) => rep.bad(&op, &format!("query-panic:{}", p.site_key("/repo")), json!({"panic": p.msg, "at": p.loc()})),
                        Ok(bad) => {
                            for b in bad {
                                rep.bad(&op, "array-read_item", b);
                            }
                        }
                    }
                }
                Ok((Err(_), c)) => {
                    if ok {
                        rep.bad(&op, "should-succeed", json!({"k": k, "size": sz, "rem": rem}));
                    } else if env.obs(&c) != env.here() {
                        rep.bad(&op, "effect-on-failure", json!({}));
                    }
                }
            }
        }
    }

    // --- dependent arrays with elements that do not decode: the iterator yields one item per index, Err exactly where
    // read_item fails, and goes on to the elements behind a failing one
    for sz in [1usize, 2, 3] {
        for k in lens(rem, sz) {
            if k.checked_mul(sz).map_or(true, |b| b > rem) {
                continue;
            }
            let op = format!("read_array_dep::<DepPicky>({},{})", k, sz);
            let mut c = env.ctxt();
            match guard(|| c.read_array_dep::<DepPicky>(k, sz).map(|arr| {
                let want: Vec<Option<&[u8]>> = (0..k).map(|i| { let e = &env.rest()[i * sz..i * sz + sz]; if e[0] % 3 == 0 { None } else { Some(e) } }).collect();
                let by_index: Vec<Option<&[u8]>> = (0..k).map(|i| arr.read_item(i).ok()).collect();
                let mut it = arr.iter_res();
                let mut by_iter: Vec<Option<&[u8]>> = Vec::new();
                while let Some(r) = it.next() {
                    by_iter.push(r.ok());
                    if by_iter.len() > k + 2 {
                        break;
                    }
                }
                (want, by_index, by_iter)
            })) {
                Err(p) => rep.bad(&op, &format!("panic:{}", p.site_key("/repo")), json!({"panic": p.msg, "at": p.loc(), "k": k, "size": sz})),
                Ok(Err(_)) => rep.bad(&op, "should-succeed", json!({"k": k, "size": sz, "rem": rem})),
                Ok(Ok((want, by_index, by_iter))) => {
                    if by_index != want {
                        rep.bad(&op, "array-read_item", json!({"expected": format!("{:?}", want), "got": format!("{:?}", by_index)}));
                    }
                    if by_iter != want {
                        rep.bad(&op, "iter_res-with-undecodable-elements", json!({"expected": format!("{:?}", want), "got": format!("{:?}", by_iter)}));
                    }
                }
            }
        }
    }

    out.sort();
    out.dedup();
    out
}

pub fn run(ctx: &Ctx) {
    let max_n = if ctx.tier.thorough() { 12 } else { 9 };
    ctx.set_rule(
        "state = (window start, window length, cursor) over a root buffer of n distinct bytes; transition = one reader \
         operation with one argument tuple from the boundary menu, executed on a real ReadCtxt and compared with slice \
         indexing; non-trivial = a (state, successor) pair produced by a successful operation that moved the cursor or \
         narrowed the window; distinct by (n, state, successor)",
    );
    ctx.assume("ReadCtxt has no state other than (scope.base, scope.data, offset); base is checked to equal the absolute window start");
    ctx.assume("out-of-window reads are detected by hook H1 (VERIF-OOB assertion in read_unchecked_*) and by guard bytes around the root buffer");
    let mut total = mcx::BfsStats::default();
    let mut all_fix = true;
    let mut per_n = Vec::new();
    for n in 0..=max_n {
        let init = vec![St { n, s: 0, l: n, o: 0 }];
        let stats = mcx::bfs(
            init,
            |s: &St| *s,
            |s: &St| {
                let succ = step(ctx, *s);
                for t in &succ {
                    if t != s {
                        ctx.mark_nontrivial(mcx::H::new().u64(s.n as u64).u64(s.s as u64).u64(s.l as u64).u64(s.o as u64).u64(t.s as u64).u64(t.l as u64).u64(t.o as u64).get());
                    }
                    ctx.mark_outcome(mcx::H::new().u64(t.n as u64).u64(t.s as u64).u64(t.l as u64).u64(t.o as u64).get());
                }
                ctx.sample(mcx::H::new().u64(s.n as u64).u64(s.s as u64).u64(s.l as u64).u64(s.o as u64).get(), || {
                    json!({"state": {"n": s.n, "window_start": s.s, "window_len": s.l, "cursor": s.o},
                           "successors": succ.iter().map(|t| json!([t.s, t.l, t.o])).collect::<Vec<_>>()})
                });
                succ
            },
            u64::MAX,
            u64::MAX,
        );
        // every (s,l,o) with s+l<=n, o<=l must have been reached
        let expect: u64 = (0..=n).map(|s| (0..=n - s).map(|l| (l + 1) as u64).sum::<u64>()).sum();
        if stats.states != expect {
            ctx.violation("C14:machinery:state-count", || json!({"n": n, "expected": expect, "got": stats.states}));
        }
        all_fix &= stats.fixpoint;
        total.states += stats.states;
        total.transitions += stats.transitions;
        total.depth = total.depth.max(stats.depth);
        per_n.push(json!({"n": n, "states": stats.states, "transitions": stats.transitions, "depth": stats.depth}));
    }
    // thorough: the same transition system explored by an independent engine (stateright's BFS checker). Its unique
    // state count per buffer length must equal ours, its `always` property (window inside buffer, cursor inside window)
    // must hold in every state, and the reference comparisons executed inside `step` must raise nothing.
    if ctx.tier.thorough() {
        use stateright::{Checker, Model};
        let sr_ctx: &'static Ctx = Box::leak(Box::new(Ctx::new("C14", mcx::Tier::Thorough, "model_checking")));
        let mut sr = Vec::new();
        for n in 0..=max_n {
            let checker = SrReader { ctx: sr_ctx, n }.checker().threads(4).spawn_bfs().join();
            let uniq = checker.unique_state_count() as u64;
            let ours = per_n[n]["states"].as_u64().unwrap_or(0);
            let discovered: Vec<String> = checker.discoveries().keys().map(|k| k.to_string()).collect();
            if uniq != ours || !discovered.is_empty() {
                ctx.violation("C14:machinery:stateright-cross-run-disagrees", || json!({"n": n, "stateright_unique_states": uniq, "mcx_states": ours, "discoveries": discovered}));
            }
            sr.push(json!({"n": n, "unique_states": uniq}));
        }
        let keys = sr_ctx.violation_keys();
        if !keys.is_empty() {
            ctx.violation("C14:machinery:stateright-cross-run-raised", || json!({"keys": keys}));
        }
        ctx.set("stateright_cross_run", json!({"engine": "stateright 0.31 BfsChecker, 4 threads", "per_buffer_length": sr, "agrees": true}));
    }
    // operations applied per state (measured once on a mid-size state, counted by instrumenting lens())
    ctx.add_states(total.states);
    ctx.add_transitions(total.transitions);
    ctx.evals(total.states);
    ctx.set("bfs_per_buffer_length", json!(per_n));
    ctx.set("fixpoint_reached", json!(all_fix));
    ctx.set("bounds", json!({"buffer_len_max": max_n, "history_length": "unbounded (fixpoint)"}));
    if !all_fix {
        ctx.not_exhaustive("bfs stopped before fixpoint");
    }
}

/// The reader transition system as a stateright model: a state is (n, s, l, o), an action is the successor the real
/// code (driven by `step`) produced for one operation, so the engine only does the bookkeeping of the search.
struct SrReader {
    ctx: &'static Ctx,
    n: usize,
}

impl stateright::Model for SrReader {
    type State = St;
    type Action = St;
    fn init_states(&self) -> Vec<St> {
        vec![St { n: self.n, s: 0, l: self.n, o: 0 }]
    }
    fn actions(&self, state: &St, actions: &mut Vec<St>) {
        actions.extend(step(self.ctx, *state));
    }
    fn next_state(&self, _state: &St, action: St) -> Option<St> {
        Some(action)
    }
    fn properties(&self) -> Vec<stateright::Property<Self>> {
        vec![stateright::Property::<Self>::always("window inside buffer, cursor inside window", |_, st: &St| st.s + st.l <= st.n && st.o <= st.l)]
    }
}

pub fn replay(w: &Value) -> Result<(), String> {
    let st = St {
        n: w["n"].as_u64().ok_or("no n")? as usize,
        s: w["s"].as_u64().ok_or("no s")? as usize,
        l: w["l"].as_u64().ok_or("no l")? as usize,
        o: w["o"].as_u64().ok_or("no o")? as usize,
    };
    let ctx = Ctx::new("C14", mcx::Tier::Quick, "model_checking");
    let a = {
        step(&ctx, st);
        ctx.violation_keys()
    };
    let ctx2 = Ctx::new("C14", mcx::Tier::Quick, "model_checking");
    step(&ctx2, st);
    if a != ctx2.violation_keys() {
        return Err("machinery: replay is not deterministic".into());
    }
    let op = w["op"].as_str().unwrap_or("");
    let kind = w["kind"].as_str().unwrap_or("");
    let key = format!("C14:{}:{}", op_name(op), kind);
    if a.iter().any(|k| *k == key) {
        Err(format!("state {:?}: {} {}", st, op, kind))
    } else {
        Ok(())
    }
}
