//! vcheck — one binary, one subcommand per property.
//!   vcheck <Cxx> [--tier quick|thorough]
//!   vcheck replay <path>

use mcx::{Ctx, Tier};

mod util;

mod battery;
mod faults;
mod isolate;
mod synth;

#[global_allocator]
static GLOBAL: isolate::Counting = isolate::Counting;

mod c01;
mod c02;
mod c03;
mod c04;
mod c05;
mod c06;
mod c07;
mod c09x;
mod c10;
mod c11;
mod c12;
mod c12cff2;
mod c13;
mod c14;
mod c15;
mod c16;
mod c17;
mod c18;

type CheckFn = fn(&Ctx);
type ReplayFn = fn(&serde_json::Value) -> Result<(), String>;

struct Check {
    id: &'static str,
    level: &'static str,
    run: CheckFn,
    replay: Option<ReplayFn>,
}

fn checks() -> Vec<Check> {
    vec![
        Check { id: "C01", level: "fault_enumeration", run: c01::run, replay: Some(c01::replay) },
        Check { id: "C02", level: "model_checking", run: c02::run, replay: Some(c02::replay) },
        Check { id: "C03", level: "model_checking", run: c03::run, replay: Some(c03::replay) },
        Check { id: "C04", level: "model_checking", run: c04::run, replay: Some(c04::replay) },
        Check { id: "C05", level: "model_checking", run: c05::run, replay: Some(c05::replay) },
        Check { id: "C06", level: "model_checking", run: c06::run, replay: Some(c06::replay) },
        Check { id: "C07", level: "model_checking", run: c07::run07, replay: Some(c07::replay07) },
        Check { id: "C08", level: "model_checking", run: c07::run08, replay: Some(c07::replay08) },
        Check { id: "C09", level: "model_checking", run: c07::run09, replay: Some(c07::replay09) },
        Check { id: "C10", level: "model_checking", run: c10::run, replay: Some(c10::replay) },
        Check { id: "C11", level: "model_checking", run: c11::run, replay: Some(c11::replay) },
        Check { id: "C12", level: "model_checking", run: c12::run, replay: Some(c12::replay) },
        Check { id: "C13", level: "model_checking", run: c13::run, replay: Some(c13::replay) },
        Check { id: "C14", level: "model_checking", run: c14::run, replay: Some(c14::replay) },
        Check { id: "C15", level: "model_checking", run: c15::run, replay: Some(c15::replay) },
        Check { id: "C16", level: "model_checking", run: c16::run, replay: Some(c16::replay) },
        Check { id: "C17", level: "model_checking", run: c17::run, replay: Some(c17::replay) },
        Check { id: "C18", level: "model_checking", run: c18::run, replay: Some(c18::replay) },
    ]
}

fn main() {
    let args: Vec<String> = std::env::args().collect();
    if args.len() < 2 {
        eprintln!("usage: vcheck <Cxx> [--tier quick|thorough] | vcheck replay <path> | vcheck worker ...");
        std::process::exit(2);
    }
    let mut tier = match std::env::var("VERIF_TIER").as_deref() {
        Ok("thorough") => Tier::Thorough,
        _ => Tier::Quick,
    };
    let mut i = 2;
    while i < args.len() {
        if args[i] == "--tier" && i + 1 < args.len() {
            tier = if args[i + 1] == "thorough" { Tier::Thorough } else { Tier::Quick };
            i += 1;
        }
        i += 1;
    }
    let threads = std::env::var("VERIF_THREADS").ok().and_then(|s| s.parse().ok()).unwrap_or(16usize);
    rayon::ThreadPoolBuilder::new()
        .num_threads(threads)
        .stack_size(64 << 20)
        .build_global()
        .expect("rayon pool");
    mcx::install_quiet_panic_hook();

    match args[1].as_str() {
        "replay" => {
            let path = args.get(2).expect("replay needs a path");
            let text = std::fs::read_to_string(path).expect("cannot read replay file");
            let doc: serde_json::Value = serde_json::from_str(&text).expect("replay file is not JSON");
            let id = doc["property_id"].as_str().expect("replay file has no property_id").to_string();
            let c = checks().into_iter().find(|c| c.id == id).expect("unknown property in replay file");
            match c.replay {
                Some(f) => match f(&doc["witness"]) {
                    Ok(()) => {
                        println!("replay {}: the recorded case no longer violates {}", path, id);
                        std::process::exit(0);
                    }
                    Err(e) => {
                        println!("replay {}: reproduced: {}", path, e);
                        println!("VIOLATION property={} replay={}", id, path);
                        std::process::exit(1);
                    }
                },
                None => {
                    eprintln!("property {} has no direct replay; re-run ./run {} {}", id, id, doc["tier"]);
                    std::process::exit(2);
                }
            }
        }
        "c01-worker" => {
            c01::worker(&args[2..]);
        }
        "c02-worker" => {
            c01::worker_with(&args[2..], c02::layout_seeds, c02::shape_battery);
        }
        "c02-debug" => {
            let data = std::fs::read(&args[2]).unwrap();
            let text = &args[3];
            let r = util::with_font(&data, |font| {
                use allsorts::gsub::{FeatureInfo, Features};
                let glyphs = font.map_glyphs(text, allsorts::tag::LATN, allsorts::font::MatchingPresentation::NotRequired);
                println!("in: {:?}", glyphs.iter().map(|g| g.glyph_index).collect::<Vec<_>>());
                let f = Features::Custom(vec![FeatureInfo { feature_tag: otmodel::tag(b"test"), alternate: None }]);
                let r = font.shape(glyphs, allsorts::tag::LATN, Some(otmodel::tag(b"UNKN")), &f, None, true);
                match r {
                    Ok(i) => println!("ok: {:?}", i.iter().map(|g| (g.glyph.glyph_index, g.kerning, format!("{:?}", g.placement))).collect::<Vec<_>>()),
                    Err((e, i)) => println!("err {:?}: {:?}", e, i.iter().map(|g| g.glyph.glyph_index).collect::<Vec<_>>()),
                }
            });
            println!("{:?}", r);
        }
        "c03-pure-child" => {
            c03::pure_child();
        }
        "selftest" => {
            util::selftest();
        }
        id => {
            let c = match checks().into_iter().find(|c| c.id == id) {
                Some(c) => c,
                None => {
                    eprintln!("unknown check {}", id);
                    std::process::exit(2);
                }
            };
            let ctx = Ctx::new(c.id, tier, c.level);
            (c.run)(&ctx);
            let code = ctx.finish();
            std::process::exit(code);
        }
    }
}
