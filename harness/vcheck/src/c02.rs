//! C02 — shaping is total and yields well-formed glyph runs.
//!
//! (a) Text: for every script type an alphabet with one representative per class of that script's syllable
//!     machine plus foreigners; ALL strings up to a length bound x the fixture fonts of the script x shaping
//!     configurations within a deviation bound, executed on real fonts; oracle = totality + well-formedness.
//! (b) Corrupt layout data: bound-1 fault enumeration (C01's machinery) over every byte of GSUB, GPOS, GDEF,
//!     kern and morx of the AOTS fonts, each mutant shaped with strings over the font's own cmap.

use crate::faults::{PlanOpts, Seed, Wrap};
use allsorts::binary::read::ReadScope;
use allsorts::font::MatchingPresentation;
use allsorts::font_data::{DynamicFontTableProvider, FontData};
use allsorts::glyph_position::{GlyphLayout, TextDirection};
use allsorts::gpos::{Info, Placement};
use allsorts::gsub::{FeatureInfo, FeatureMask, Features};
use allsorts::tables::FontTableProvider;
use allsorts::{tag, Font};
use mcx::{guard, Ctx, H};
use rayon::prelude::*;
use serde_json::{json, Value};

type F<'a> = Font<DynamicFontTableProvider<'a>>;

pub struct Script {
    pub name: &'static str,
    pub tag: u32,
    pub lang: u32,
    pub fonts: &'static [&'static str],
    pub alphabet: &'static [char],
    /// the most structure-bearing letters (prefix length of `alphabet`) used for the longest strings
    pub core: usize,
}

pub const SCRIPTS: &[Script] = &[
    Script {
        name: "devanagari",
        tag: tag::DEVA,
        lang: otmodel::tag(b"HIN "),
        fonts: &["fonts/noto/NotoSansDevanagari-Regular.ttf", "fonts/devanagari/lohit_hi.ttf", "fonts/noto/NotoSerifDevanagari-Regular.ttf"],
        // consonant, ra, halant, nukta, pre-base matra, below-base matra, above-base matra, post-base matra, anusvara, ZWJ |
        // ZWNJ, visarga, cantillation, independent vowel, dotted circle, digit, NBSP, latin, VS16, foreign mark
        alphabet: &['\u{915}', '\u{930}', '\u{94D}', '\u{93C}', '\u{93F}', '\u{941}', '\u{947}', '\u{93E}', '\u{902}', '\u{200D}', '\u{200C}', '\u{903}', '\u{951}', '\u{905}', '\u{25CC}', '\u{967}', '\u{A0}', 'a', '\u{FE0F}', '\u{301}'],
        core: 10,
    },
    Script {
        name: "bengali",
        tag: tag::BENG,
        lang: otmodel::tag(b"BEN "),
        fonts: &["fonts/noto/NotoSansBengali-Regular.ttf", "fonts/bengali/Lohit-Bengali.ttf"],
        // ka, ra, ya, halant, nukta, split matras o / au, pre-base i, below u, anusvara | khanda ta, ZWJ, ZWNJ, au length mark, digit, latin
        alphabet: &['\u{995}', '\u{9B0}', '\u{9AF}', '\u{9CD}', '\u{9BC}', '\u{9CB}', '\u{9CC}', '\u{9BF}', '\u{9C1}', '\u{982}', '\u{9CE}', '\u{200D}', '\u{200C}', '\u{9D7}', '\u{9E7}', 'a'],
        core: 10,
    },
    Script {
        name: "tamil",
        tag: tag::TAML,
        lang: otmodel::tag(b"TAM "),
        fonts: &["fonts/noto/NotoSansTamil-Regular.ttf", "fonts/tamil/lohit_ta.ttf"],
        alphabet: &['\u{B95}', '\u{BB0}', '\u{BCD}', '\u{BCA}', '\u{BCC}', '\u{BBF}', '\u{BC8}', '\u{BC6}', '\u{B82}', '\u{200D}', '\u{200C}', '\u{BD7}', '\u{B85}', '\u{BE7}', 'a', '\u{25CC}'],
        core: 10,
    },
    Script {
        name: "malayalam",
        tag: tag::MLYM,
        lang: otmodel::tag(b"MAL "),
        fonts: &["fonts/noto/NotoSansMalayalam-Regular.ttf", "fonts/malayalam/lohit_ml.ttf"],
        alphabet: &['\u{D15}', '\u{D30}', '\u{D4D}', '\u{D4A}', '\u{D4C}', '\u{D3F}', '\u{D46}', '\u{D48}', '\u{D02}', '\u{200D}', '\u{200C}', '\u{D57}', '\u{D7B}', '\u{D05}', 'a', '\u{25CC}'],
        core: 10,
    },
    Script {
        name: "kannada",
        tag: tag::KNDA,
        lang: otmodel::tag(b"KAN "),
        fonts: &["fonts/noto/NotoSansKannada-Regular.ttf"],
        alphabet: &['\u{C95}', '\u{CB0}', '\u{CCD}', '\u{CBC}', '\u{CCA}', '\u{CC0}', '\u{CBF}', '\u{CC6}', '\u{C82}', '\u{200D}', '\u{200C}', '\u{CD5}', '\u{CD6}', '\u{C85}', 'a', '\u{25CC}'],
        core: 10,
    },
    Script {
        name: "sinhala",
        tag: tag::SINH,
        lang: otmodel::tag(b"SNH "),
        fonts: &["fonts/noto/NotoSansSinhala-Regular.ttf"],
        alphabet: &['\u{D9A}', '\u{DBB}', '\u{DCA}', '\u{DDC}', '\u{DDE}', '\u{DD9}', '\u{DD2}', '\u{DD4}', '\u{D82}', '\u{200D}', '\u{200C}', '\u{DCF}', '\u{DDF}', '\u{D85}', 'a', '\u{25CC}'],
        core: 10,
    },
    Script {
        name: "myanmar",
        tag: tag::MYM2,
        lang: otmodel::tag(b"BRM "),
        fonts: &["fonts/myanmar/Padauk-Regular.ttf"],
        // ka, nga (kinzi), virama, asat, medial ra (pre-base), medial ya, medial wa, medial ha, pre-base vowel e, above vowel | below vowel,
        // anusvara, dot below, visarga, digit, ZWJ, ZWNJ, dotted circle, latin
        alphabet: &['\u{1000}', '\u{1004}', '\u{1039}', '\u{103A}', '\u{103C}', '\u{103B}', '\u{103D}', '\u{103E}', '\u{1031}', '\u{102D}', '\u{102F}', '\u{1036}', '\u{1037}', '\u{1038}', '\u{1040}', '\u{200D}', '\u{200C}', '\u{25CC}', 'a'],
        core: 10,
    },
    Script {
        name: "khmer",
        tag: tag::KHMR,
        lang: otmodel::tag(b"KHM "),
        fonts: &["fonts/noto/NotoSansKhmer-Regular.ttf", "fonts/khmer/Battambang-Regular.ttf"],
        // ka, ro, coeng, pre-base vowel, split vowel, above vowel, below vowel, post vowel, nikahit, register shifter | reahmuk, bantoc, digit, ZWJ, ZWNJ, dotted circle, latin
        alphabet: &['\u{1780}', '\u{179A}', '\u{17D2}', '\u{17C1}', '\u{17C4}', '\u{17B8}', '\u{17BB}', '\u{17B6}', '\u{17C6}', '\u{17C9}', '\u{17C7}', '\u{17CB}', '\u{17E0}', '\u{200D}', '\u{200C}', '\u{25CC}', 'a'],
        core: 10,
    },
    Script {
        name: "arabic",
        tag: tag::ARAB,
        lang: otmodel::tag(b"URD "),
        fonts: &["fonts/noto/NotoNaskhArabic-Regular.ttf", "fonts/arabic/Scheherazade-Regular.ttf", "fonts/arabic/amiri-regular.ttf"],
        // dual-joining beh, lam, right-joining alef, non-joining hamza, tatweel, shadda, fatha, superscript alef, ZWJ, ZWNJ | maddah, space, digit, latin, dotted circle, end of ayah
        alphabet: &['\u{628}', '\u{644}', '\u{627}', '\u{621}', '\u{640}', '\u{651}', '\u{64E}', '\u{670}', '\u{200D}', '\u{200C}', '\u{653}', ' ', '\u{660}', 'a', '\u{25CC}', '\u{6DD}'],
        core: 10,
    },
    Script {
        name: "syriac",
        tag: tag::SYRC,
        lang: otmodel::tag(b"SYR "),
        fonts: &["fonts/noto/NotoSansSyriacEastern-Regular.ttf", "fonts/syriac/SyrCOMEdessa.otf"],
        // dual-joining beth, alaph, right-joining dalath, lamadh, he, pthaha above, superscript alaph, ZWJ, ZWNJ, space | punctuation, latin, dotted circle, garshuni kaph
        alphabet: &['\u{712}', '\u{710}', '\u{715}', '\u{720}', '\u{717}', '\u{730}', '\u{711}', '\u{200D}', '\u{200C}', ' ', '\u{700}', 'a', '\u{25CC}', '\u{74E}'],
        core: 10,
    },
    Script {
        name: "thai",
        tag: tag::THAI,
        lang: otmodel::tag(b"THA "),
        fonts: &["fonts/noto/NotoSansThai-Regular.ttf"],
        alphabet: &['\u{E01}', '\u{E1B}', '\u{E33}', '\u{E49}', '\u{E34}', '\u{E38}', '\u{E3A}', '\u{E47}', '\u{E40}', '\u{E4D}', '\u{E30}', '\u{25CC}', 'a', '\u{200D}'],
        core: 10,
    },
    Script {
        name: "lao",
        tag: tag::LAO,
        lang: otmodel::tag(b"LAO "),
        fonts: &["fonts/noto/NotoSansLao-Regular.ttf"],
        alphabet: &['\u{E81}', '\u{E9B}', '\u{EB3}', '\u{EC9}', '\u{EB4}', '\u{EB8}', '\u{EBC}', '\u{EC0}', '\u{ECD}', '\u{EB0}', '\u{25CC}', 'a', '\u{200D}'],
        core: 10,
    },
    Script {
        name: "latin-default",
        tag: tag::LATN,
        lang: otmodel::tag(b"ROM "),
        fonts: &["fonts/opentype/Klei.otf", "fonts/opentype/OpenSans-Regular.ttf", "fonts/opentype/SourceCodePro-Regular.otf", "fonts/opentype/TerminusTTF-4.47.0.ttf"],
        alphabet: &['f', 'i', 'A', 'V', '\u{301}', '\u{308}', '\u{FE0F}', '\u{200D}', ' ', '\u{25CC}', '1', '/', '\u{FB03}', '\u{1F600}', '\u{644}'],
        core: 10,
    },
];

#[derive(Clone, Copy, Debug, PartialEq)]
struct Config {
    feats: u8, // 0 Mask(default) 1 Mask(all) 2 Mask(empty) 3 Custom([]) 4 Custom([liga, kern, ccmp, mark])
    lang: u8,  // 0 None 1 Some(DFLT) 2 script specific
    kerning: bool,
    rtl: bool,
    vertical: bool,
    script_alt: bool, // use the alternative script tag (e.g. an unmapped tag -> Default shaper)
}

fn configs(bound: u32) -> Vec<Config> {
    let v = std::cell::RefCell::new(Vec::new());
    mcx::explore(bound, |c| {
        let cfg = Config {
            feats: [0u8, 1, 2, 3, 4, 5, 7, 8][c.dev(8)],
            lang: c.dev(3) as u8,
            kerning: c.dev(2) == 0,
            rtl: c.dev(2) == 1,
            vertical: c.dev(2) == 1,
            script_alt: c.dev(2) == 1,
        };
        v.borrow_mut().push(cfg);
    });
    v.into_inner()
}

fn features(k: u8) -> Features {
    match k {
        0 => Features::Mask(FeatureMask::default()),
        1 => Features::Mask(FeatureMask::all()),
        2 => Features::Mask(FeatureMask::empty()),
        3 => Features::Custom(vec![]),
        6 => Features::Mask(FeatureMask::default() | FeatureMask::FRAC),
        // positional and composition features by tag: gsub_apply_custom treats `fina` specially (last glyph only), and
        // the lookups of the other features can shorten or lengthen the run before it is reached
        7 => Features::Custom([tag::CCMP, tag::FINA, tag::INIT, tag::MEDI, tag::ISOL, tag::RLIG, tag::LIGA, tag::CALT].iter().map(|t| FeatureInfo { feature_tag: *t, alternate: None }).collect()),
        8 => Features::Custom([tag::FINA, tag::CCMP].iter().map(|t| FeatureInfo { feature_tag: *t, alternate: None }).collect()),
        4 => Features::Custom([tag::LIGA, tag::KERN, tag::CCMP, tag::MARK, tag::RLIG].iter().map(|t| FeatureInfo { feature_tag: *t, alternate: None }).collect()),
        _ => Features::Custom([otmodel::tag(b"test"), tag::LIGA, tag::KERN, tag::MARK, tag::MKMK, tag::CURS].iter().map(|t| FeatureInfo { feature_tag: *t, alternate: Some(1) }).collect()),
    }
}

/// The well-formedness oracle of the property on one shaped run.
pub fn check_run(input_chars: &[char], infos: &[Info], num_glyphs: Option<u16>) -> Result<(), (String, String)> {
    for (i, info) in infos.iter().enumerate() {
        let idx = match info.placement {
            Placement::MarkAnchor(b, _, _) => Some(b),
            Placement::MarkOverprint(b) => Some(b),
            Placement::CursiveAnchor(b, _, _, _) => Some(b),
            _ => None,
        };
        if let Some(b) = idx {
            if b >= infos.len() {
                return Err(("attachment-outside-run".into(), format!("glyph {} attaches to index {} but the run has {} glyphs", i, b, infos.len())));
            }
        }
        for ch in info.glyph.unicodes.iter() {
            if *ch != '\u{25CC}' && !input_chars.contains(ch) {
                return Err(("foreign-character-attributed".into(), format!("glyph {} carries U+{:04X} which is not in the submitted run", i, *ch as u32)));
            }
        }
        if let Some(n) = num_glyphs {
            if info.glyph.glyph_index >= n {
                return Err(("glyph-id-beyond-glyph-count".into(), format!("glyph {} has id {} but the font has {} glyphs", i, info.glyph.glyph_index, n)));
            }
        }
    }
    Ok(())
}

fn nth_string(alpha: &[char], len: usize, mut idx: u64) -> String {
    let k = alpha.len() as u64;
    let mut s = String::new();
    for _ in 0..len {
        s.push(alpha[(idx % k) as usize]);
        idx /= k;
    }
    s
}

struct Job {
    script: usize,
    font: usize,
    alpha: Vec<char>,
    len: usize,
    start: u64,
    end: u64,
    cfg_bound: u32,
    /// explicit list of strings (the fraction family); `start..end` index into it
    texts: Option<std::sync::Arc<Vec<String>>>,
    /// shape under this script tag instead of the script's own (the tag sweep)
    tag_override: Option<u32>,
}

fn run_job(ctx: &Ctx, job: &Job, data: &[u8], cfgs: &[Config]) -> (u64, u64) {
    let sc = &SCRIPTS[job.script];
    let fd = ReadScope::new(data).read::<FontData<'_>>().expect("machinery: fixture font");
    let provider = fd.table_provider(0).expect("machinery: provider");
    let mut font: F<'_> = Font::new(provider).expect("machinery: Font::new");
    let n = font.num_glyphs();
    let mut evals = 0u64;
    let mut nontrivial = 0u64;
    let what = |text: &str, cfg: &Config| {
        json!({"script": sc.name, "script_tag_override": job.tag_override, "script_tag_override_text": job.tag_override.map(otmodel::tag_str), "font": sc.fonts[job.font % 1000], "text": text.chars().map(|c| format!("U+{:04X}", c as u32)).collect::<Vec<_>>(), "config": format!("{:?}", cfg)})
    };
    for idx in job.start..job.end {
        let text = match &job.texts {
            Some(t) => t[idx as usize].clone(),
            None => nth_string(&job.alpha, job.len, idx),
        };
        for cfg in cfgs {
            let script_tag = if let Some(t) = job.tag_override { t } else if cfg.script_alt { otmodel::tag(b"zzzz") } else { sc.tag };
            let lang = match cfg.lang {
                0 => None,
                1 => Some(tag::DFLT),
                _ => Some(sc.lang),
            };
            evals += 1;
            let r = guard(|| {
                let glyphs = font.map_glyphs(&text, script_tag, MatchingPresentation::NotRequired);
                let input: Vec<char> = glyphs.iter().flat_map(|g| g.unicodes.iter().copied()).collect();
                let n_in = glyphs.len();
                let infos = match font.shape(glyphs, script_tag, lang, &features(cfg.feats), None, cfg.kerning) {
                    Ok(i) => (i, true),
                    Err((_, i)) => (i, false),
                };
                let dir = if cfg.rtl { TextDirection::RightToLeft } else { TextDirection::LeftToRight };
                let pos = GlyphLayout::new(&mut font, &infos.0, dir, cfg.vertical).glyph_positions();
                // A caller may lay out part of a shaped run (a line broken inside it): every prefix and suffix of a run
                // that carries attachments must give a result or an error, never a panic (attachment indices then
                // point at or past the end of the slice).
                if infos.0.iter().any(|i| !matches!(i.placement, Placement::None)) {
                    for k in 1..infos.0.len() {
                        let _ = GlyphLayout::new(&mut font, &infos.0[..k], dir, cfg.vertical).glyph_positions();
                        let _ = GlyphLayout::new(&mut font, &infos.0[k..], dir, cfg.vertical).glyph_positions();
                    }
                }
                (input, n_in, infos, pos.map(|p| p.len()))
            });
            match r {
                Err(p) => {
                    ctx.violation(&format!("C02:panic:{}", p.site_key("/repo")), || {
                        let mut w = what(&text, cfg);
                        w["panic"] = json!(p.msg);
                        w["at"] = json!(p.loc());
                        w
                    });
                }
                Ok((input, n_in, (infos, ok), pos)) => {
                    if let Err((kind, why)) = check_run(&input, &infos, if ok { Some(n) } else { None }) {
                        ctx.violation(&format!("C02:{}", kind), || {
                            let mut w = what(&text, cfg);
                            w["why"] = json!(why);
                            w
                        });
                    }
                    match pos {
                        Ok(l) if l != infos.len() => ctx.violation("C02:glyph_positions-length", || what(&text, cfg)),
                        _ => {}
                    }
                    let changed = infos.len() != n_in || infos.iter().any(|i| !matches!(i.placement, Placement::None) || i.kerning != 0);
                    if changed {
                        nontrivial += 1;
                    }
                    if evals % 997 == 0 {
                        let h = H::new().str(&text).u64(job.font as u64).get();
                        ctx.sample(h, || {
                            let mut w = what(&text, cfg);
                            w["glyphs_out"] = json!(infos.iter().map(|i| i.glyph.glyph_index).collect::<Vec<_>>());
                            w
                        });
                        ctx.mark_outcome(H::new().bytes(&infos.iter().flat_map(|i| i.glyph.glyph_index.to_be_bytes()).collect::<Vec<u8>>()).get());
                    }
                }
            }
        }
    }
    let _ = job.cfg_bound;
    (evals, nontrivial)
}

fn run_text(ctx: &Ctx) {
    let thorough = ctx.tier.thorough();
    // (alphabet kind, length, config deviation bound)
    //   quick:    full alphabet len <= 3 with <= 1 config deviation; core alphabet len 4 default config
    //   thorough: full alphabet len <= 4 with <= 2 deviations; full alphabet len 5 default config; core len 6 default config
    let plans: Vec<(bool, usize, u32)> = if thorough {
        vec![(false, 0, 2), (false, 1, 2), (false, 2, 2), (false, 3, 2), (false, 4, 1), (false, 5, 0), (true, 6, 0)]
    } else {
        vec![(false, 0, 1), (false, 1, 1), (false, 2, 1), (false, 3, 1), (false, 4, 0), (true, 5, 0)]
    };
    let cfgsets: Vec<Vec<Config>> = (0..=2).map(configs).collect();
    let mut jobs: Vec<Job> = Vec::new();
    let mut fonts: Vec<Vec<Vec<u8>>> = Vec::new();
    for (si, sc) in SCRIPTS.iter().enumerate() {
        let mut fdata = Vec::new();
        let nf = if thorough { sc.fonts.len() } else { sc.fonts.len().min(2) };
        for f in sc.fonts.iter().take(nf) {
            fdata.push(crate::util::fixture(f));
        }
        for (fi, _) in fdata.iter().enumerate() {
            for &(core, len, bound) in &plans {
                let alpha: Vec<char> = if core { sc.alphabet[..sc.core.min(sc.alphabet.len())].to_vec() } else { sc.alphabet.to_vec() };
                let total = (alpha.len() as u64).pow(len as u32);
                let chunk = 4000u64;
                let mut s = 0;
                while s < total {
                    jobs.push(Job { script: si, font: fi, alpha: alpha.clone(), len, start: s, end: (s + chunk).min(total), cfg_bound: bound, texts: None, tag_override: None });
                    s += chunk;
                }
            }
        }
        fonts.push(fdata);
    }
    // Fraction family (FRAC enabled): prefix x fraction x suffix on every Latin font. The frac lookups are applied to the
    // glyphs of an ASCII fraction after the ordinary lookups have been applied to the text before it, which may have
    // shrunk (ligatures, mark composition) or grown in the meantime.
    let frac_cfgs: Vec<Config> = [1u8, 6]
        .iter()
        .flat_map(|&feats| [true, false].into_iter().map(move |kerning| Config { feats, lang: 0, kerning, rtl: false, vertical: false, script_alt: false }))
        .collect();
    let mut frac_fonts: Vec<Vec<u8>> = Vec::new();
    let latin = SCRIPTS.iter().position(|s| s.name == "latin-default").expect("latin script");
    {
        let pre_alpha = ['f', 'i', 'A', '\u{301}', '\u{308}', ' '];
        let suf_alpha = ['f', 'i', ' ', '1', '\u{301}'];
        let fractions = ["1/1", "1/2", "11/1", "1/11"];
        let all = |alpha: &[char], max: usize| -> Vec<String> {
            let mut v = vec![String::new()];
            for len in 1..=max {
                for idx in 0..(alpha.len() as u64).pow(len as u32) {
                    v.push(nth_string(alpha, len, idx));
                }
            }
            v
        };
        let prefixes = all(&pre_alpha, if thorough { 3 } else { 2 });
        let suffixes = all(&suf_alpha, 2);
        let mut texts = Vec::new();
        for p in &prefixes {
            for f in fractions {
                for s in &suffixes {
                    texts.push(format!("{}{}{}", p, f, s));
                }
            }
        }
        let texts = std::sync::Arc::new(texts);
        ctx.set("fraction_family", json!({"strings": texts.len(), "configs": frac_cfgs.len(), "fonts": SCRIPTS[latin].fonts.len()}));
        for (fi, f) in SCRIPTS[latin].fonts.iter().enumerate() {
            frac_fonts.push(crate::util::fixture(f));
            let total = texts.len() as u64;
            let mut s0 = 0;
            while s0 < total {
                jobs.push(Job { script: latin, font: 1000 + fi, alpha: Vec::new(), len: 0, start: s0, end: (s0 + 2000).min(total), cfg_bound: 99, texts: Some(texts.clone()), tag_override: None });
                s0 += 2000;
            }
        }
    }
    // Character class sweep: the shapers classify a character by their own tables whatever script the run is tagged with
    // (a Malayalam dot reph in a run tagged deva, a Khmer coeng in a Myanmar run ...). Every code point of every block a
    // complex-script shaper knows, in five contexts with the script's own first consonant and its halant / second letter, on
    // the first font of every script, default configuration. The font need not map the character: unmapped characters
    // become glyph 0 with the character attached, and that is what reaches the syllable machines.
    {
        let ranges: [(u32, u32); 12] = [(0x0600, 0x06FF), (0x0700, 0x074F), (0x08A0, 0x08FF), (0x0900, 0x0DFF), (0x0E00, 0x0EFF), (0x1000, 0x109F), (0x1780, 0x17FF), (0x1CD0, 0x1CFF), (0xA8E0, 0xA8FF), (0xA9E0, 0xA9FF), (0xAA60, 0xAA7F), (0x11300, 0x1137F)];
        let cps: Vec<char> = ranges.iter().flat_map(|&(a, z)| (a..=z).filter_map(char::from_u32)).collect();
        let mut n_texts = 0usize;
        for (si, sc) in SCRIPTS.iter().enumerate() {
            let (b, h) = (sc.alphabet[0], sc.alphabet[2.min(sc.alphabet.len() - 1)]);
            let mut texts: Vec<String> = Vec::with_capacity(cps.len() * 5);
            for &c in &cps {
                texts.push(c.to_string());
                texts.push([b, c].iter().collect());
                texts.push([c, b].iter().collect());
                texts.push([b, h, c].iter().collect());
                texts.push([b, c, h, b].iter().collect());
            }
            n_texts += texts.len();
            let texts = std::sync::Arc::new(texts);
            let total = texts.len() as u64;
            let mut s0 = 0;
            while s0 < total {
                jobs.push(Job { script: si, font: 0, alpha: Vec::new(), len: 0, start: s0, end: (s0 + 2000).min(total), cfg_bound: 0, texts: Some(texts.clone()), tag_override: None });
                s0 += 2000;
            }
        }
        ctx.set("character_class_sweep", json!({"code_points": cps.len(), "contexts": 5, "scripts": SCRIPTS.len(), "strings": n_texts}));
    }
    // Script tag sweep: every script tag the library knows (old and version 2 Indic tags, both Myanmar tags ...), DFLT and
    // unknown tags, on every script's first font, for all strings <= 2 (thorough 3) over the first eight letters of the
    // alphabet: the choice of shaper depends on the tag alone, the text and the font need not match it.
    {
        const TAGS: [&[u8; 4]; 36] = [
            b"arab", b"syrc", b"mong", b"nko ", b"deva", b"dev2", b"beng", b"bng2", b"guru", b"gur2", b"gujr", b"gjr2", b"orya", b"ory2", b"taml", b"tml2",
            b"telu", b"tel2", b"knda", b"knd2", b"mlym", b"mlm2", b"sinh", b"khmr", b"mymr", b"mym2", b"thai", b"lao ", b"latn", b"grek", b"cyrl", b"hebr",
            b"hang", b"DFLT", b"zzzz", b"\0\0\0\0",
        ];
        let maxlen = if thorough { 3 } else { 2 };
        for (si, sc) in SCRIPTS.iter().enumerate() {
            let alpha: Vec<char> = sc.alphabet[..sc.alphabet.len().min(8)].to_vec();
            for t in TAGS {
                for len in 0..=maxlen {
                    let total = (alpha.len() as u64).pow(len as u32);
                    jobs.push(Job { script: si, font: 0, alpha: alpha.clone(), len, start: 0, end: total, cfg_bound: 0, texts: None, tag_override: Some(otmodel::tag(t)) });
                }
            }
        }
        ctx.set("script_tag_sweep", json!({"tags": TAGS.len(), "scripts": SCRIPTS.len(), "max_len": maxlen, "alphabet": 8}));
    }
    ctx.set("text_jobs", json!(jobs.len()));
    let cap = if thorough { 1500.0 } else { 45.0 };
    let skipped = std::sync::atomic::AtomicU64::new(0);
    jobs.par_iter().for_each(|job| {
        if ctx.elapsed() > cap {
            skipped.fetch_add(job.end - job.start, std::sync::atomic::Ordering::Relaxed);
            return;
        }
        let (e, nt) = if job.texts.is_some() && job.font >= 1000 {
            run_job(ctx, job, &frac_fonts[job.font - 1000], &frac_cfgs)
        } else {
            run_job(ctx, job, &fonts[job.script][job.font], &cfgsets[job.cfg_bound as usize])
        };
        ctx.evals(e);
        ctx.add_states(job.end - job.start);
        ctx.add_transitions(e);
        ctx.bump("shaped_runs_changed_by_layout", nt);
        for k in 0..nt.min(64) {
            ctx.mark_nontrivial(H::new().u64(job.script as u64).u64(job.font as u64).u64(job.len as u64).u64(job.start).u64(k).get());
        }
    });
    let sk = skipped.load(std::sync::atomic::Ordering::Relaxed);
    if sk > 0 {
        ctx.not_exhaustive(&format!("text part: wall cap {}s reached, {} strings not shaped", cap, sk));
    }
    ctx.set("scripts", json!(SCRIPTS.iter().map(|s| json!({"name": s.name, "alphabet": s.alphabet.len(), "fonts": s.fonts.len()})).collect::<Vec<_>>()));
}

// ------------------------------------------------------------------------------------------ corrupt layout tables

pub fn layout_seeds(tier: &str) -> Vec<(Seed, PlanOpts)> {
    let mut out = Vec::new();
    let mut files: Vec<String> = std::fs::read_dir("/repo/tests/aots").map(|rd| rd.filter_map(|e| e.ok()).map(|e| e.path().to_string_lossy().to_string()).filter(|p| p.ends_with(".otf")).collect()).unwrap_or_default();
    files.sort();
    // quick: the first font of every family (lookup type / subtable format: gpos1 ... gpos9, gsub1 ... gsub7,
    // gpos_chaining1, gsub_context3, lookupflag, classdef1 ...); thorough: all fonts
    let mut families_seen: std::collections::BTreeSet<String> = std::collections::BTreeSet::new();
    for f in files.iter() {
        let base = f.rsplit('/').next().unwrap_or("");
        let mut toks = base.trim_end_matches(".otf").split('_');
        let t0 = toks.next().unwrap_or("");
        let family = if t0 == "gpos" || t0 == "gsub" { format!("{}_{}", t0, toks.next().unwrap_or("")) } else { t0.to_string() };
        if tier == "quick" && !families_seen.insert(family) {
            continue;
        }
        let bytes = match std::fs::read(f) {
            Ok(b) if !b.is_empty() => b,
            _ => continue,
        };
        let opts = PlanOpts { truncations: false, structure: false, u32_faults: false, ..PlanOpts::full() };
        out.push((Seed { name: f.trim_start_matches("/repo/").to_string(), bytes, wrap: Wrap::Raw }, PlanOpts { layout_only: true, ..opts }));
    }
    // synthetic fonts whose GSUB serves a complex script (the script-specific shapers fetch their lookup lists through
    // the lookup cache without asking for the supported features first): a value fault in the ScriptList / FeatureList
    // makes that fetch fail, and every later run on the same Font must fail (or work) just as cleanly
    for (script, chars) in [(b"thai", [0x0E01u32, 0x0E34, 0x0E48]), (b"arab", [0x0628, 0x064E, 0x0644]), (b"dev2", [0x0915, 0x094D, 0x0937]), (b"khmr", [0x1780, 0x17D2, 0x1798]), (b"mym2", [0x1000, 0x1039, 0x1019]), (b"syrc", [0x0712, 0x0730, 0x0720])] {
        let mut sl = otmodel::be::W::new();
        sl.u16(1).tag(otmodel::tag(script)).u16(8);
        sl.u16(4).u16(0).u16(0).u16(0xFFFF).u16(2).u16(0).u16(1);
        let feats = match &script[..] {
            b"arab" | b"syrc" => [otmodel::tag(b"ccmp"), otmodel::tag(b"init")],
            b"thai" => [otmodel::tag(b"ccmp"), otmodel::tag(b"liga")],
            _ => [otmodel::tag(b"abvs"), otmodel::tag(b"pres")],
        };
        let gsub = crate::c03::gsub_one_lookup_per_feature(&sl.done(), &feats);
        let cmap: Vec<(u32, u16)> = chars.iter().enumerate().map(|(k, c)| (*c, 1 + k as u16)).chain([(0x25CC, 4)]).collect();
        let bytes = otmodel::tables::minimal_font(8, &cmap, &[(tag::GSUB, gsub)]);
        let opts = PlanOpts { truncations: false, structure: false, layout_only: true, ..PlanOpts::full() };
        out.push((Seed { name: format!("synthetic/gsub-for-script-{}", String::from_utf8_lossy(script)), bytes, wrap: Wrap::Raw }, opts));
    }
    // contextual rules without lookup records (inert rules are legal): chaining format 3 in GSUB and GPOS, context format 3
    // in GSUB; one fault on a glyph count then meets a rule that nothing else would have rejected
    {
        use otmodel::be::W;
        let table = |feature: &[u8; 4], lookup_type: u16, subtable: Vec<u8>| -> Vec<u8> {
            let mut sl = W::new();
            sl.u16(2).tag(otmodel::tag(b"DFLT")).u16(14).tag(otmodel::tag(b"latn")).u16(14);
            sl.u16(4).u16(0).u16(0).u16(0xFFFF).u16(1).u16(0);
            let sl = sl.done();
            let mut fl = W::new();
            fl.u16(1).tag(otmodel::tag(feature)).u16(8).u16(0).u16(1).u16(0);
            let fl = fl.done();
            let mut ll = W::new();
            ll.u16(1).u16(4).u16(lookup_type).u16(0).u16(1).u16(8).bytes(&subtable);
            let ll = ll.done();
            let mut g = W::new();
            g.u16(1).u16(0).u16(10).u16((10 + sl.len()) as u16).u16((10 + sl.len() + fl.len()) as u16);
            g.bytes(&sl).bytes(&fl).bytes(&ll);
            g.done()
        };
        let chain3 = || {
            let mut w = W::new();
            // format 3, 0 backtrack, 1 input coverage (at 12), 0 lookahead, 0 lookup records; Coverage 1: [glyph 1]
            w.u16(3).u16(0).u16(1).u16(12).u16(0).u16(0).u16(1).u16(1).u16(1);
            w.done()
        };
        let ctx3 = || {
            let mut w = W::new();
            // format 3, 1 glyph, 0 lookup records, coverage at 8; Coverage 1: [glyph 1]
            w.u16(3).u16(1).u16(0).u16(8).u16(1).u16(1).u16(1);
            w.done()
        };
        // malformed from the start: an input sequence of zero glyphs (and no lookup records); every glyph count that a
        // reader indexes with [0] must have been checked by whoever parsed it
        let chain3_empty = || {
            let mut w = W::new();
            w.u16(3).u16(0).u16(0).u16(0).u16(0).u16(0).u16(0);
            w.done()
        };
        let ctx3_empty = || {
            let mut w = W::new();
            w.u16(3).u16(0).u16(0).u16(0).u16(0);
            w.done()
        };
        // a context rule whose first record deletes the matched glyph (MultipleSubst with an empty sequence) and whose
        // second record addresses the same sequence index: the bookkeeping of the matched length after a deletion
        let deleting_context = || {
            let mut sl = W::new();
            sl.u16(2).tag(otmodel::tag(b"DFLT")).u16(14).tag(otmodel::tag(b"latn")).u16(14);
            sl.u16(4).u16(0).u16(0).u16(0xFFFF).u16(1).u16(0);
            let sl = sl.done();
            let mut fl = W::new();
            fl.u16(1).tag(otmodel::tag(b"calt")).u16(8).u16(0).u16(1).u16(0);
            let fl = fl.done();
            // lookup 0: Context format 3, 1 glyph (coverage [1]), 2 records (0 -> lookup 1), (0 -> lookup 2)
            let mut l0 = W::new();
            l0.u16(5).u16(0).u16(1).u16(8);
            l0.u16(3).u16(1).u16(2).u16(14).u16(0).u16(1).u16(0).u16(2).u16(1).u16(1).u16(1);
            let l0 = l0.done();
            // lookup 1: MultipleSubst format 1, coverage [1], one Sequence with 0 glyphs
            let mut l1 = W::new();
            l1.u16(2).u16(0).u16(1).u16(8);
            l1.u16(1).u16(8).u16(1).u16(14).u16(1).u16(1).u16(1).u16(0);
            let l1 = l1.done();
            // lookup 2: SingleSubst format 1, coverage [1, 2], delta +2
            let mut l2 = W::new();
            l2.u16(1).u16(0).u16(1).u16(8);
            l2.u16(1).u16(6).i16(2).u16(1).u16(2).u16(1).u16(2);
            let l2 = l2.done();
            let mut ll = W::new();
            ll.u16(3).u16(8).u16((8 + l0.len()) as u16).u16((8 + l0.len() + l1.len()) as u16).bytes(&l0).bytes(&l1).bytes(&l2);
            let ll = ll.done();
            let mut g = W::new();
            g.u16(1).u16(0).u16(10).u16((10 + sl.len()) as u16).u16((10 + sl.len() + fl.len()) as u16);
            g.bytes(&sl).bytes(&fl).bytes(&ll);
            g.done()
        };
        // contextual lookups that invoke themselves: a rule (one input glyph, coverage [1]) whose lookup record names the lookup
        // it belongs to, and two chaining lookups that name each other; every kind of contextual lookup must use up the
        // nesting budget, whichever kinds the cycle is made of
        let chain3_calls = |lookup: u16| {
            let mut w = W::new();
            w.u16(3).u16(0).u16(1).u16(16).u16(0).u16(1).u16(0).u16(lookup).u16(1).u16(1).u16(1);
            w.done()
        };
        let ctx3_calls = |lookup: u16| {
            let mut w = W::new();
            w.u16(3).u16(1).u16(1).u16(12).u16(0).u16(lookup).u16(1).u16(1).u16(1);
            w.done()
        };
        let two_lookups = |feature: &[u8; 4], lookup_type: u16, a: Vec<u8>, b: Vec<u8>| -> Vec<u8> {
            let mut sl = W::new();
            sl.u16(2).tag(otmodel::tag(b"DFLT")).u16(14).tag(otmodel::tag(b"latn")).u16(14);
            sl.u16(4).u16(0).u16(0).u16(0xFFFF).u16(1).u16(0);
            let sl = sl.done();
            let mut fl = W::new();
            fl.u16(1).tag(otmodel::tag(feature)).u16(8).u16(0).u16(1).u16(0);
            let fl = fl.done();
            let mut l0 = W::new();
            l0.u16(lookup_type).u16(0).u16(1).u16(8).bytes(&a);
            let l0 = l0.done();
            let mut l1 = W::new();
            l1.u16(lookup_type).u16(0).u16(1).u16(8).bytes(&b);
            let l1 = l1.done();
            let mut ll = W::new();
            ll.u16(2).u16(6).u16((6 + l0.len()) as u16).bytes(&l0).bytes(&l1);
            let ll = ll.done();
            let mut g = W::new();
            g.u16(1).u16(0).u16(10).u16((10 + sl.len()) as u16).u16((10 + sl.len() + fl.len()) as u16);
            g.bytes(&sl).bytes(&fl).bytes(&ll);
            g.done()
        };
        let cmap = [(0x41u32, 1u16), (0x42, 2), (0x66, 3), (0x69, 4)];
        let opts = PlanOpts { truncations: false, structure: false, layout_only: true, ..PlanOpts::full() };
        for (name, tables) in [
            ("chain-context-3-whose-record-names-its-own-lookup-gsub+gpos", vec![(tag::GSUB, table(b"calt", 6, chain3_calls(0))), (tag::GPOS, table(b"kern", 8, chain3_calls(0)))]),
            ("context-3-whose-record-names-its-own-lookup-gsub+gpos", vec![(tag::GSUB, table(b"calt", 5, ctx3_calls(0))), (tag::GPOS, table(b"kern", 7, ctx3_calls(0)))]),
            ("two-chain-context-3-lookups-that-name-each-other-gsub+gpos", vec![(tag::GSUB, two_lookups(b"calt", 6, chain3_calls(1), chain3_calls(0))), (tag::GPOS, two_lookups(b"kern", 8, chain3_calls(1), chain3_calls(0)))]),
            ("context-3-and-chain-context-3-that-name-each-other-gsub", vec![(tag::GSUB, { let mut g = two_lookups(b"calt", 6, chain3_calls(1), ctx3_calls(0)); let ll = u16::from_be_bytes([g[8], g[9]]) as usize; let l1 = ll + u16::from_be_bytes([g[ll + 4], g[ll + 5]]) as usize; g[l1 + 1] = 5; g })]),
            ("context-3-first-record-deletes-the-glyph-second-addresses-it", vec![(tag::GSUB, deleting_context())]),
            ("malformed-chain-context-3-without-input-gsub+gpos", vec![(tag::GSUB, table(b"calt", 6, chain3_empty())), (tag::GPOS, table(b"kern", 8, chain3_empty()))]),
            ("malformed-context-3-without-input-gsub+gpos", vec![(tag::GSUB, table(b"calt", 5, ctx3_empty())), (tag::GPOS, table(b"kern", 7, ctx3_empty()))]),
            ("inert-chain-context-3-gsub+gpos", vec![(tag::GSUB, table(b"calt", 6, chain3())), (tag::GPOS, table(b"kern", 8, chain3()))]),
            ("inert-context-3-gsub+gpos", vec![(tag::GSUB, table(b"calt", 5, ctx3())), (tag::GPOS, table(b"kern", 7, ctx3()))]),
        ] {
            let bytes = otmodel::tables::minimal_font(6, &cmap, &tables);
            out.push((Seed { name: format!("synthetic/{}", name), bytes, wrap: Wrap::Raw }, opts.clone()));
        }
    }
    // GSUB 1.1 FeatureVariations behind an fvar (shaped with and without a tuple)
    {
        let opts = PlanOpts { truncations: false, structure: false, layout_only: true, ..PlanOpts::full() };
        out.push((Seed { name: "synthetic/gsub-feature-variations+fvar".into(), bytes: crate::c03::synthetic_variable_gsub_font(), wrap: Wrap::Raw }, opts));
    }
    // synthetic kern / layout seeds
    for (name, bytes) in crate::synth::seeds() {
        if name.starts_with("kern") {
            let opts = PlanOpts { truncations: false, structure: false, layout_only: true, ..PlanOpts::full() };
            out.push((Seed { name: format!("synthetic/{}", name), bytes, wrap: Wrap::Raw }, opts));
        }
    }
    out
}

/// Battery of the C02 worker: shape strings over the font's own cmap under several configurations.
pub fn shape_battery(data: &[u8]) -> crate::battery::Report {
    let mut rep = crate::battery::Report { panics: Vec::new(), loaded: false, outcome: 0xcbf29ce484222325, entries_run: 0 };
    let fd = match ReadScope::new(data).read::<FontData<'_>>() {
        Ok(f) => f,
        Err(_) => return rep,
    };
    let provider = match fd.table_provider(0) {
        Ok(p) => p,
        Err(_) => return rep,
    };
    let mut font: F<'_> = match guard(|| Font::new(provider)) {
        Ok(Ok(f)) => f,
        _ => return rep,
    };
    rep.loaded = true;
    // AOTS fonts: their lookups act on glyphs 17..27 = U+0011..U+001B (identity cmap) under script latn,
    // language UNKN, feature 'test'. Other seeds: whatever of these characters they map, else "AB".
    // the script of a font made for one complex script: its GSUB ScriptList has exactly one record
    let own_script: Option<u32> = otmodel::sfnt::parse(data).and_then(|f| f.table(tag::GSUB)).and_then(|g| {
        let sl = otmodel::be::u16_at(g, 4)? as usize;
        if otmodel::be::u16_at(g, sl)? != 1 {
            return None;
        }
        let t = otmodel::be::u32_at(g, sl + 2)?;
        [b"thai", b"arab", b"dev2", b"khmr", b"mym2", b"syrc"].iter().map(|s| otmodel::tag(*s)).find(|s| *s == t)
    });
    let script_chars: &[char] = match own_script.map(|t| t.to_be_bytes()) {
        Some([b't', b'h', b'a', b'i']) => &['\u{0E01}', '\u{0E34}', '\u{0E48}'],
        Some([b'a', b'r', b'a', b'b']) => &['\u{0628}', '\u{064E}', '\u{0644}'],
        Some([b'd', b'e', b'v', b'2']) => &['\u{0915}', '\u{094D}', '\u{0937}'],
        Some([b'k', b'h', b'm', b'r']) => &['\u{1780}', '\u{17D2}', '\u{1798}'],
        Some([b'm', b'y', b'm', b'2']) => &['\u{1000}', '\u{1039}', '\u{1019}'],
        Some([b's', b'y', b'r', b'c']) => &['\u{0712}', '\u{0730}', '\u{0720}'],
        _ => &[],
    };
    let mapped: Vec<char> = script_chars.iter().copied().chain('\u{11}'..='\u{1B}').chain("ABfi".chars()).filter(|c| guard(|| font.lookup_glyph_index(*c, MatchingPresentation::NotRequired, None).0).map_or(false, |g| g != 0)).take(8).collect();
    let mut texts: Vec<String> = Vec::new();
    for a in &mapped {
        texts.push(a.to_string());
        for b in &mapped {
            texts.push(format!("{}{}", a, b));
        }
    }
    let all: String = mapped.iter().collect();
    for k in 3..=mapped.len() {
        texts.push(all.chars().take(k).collect());
        texts.push(all.chars().rev().take(k).collect());
    }
    if std::env::var("VERIF_TIER").as_deref() == Ok("thorough") {
        for a in mapped.iter().take(6) {
            for b in mapped.iter().take(6) {
                for c in mapped.iter().take(6) {
                    texts.push(format!("{}{}{}", a, b, c));
                }
            }
        }
    }
    if texts.is_empty() {
        texts.push("AB".into());
    }
    let n = font.num_glyphs();
    let unkn = otmodel::tag(b"UNKN");
    let mut cfgs = vec![(5u8, tag::LATN, Some(unkn), true), (5, tag::DFLT, None, false), (0, tag::LATN, None, true)];
    if let Some(t) = own_script {
        // the shaping-model script tag the shaper dispatches on
        let shaper_tag = match &t.to_be_bytes() { b"dev2" => tag::DEVA, b"mym2" => tag::MYMR, _ => t };
        cfgs = vec![(0u8, shaper_tag, None, true), (0, t, None, false)];
    }
    // a variable font is also shaped at a variation tuple (feature variations: condition sets and feature table
    // substitutions are only read then): the normalised tuple of every axis at its maximum
    let owned_tuple = otmodel::sfnt::parse(data).and_then(|f| f.table(tag::FVAR)).and_then(|fv| {
        let fvar = ReadScope::new(fv).read::<allsorts::tables::variable_fonts::fvar::FvarTable<'_>>().ok()?;
        let user: Vec<allsorts::tables::Fixed> = fvar.axes().map(|a| a.max_value).collect();
        guard(|| fvar.normalize(user.iter().copied(), None)).ok()?.ok()
    });
    let tuple_modes: &[bool] = if owned_tuple.is_some() { &[false, true] } else { &[false] };
    for text in &texts {
        for &(fk, script, lang, kerning) in &cfgs {
          for &with_tuple in tuple_modes {
            rep.entries_run += 1;
            crate::isolate::set_entry("Font::shape(corrupt-layout)");
            let r = guard(|| {
                let glyphs = font.map_glyphs(text, script, MatchingPresentation::NotRequired);
                let input: Vec<char> = glyphs.iter().flat_map(|g| g.unicodes.iter().copied()).collect();
                let tuple = if with_tuple { owned_tuple.as_ref().map(|t| t.as_tuple()) } else { None };
                let (infos, ok) = match font.shape(glyphs, script, lang, &features(fk), tuple, kerning) {
                    Ok(i) => (i, true),
                    Err((_, i)) => (i, false),
                };
                for (dir, v) in [(TextDirection::LeftToRight, false), (TextDirection::RightToLeft, false), (TextDirection::LeftToRight, true)] {
                    let _ = GlyphLayout::new(&mut font, &infos, dir, v).glyph_positions();
                }
                let _ = ok;
                (check_run(&input, &infos, None), infos.len(), infos.iter().map(|i| i.glyph.glyph_index as u64 + mcx::H::new().str(&format!("{:?}{}", i.placement, i.kerning)).get() % 1000003).sum::<u64>())
            });
            match r {
                Err(p) => {
                    if !rep.panics.iter().any(|(_, q)| q.file == p.file && q.line == p.line) {
                        rep.panics.push(("Font::shape(corrupt-layout)", p));
                    }
                }
                Ok((chk, l, sum)) => {
                    rep.outcome = H(rep.outcome).u64(l as u64).u64(sum).0;
                    if let Err((kind, why)) = chk {
                        // report as a synthetic "panic" record so that it travels through the worker protocol
                        let kind_static: &'static str = if kind.starts_with("attachment") { "attachment-outside-run" } else { "foreign-character-attributed" };
                        if !rep.panics.iter().any(|(e, _)| *e == kind_static) {
                            rep.panics.push((kind_static, mcx::PanicInfo { msg: why, file: format!("oracle/{}", kind_static), line: 0, col: 0 }));
                        }
                    }
                }
            }
          }
        }
    }
    let _ = n;
    rep
}

pub fn run(ctx: &Ctx) {
    ctx.set_rule(
        "text part: case = (script, fixture font, string, configuration); all strings up to the length bound over the script's alphabet \
         (one representative per syllable-machine class + foreigners) x configurations within the deviation bound (features Mask default/all/empty, \
         Custom empty/list; language None/DFLT/specific; kerning; direction; vertical; unmapped script tag); non-trivial = a run whose glyph \
         count changed or that carries positioning. fault part: case = (AOTS font, one byte/u16 fault inside GSUB/GPOS/GDEF/kern/morx) shaped \
         with all strings of length <= 3 over up to 6 characters the font maps",
    );
    ctx.assume("characters attributed to output glyphs are compared as a set against the characters of the glyph run submitted to shape (map_glyphs output) plus U+25CC");
    ctx.assume("glyph ids are compared with maxp.numGlyphs only when shape returned Ok on an intact font");
    run_text(ctx);
    let tier = ctx.tier.name();
    let all = layout_seeds(tier);
    let cap = if ctx.tier.thorough() { 2400.0 } else { 55.0 };
    crate::c01::sweep(ctx, "C02", "c02-worker", &all, tier, cap);
    ctx.set("bounds", json!({"string_len_full_alphabet": if ctx.tier.thorough() {5} else {4}, "string_len_core_alphabet": if ctx.tier.thorough() {6} else {5}, "config_deviations": if ctx.tier.thorough() {2} else {1}, "layout_faults": 1}));
}

pub fn replay(w: &Value) -> Result<(), String> {
    if w.get("seed_index").is_some() {
        return crate::c01::replay_with(w, "c02-worker");
    }
    let name = w["script"].as_str().ok_or("no script")?;
    let sc = SCRIPTS.iter().find(|s| s.name == name).ok_or("unknown script")?;
    let fontname = w["font"].as_str().ok_or("no font")?;
    let text: String = w["text"].as_array().ok_or("no text")?.iter().filter_map(|c| c.as_str()).filter_map(|c| u32::from_str_radix(c.trim_start_matches("U+"), 16).ok()).filter_map(char::from_u32).collect();
    let data = crate::util::fixture(fontname);
    let ctx = Ctx::new("C02", mcx::Tier::Quick, "model_checking");
    let fi = sc.fonts.iter().position(|f| *f == fontname).unwrap_or(0);
    let si = SCRIPTS.iter().position(|s| s.name == name).unwrap();
    // re-run the single string under every configuration with <= 2 deviations and under the FRAC configurations
    let mut cfgs = configs(2);
    for kerning in [true, false] {
        cfgs.push(Config { feats: 6, lang: 0, kerning, rtl: false, vertical: false, script_alt: false });
    }
    let job = Job { script: si, font: fi, alpha: Vec::new(), len: 0, start: 0, end: 1, cfg_bound: 2, texts: Some(std::sync::Arc::new(vec![text])), tag_override: w["script_tag_override"].as_u64().map(|t| t as u32) };
    run_job(&ctx, &job, &data, &cfgs);
    let keys = ctx.violation_keys();
    if keys.is_empty() {
        Ok(())
    } else {
        Err(format!("{:?}", keys))
    }
}
