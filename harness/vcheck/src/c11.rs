//! C11 — WOFF2 decoding reconstructs the original font.
//!
//! Bounded exhaustive exploration of (model font x encoder choices). The fonts are produced by the
//! independent WOFF2 encoder `otmodel::woff2enc` (written from the W3C recommendation, stored-block
//! brotli stream); allsorts decodes them through `Woff2Font` / `FontData` and every table it returns is
//! compared with the model: untransformed tables byte for byte, reconstructed glyf/loca/hmtx through the
//! independent readers (`woff2enc::parse_glyph`, `otmodel::read::{loca_offsets, hmtx_metrics}`).
//! The variable length integer readers are checked directly and exhaustively.

use allsorts::binary::read::ReadScope;
use allsorts::font_data::FontData;
use allsorts::tables::FontTableProvider;
use allsorts::woff2::{PackedU16, U32Base128, Woff2Font};
use mcx::{explore_par, guard, Chooser, Ctx, PanicInfo, H};
use otmodel::read::{hmtx_metrics, loca_offsets};
use otmodel::woff2enc::{self as enc, Args, Collection, CollectionFont, Component, Entry, Glyph, GlyfChoices, Pt, Scale, U255Mode, U255_MODES};
use otmodel::{sfnt, tables, tag, tag_str};
use rayon::prelude::*;
use serde_json::{json, Map, Value};
use std::collections::{BTreeMap, BTreeSet};

const GLYF: u32 = tag(b"glyf");
const LOCA: u32 = tag(b"loca");
const HMTX: u32 = tag(b"hmtx");
const HEAD: u32 = tag(b"head");

/// line-number independent panic site, also when allsorts is built from a scratch copy of the repository
fn site(p: &PanicInfo) -> String {
    match p.file.rfind("/src/") {
        Some(i) if p.file.starts_with('/') => p.site_key(&p.file[..i]),
        _ => p.site_key(crate::util::REPO),
    }
}

// ------------------------------------------------------------------------------------------------ model

#[derive(Clone, Debug)]
struct Model {
    flavor: u32,
    /// TrueType outlines; empty for a CFF flavoured font
    glyphs: Vec<Glyph>,
    cff: Option<Vec<u8>>,
    num_glyphs: usize,
    metrics: Vec<(u16, i16)>,
    nhm: usize,
    long_loca: bool,
    extra: Vec<(u32, Vec<u8>)>,
}

fn pt(x: i16, y: i16, on: bool) -> Pt {
    Pt { x, y, on }
}

/// lsb pattern: bit 0 = the first numberOfHMetrics side bearings equal xMin, bit 1 = the remaining ones do
fn metrics_for(glyphs: &[Glyph], nhm: usize, pattern: u8) -> Vec<(u16, i16)> {
    glyphs
        .iter()
        .enumerate()
        .map(|(i, g)| {
            let matches = if i < nhm { pattern & 1 != 0 } else { pattern & 2 != 0 };
            let lsb = if matches { g.x_min() } else { g.x_min().wrapping_add(7 + i as i16) };
            // glyphs from numberOfHMetrics on share the last advance
            let adv = ((500 + 10 * i.min(nhm - 1)) % 60001) as u16;
            (adv, lsb)
        })
        .collect()
}

fn ttf_model(glyphs: Vec<Glyph>, nhm: usize, pattern: u8, long_loca: bool) -> Model {
    let n = glyphs.len();
    let nhm = nhm.clamp(1, n);
    let metrics = metrics_for(&glyphs, nhm, pattern);
    Model { flavor: sfnt::TTF, glyphs, cff: None, num_glyphs: n, metrics, nhm, long_loca, extra: Vec::new() }
}

/// The original font's tables (tag order).
fn orig_tables(m: &Model) -> Vec<(u32, Vec<u8>)> {
    let n = m.num_glyphs as u16;
    let mut head = tables::head(1000, if m.long_loca { 1 } else { 0 });
    // a WOFF2 encoder sets bit 11 of head.flags ("font data is lossless as a result of a transform")
    head[16] |= 0x08;
    let mut t: Vec<(u32, Vec<u8>)> = vec![
        (HEAD, head),
        (tag(b"hhea"), tables::hhea(m.nhm as u16)),
        (HMTX, enc::plain_hmtx(&m.metrics, m.nhm)),
        (tag(b"cmap"), tables::cmap_table(&[(3, 1, tables::cmap4_subtable(&[(0x41, 1.min(n.saturating_sub(1)))]))])),
        (tag(b"post"), tables::post3()),
    ];
    match &m.cff {
        Some(c) => {
            t.push((tag(b"maxp"), tables::maxp_05(n)));
            t.push((tag(b"CFF "), c.clone()));
        }
        None => {
            t.push((tag(b"maxp"), tables::maxp_10(n)));
            let (glyf, loca) = enc::build_glyf_loca(&m.glyphs, m.long_loca);
            t.push((GLYF, glyf));
            t.push((LOCA, loca));
        }
    }
    for e in &m.extra {
        t.push(e.clone());
    }
    t.sort_by_key(|x| x.0);
    t
}

// ------------------------------------------------------------------------------------------------ encoder choices

#[derive(Clone, Debug)]
struct EncCh {
    glyf_transform: bool,
    /// 0 = hmtx stored untransformed, 1..=3 = transform version 1 with these flags
    hmtx_flags: u8,
    gc: GlyfChoices,
    /// write every tag in the explicit (flag 63 + tag) form
    explicit_tags: bool,
    /// 0 = tag order, 1 = reversed, 2 = rotated by one (loca is always moved right behind glyf)
    order: u8,
}

impl EncCh {
    fn plain(m: &Model) -> EncCh {
        EncCh { glyf_transform: true, hmtx_flags: 0, gc: GlyfChoices::plain(if m.long_loca { 1 } else { 0 }), explicit_tags: false, order: 0 }
    }
}

fn order_tables(mut e: Vec<Entry>, order: u8) -> Vec<Entry> {
    e.sort_by_key(|x| x.tag);
    match order {
        1 => e.reverse(),
        2 => e.rotate_left(1),
        _ => {}
    }
    if let Some(li) = e.iter().position(|x| x.tag == LOCA) {
        let loca = e.remove(li);
        if let Some(gi) = e.iter().position(|x| x.tag == GLYF) {
            e.insert(gi + 1, loca);
        } else {
            e.push(loca);
        }
    }
    e
}

/// Table directory entries for one font. Returns (entries, tags that were transformed).
fn encode_entries(m: &Model, orig: &[(u32, Vec<u8>)], ch: &EncCh) -> (Vec<Entry>, Vec<u32>) {
    let mut out = Vec::new();
    let mut transformed = Vec::new();
    for (t, d) in orig {
        let mut e = Entry::plain(*t, d);
        if *t == GLYF && ch.glyf_transform {
            let (bytes, _) = enc::transform_glyf(&m.glyphs, &ch.gc);
            e.stored = bytes;
            e.version = 0;
            transformed.push(GLYF);
        } else if *t == LOCA && ch.glyf_transform {
            e.stored = Vec::new();
            e.version = 0;
            transformed.push(LOCA);
        } else if *t == HMTX && ch.hmtx_flags != 0 {
            e.stored = enc::transform_hmtx(&m.metrics, m.nhm, ch.hmtx_flags);
            e.version = 1;
            transformed.push(HMTX);
        }
        e.explicit_tag = ch.explicit_tags;
        out.push(e);
    }
    (order_tables(out, ch.order), transformed)
}

// ------------------------------------------------------------------------------------------------ expectation + comparison

#[derive(Clone, Debug)]
struct Expect {
    tables: Vec<(u32, Vec<u8>)>,
    transformed: Vec<u32>,
    glyphs: Vec<Glyph>,
    metrics: Vec<(u16, i16)>,
    num_glyphs: usize,
    nhm: usize,
    /// tags this font does not have and that must be reported absent (for a collection member: every tag that
    /// only other members have)
    probe_absent: Vec<u32>,
}

/// tags probed for absence in every font that lacks them
const DEFAULT_ABSENT: [u32; 8] = [tag(b"none"), tag(b"GDEF"), tag(b"cvt "), tag(b"CFF "), tag(b"glyf"), tag(b"loca"), tag(b"zzzz"), tag(b"fpgm")];

fn absent_for(own: &[(u32, Vec<u8>)], others: &[u32]) -> Vec<u32> {
    let mut v: Vec<u32> = DEFAULT_ABSENT.iter().chain(others.iter()).copied().filter(|t| !own.iter().any(|o| o.0 == *t)).collect();
    v.sort();
    v.dedup();
    v
}

fn expect_of(m: &Model, orig: &[(u32, Vec<u8>)], transformed: &[u32]) -> Expect {
    Expect { tables: orig.to_vec(), transformed: transformed.to_vec(), glyphs: m.glyphs.clone(), metrics: m.metrics.clone(), num_glyphs: m.num_glyphs, nhm: m.nhm, probe_absent: absent_for(orig, &[]) }
}

type Got = BTreeMap<u32, Vec<u8>>;

/// distinct results of font cases (the framework's outcome counter also contains the integer families)
static FONT_OUTCOMES: std::sync::Mutex<BTreeSet<u64>> = std::sync::Mutex::new(BTreeSet::new());

fn glyph_json(g: &Glyph) -> Value {
    match g {
        Glyph::Empty => json!("empty"),
        Glyph::Simple { bbox, contours, instr, overlap } => json!({
            "bbox": bbox, "overlap": overlap, "instructions": instr,
            "contours": contours.iter().map(|c| c.iter().map(|p| json!([p.x, p.y, p.on])).collect::<Vec<_>>()).collect::<Vec<_>>(),
        }),
        Glyph::Composite { bbox, comps, instr } => json!({
            "bbox": bbox, "instructions": instr,
            "components": comps.iter().map(|c| format!("{:?}", c)).collect::<Vec<_>>(),
        }),
    }
}

/// Compare one glyph with the model; returns the failure class and a description.
fn glyph_diff(want: &Glyph, got: &Glyph) -> Option<(&'static str, String)> {
    match (want, got) {
        (Glyph::Empty, Glyph::Empty) => None,
        (Glyph::Simple { bbox: wb, contours: wc, instr: wi, .. }, Glyph::Simple { bbox: gb, contours: gc, instr: gi, .. }) => {
            let wl: Vec<usize> = wc.iter().map(|c| c.len()).collect();
            let gl: Vec<usize> = gc.iter().map(|c| c.len()).collect();
            if wl != gl {
                return Some(("glyf:contours", format!("contour sizes {:?}, expected {:?}", gl, wl)));
            }
            for (a, b) in wc.iter().flatten().zip(gc.iter().flatten()) {
                if (a.x, a.y) != (b.x, b.y) {
                    return Some(("glyf:points", format!("point ({}, {}), expected ({}, {})", b.x, b.y, a.x, a.y)));
                }
            }
            for (a, b) in wc.iter().flatten().zip(gc.iter().flatten()) {
                if a.on != b.on {
                    return Some(("glyf:on-curve", format!("point ({}, {}) on-curve {}, expected {}", a.x, a.y, b.on, a.on)));
                }
            }
            if wi != gi {
                return Some(("glyf:instructions", format!("instructions {:?}, expected {:?}", gi, wi)));
            }
            if wb != gb {
                return Some(("glyf:bbox", format!("bbox {:?}, expected {:?}", gb, wb)));
            }
            None
        }
        (Glyph::Composite { bbox: wb, comps: wc, instr: wi }, Glyph::Composite { bbox: gb, comps: gc, instr: gi }) => {
            if wc != gc {
                return Some(("glyf:components", format!("components {:?}, expected {:?}", gc, wc)));
            }
            if wi != gi {
                return Some(("glyf:composite-instructions", format!("instructions {:?}, expected {:?}", gi, wi)));
            }
            if wb != gb {
                return Some(("glyf:bbox", format!("composite bbox {:?}, expected {:?}", gb, wb)));
            }
            None
        }
        _ => Some(("glyf:glyph-kind", format!("got {}, expected {}", kind(got), kind(want)))),
    }
}

fn kind(g: &Glyph) -> &'static str {
    match g {
        Glyph::Empty => "empty",
        Glyph::Simple { .. } => "simple",
        Glyph::Composite { .. } => "composite",
    }
}

#[derive(Default)]
struct Notes {
    overlap_kept: u64,
    overlap_lost: u64,
}

/// All disagreements between what allsorts returned and the model: (key suffix, details).
fn compare(got: &Got, exp: &Expect, notes: &mut Notes) -> Vec<(String, Value)> {
    let mut v: Vec<(String, Value)> = Vec::new();
    let want_tags: BTreeSet<u32> = exp.tables.iter().map(|t| t.0).collect();
    let got_tags: BTreeSet<u32> = got.keys().copied().collect();
    if want_tags != got_tags {
        v.push(("table-set".into(), json!({"expected": want_tags.iter().map(|t| tag_str(*t)).collect::<Vec<_>>(), "got": got_tags.iter().map(|t| tag_str(*t)).collect::<Vec<_>>()})));
    }
    let is_t = |t: u32| exp.transformed.contains(&t);
    let any_transform = !exp.transformed.is_empty();
    for (t, d) in &exp.tables {
        let g = match got.get(t) {
            Some(g) => g,
            None => continue, // reported by table-set
        };
        if (*t == GLYF || *t == LOCA) && is_t(GLYF) {
            continue;
        }
        if *t == HMTX && is_t(HMTX) {
            match hmtx_metrics(g, exp.num_glyphs as u16, exp.nhm as u16) {
                Some(ms) if ms == exp.metrics => {}
                Some(ms) => {
                    let i = (0..ms.len()).find(|&i| ms[i] != exp.metrics[i]).unwrap();
                    // documented deviation K1: the elided leftSideBearing[] array (glyphs from numberOfHMetrics on) is
                    // rebuilt from the xMin of glyphs 0, 1, 2, .. instead of glyphs numberOfHMetrics, numberOfHMetrics + 1, ..
                    let k1: Vec<(u16, i16)> = (0..exp.metrics.len())
                        .map(|g| if g >= exp.nhm && g - exp.nhm < exp.glyphs.len() { (exp.metrics[g].0, exp.glyphs[g - exp.nhm].x_min()) } else { exp.metrics[g] })
                        .collect();
                    let key = if exp.nhm < exp.num_glyphs && ms == k1 { "hmtx:elided-leftSideBearing-rebuilt-from-glyph-0-instead-of-numberOfHMetrics" } else { "hmtx:metrics" };
                    v.push((key.into(), json!({"glyph": i, "numberOfHMetrics": exp.nhm, "got": [ms[i].0 as i64, ms[i].1 as i64], "expected": [exp.metrics[i].0 as i64, exp.metrics[i].1 as i64], "hmtx_len": g.len()})));
                }
                None => v.push(("hmtx:too-short".into(), json!({"length": g.len(), "numGlyphs": exp.num_glyphs, "numberOfHMetrics": exp.nhm}))),
            }
            continue;
        }
        if *t == HEAD && any_transform {
            // the decoder rewrites head: checkSumAdjustment (8..12) is recomputed and indexToLocFormat (50..52)
            // follows the reconstructed loca; every other field has to survive
            let same = g.len() == d.len() && g.len() >= 54 && g[..8] == d[..8] && g[12..50] == d[12..50] && g[52..] == d[52..];
            if !same {
                v.push(("head:fields-changed".into(), json!({"expected": mcx::hex(d), "got": mcx::hex(g)})));
            }
            continue;
        }
        if g != d {
            v.push(("untransformed-table-differs".into(), json!({"tag": tag_str(*t), "expected_len": d.len(), "got_len": g.len(), "expected": mcx::hex(&d[..d.len().min(256)]), "got": mcx::hex(&g[..g.len().min(256)])})));
        }
    }
    if is_t(GLYF) {
        if let (Some(head), Some(loca), Some(glyf)) = (got.get(&HEAD), got.get(&LOCA), got.get(&GLYF)) {
            let fmt = if head.len() >= 52 { i16::from_be_bytes([head[50], head[51]]) } else { -1 };
            if fmt != 0 && fmt != 1 {
                v.push(("head:indexToLocFormat".into(), json!({"got": fmt})));
                return v;
            }
            let n = exp.num_glyphs;
            let want_len = (n + 1) * if fmt == 1 { 4 } else { 2 };
            let offs = match loca_offsets(loca, n as u16, fmt == 1) {
                Some(o) if loca.len() == want_len => o,
                _ => {
                    v.push(("loca:length-inconsistent-with-head".into(), json!({"indexToLocFormat": fmt, "loca_len": loca.len(), "expected_len": want_len, "glyf_len": glyf.len()})));
                    return v;
                }
            };
            if offs.windows(2).any(|w| w[1] < w[0]) || *offs.last().unwrap() as usize > glyf.len() {
                v.push(("loca:offsets".into(), json!({"indexToLocFormat": fmt, "last": offs.last(), "glyf_len": glyf.len()})));
                return v;
            }
            // up to three bytes of table padding behind the last glyph are harmless
            if glyf.len() - (*offs.last().unwrap() as usize) > 3 {
                v.push(("loca:last-offset-is-not-glyf-length".into(), json!({"indexToLocFormat": fmt, "last": offs.last(), "glyf_len": glyf.len()})));
            }
            for i in 0..n {
                let rec = &glyf[offs[i] as usize..offs[i + 1] as usize];
                match enc::parse_glyph(rec) {
                    Err(e) => {
                        v.push(("glyf:unparsable".into(), json!({"glyph": i, "error": e, "record": mcx::hex(&rec[..rec.len().min(128)])})));
                        break;
                    }
                    Ok(g) => {
                        if let Some((k, what)) = glyph_diff(&exp.glyphs[i], &g) {
                            v.push((k.into(), json!({"glyph": i, "what": what, "model": glyph_json(&exp.glyphs[i]), "reconstructed": glyph_json(&g)})));
                            break;
                        }
                        if let (Glyph::Simple { overlap: true, .. }, Glyph::Simple { overlap, .. }) = (&exp.glyphs[i], &g) {
                            if *overlap {
                                notes.overlap_kept += 1;
                            } else {
                                notes.overlap_lost += 1;
                            }
                        }
                    }
                }
            }
        }
    }
    v
}

// ------------------------------------------------------------------------------------------------ seams

/// Decode `file` with allsorts through seam `seam` (0 = Woff2Font, 1 = FontData) and collect every table of font `index`.
fn decode(file: &[u8], index: usize, seam: u8, tags: &[u32]) -> Result<Result<Got, String>, PanicInfo> {
    guard(|| -> Result<Got, String> {
        let mut got = Got::new();
        let mut take = |p: &dyn FontTableProvider| -> Result<(), String> {
            let mut all: Vec<u32> = p.table_tags().ok_or("table_tags() is None")?;
            all.sort();
            for t in tags {
                if !all.contains(t) && p.has_table(*t) {
                    return Err(format!("has_table({}) but not in table_tags", tag_str(*t)));
                }
            }
            for t in all {
                if !p.has_table(t) {
                    return Err(format!("table_tags lists {} but has_table is false", tag_str(t)));
                }
                match p.table_data(t) {
                    Ok(Some(d)) => {
                        got.insert(t, d.into_owned());
                    }
                    o => return Err(format!("table_data({}) = {:?}", tag_str(t), o.map(|x| x.map(|c| c.len())))),
                }
            }
            Ok(())
        };
        if seam == 0 {
            let f = ReadScope::new(file).read::<Woff2Font<'_>>().map_err(|e| format!("read: Woff2Font::read: {:?}", e))?;
            let p = f.table_provider(index).map_err(|e| format!("table_provider: {:?}", e))?;
            take(&p)?;
        } else {
            let f = ReadScope::new(file).read::<FontData<'_>>().map_err(|e| format!("read: FontData::read: {:?}", e))?;
            let p = f.table_provider(index).map_err(|e| format!("table_provider: {:?}", e))?;
            take(&p)?;
        }
        Ok(got)
    })
}

/// Every way of asking font `index` for a tag it does not have must say "absent". Returns the complaints.
fn probe_absent(file: &[u8], index: usize, absent: &[u32]) -> Result<Vec<String>, PanicInfo> {
    guard(|| {
        let mut bad = Vec::new();
        let ask = |bad: &mut Vec<String>, seam: &str, p: &dyn FontTableProvider| {
            for t in absent {
                if p.has_table(*t) {
                    bad.push(format!("{}: has_table({}) is true", seam, tag_str(*t)));
                }
                match p.table_data(*t) {
                    Ok(None) => {}
                    o => bad.push(format!("{}: table_data({}) = {:?}", seam, tag_str(*t), o.map(|x| x.map(|c| c.len())))),
                }
                if p.read_table_data(*t).is_ok() {
                    bad.push(format!("{}: read_table_data({}) is Ok", seam, tag_str(*t)));
                }
            }
        };
        if let Ok(f) = ReadScope::new(file).read::<Woff2Font<'_>>() {
            if let Ok(p) = f.table_provider(index) {
                ask(&mut bad, "Woff2Font", &p);
            }
            for t in absent {
                match f.read_table(*t, index) {
                    Ok(None) => {}
                    o => bad.push(format!("Woff2Font::read_table({}, {}) = {:?}", tag_str(*t), index, o.map(|x| x.map(|b| b.scope().data().len())))),
                }
                if f.find_table_entry(*t, index).is_some() {
                    bad.push(format!("Woff2Font::find_table_entry({}, {}) is Some", tag_str(*t), index));
                }
            }
        }
        if let Ok(f) = ReadScope::new(file).read::<FontData<'_>>() {
            if let Ok(p) = f.table_provider(index) {
                ask(&mut bad, "FontData", &p);
            }
        }
        bad
    })
}

fn hex_tables(t: &[(u32, Vec<u8>)]) -> Value {
    let mut m = Map::new();
    for (tg, d) in t {
        m.insert(tag_str(*tg), json!(mcx::hex(d)));
    }
    Value::Object(m)
}

fn witness(file: &[u8], index: usize, exp: &Expect, what: &Value, detail: Value) -> Value {
    json!({
        "kind": "font", "what": what, "detail": detail, "index": index,
        "transformed": exp.transformed.iter().map(|t| tag_str(*t)).collect::<Vec<_>>(),
        "numberOfHMetrics": exp.nhm, "numGlyphs": exp.num_glyphs,
        "absent_probe": exp.probe_absent.iter().map(|t| tag_str(*t)).collect::<Vec<_>>(),
        "orig_tables": hex_tables(&exp.tables),
        "file_hex": mcx::hex(file),
    })
}

/// deltas of -32768 present in a glyph set (the encoder writes them with magnitude 32768)
fn has_min_delta(glyphs: &[Glyph]) -> bool {
    glyphs.iter().any(|g| match g {
        Glyph::Simple { contours, .. } => {
            let (mut px, mut py) = (0i32, 0i32);
            contours.iter().flatten().any(|p| {
                let r = p.x as i32 - px == -32768 || p.y as i32 - py == -32768;
                px = p.x as i32;
                py = p.y as i32;
                r
            })
        }
        _ => false,
    })
}

#[derive(Clone, Copy, Default)]
struct Lenient {
    /// version 1 hmtx next to an untransformed glyf: a clean rejection is accepted (see assumptions)
    hmtx_without_glyf_transform: bool,
}

/// Run both seams on one font of one file and report. Returns a hash of what allsorts produced.
fn check_font(ctx: &Ctx, file: &[u8], index: usize, exp: &Expect, len: Lenient, what: &dyn Fn() -> Value) -> u64 {
    let tags: Vec<u32> = exp.tables.iter().map(|t| t.0).collect();
    let mut out = H::new();
    let pfx = if len.hmtx_without_glyf_transform { "C11:hmtx-transform-with-untransformed-glyf:" } else { "C11:" };
    for seam in 0..2u8 {
        ctx.evals(1);
        match decode(file, index, seam, &tags) {
            Err(p) => {
                let s = site(&p);
                let key = if len.hmtx_without_glyf_transform && p.msg.contains("unreachable") {
                    "C11:hmtx-transform-with-untransformed-glyf:panic-unreachable".to_string()
                } else if len.hmtx_without_glyf_transform {
                    format!("{}panic:{}", pfx, s)
                } else if exp.num_glyphs > 65504 && s.contains("num_glyphs + 31") {
                    "C11:numGlyphs>65504:bbox-bitmap-size-overflows-u16".to_string()
                } else if has_min_delta(&exp.glyphs) && s.contains("lut.rs") && p.msg.contains("negate") {
                    "C11:delta-of-minus-32768:XYTriplet-negation-overflows".to_string()
                } else {
                    format!("C11:panic:{}", s)
                };
                ctx.violation(&key, || witness(file, index, exp, &what(), json!({"seam": seam, "panic": p.msg, "at": p.loc()})));
                out = out.str("panic").str(&s);
            }
            Ok(Err(e)) => {
                out = out.str(&e);
                if len.hmtx_without_glyf_transform {
                    continue;
                }
                let stage = e.split(':').next().unwrap_or("?").to_string();
                ctx.violation(&format!("C11:conforming-file-rejected:{}", stage), || witness(file, index, exp, &what(), json!({"seam": seam, "error": e})));
            }
            Ok(Ok(got)) => {
                let mut notes = Notes::default();
                for (k, d) in compare(&got, exp, &mut notes) {
                    // a reconstruction that succeeds is judged like any other, whatever the transform combination
                    ctx.violation(&format!("C11:{}", k), || witness(file, index, exp, &what(), json!({"seam": seam, "mismatch": d})));
                }
                if seam == 0 {
                    if notes.overlap_kept > 0 {
                        ctx.bump("note_overlap_simple_bit_preserved_glyphs", notes.overlap_kept);
                    }
                    if notes.overlap_lost > 0 {
                        ctx.bump("note_overlap_simple_bit_dropped_glyphs", notes.overlap_lost);
                    }
                }
                for t in [GLYF, LOCA, HMTX, HEAD] {
                    if let Some(d) = got.get(&t) {
                        out = out.bytes(d);
                    }
                }
            }
        }
    }
    // tags the font does not have (in a collection: tables of the other members) are absent through every accessor
    match probe_absent(file, index, &exp.probe_absent) {
        Ok(bad) => {
            if let Some(first) = bad.first() {
                ctx.violation("C11:absent-table-served", || witness(file, index, exp, &what(), json!({"first": first, "all": bad.iter().take(12).collect::<Vec<_>>()})));
                out = out.str(first);
            }
        }
        Err(p) => ctx.violation(&format!("C11:panic:{}", site(&p)), || witness(file, index, exp, &what(), json!({"seam": "absent-probe", "panic": p.msg}))),
    }
    // raw access to stored tables: an untransformed table is returned as stored
    if !len.hmtx_without_glyf_transform {
        let r = guard(|| -> Result<(), String> {
            let f = ReadScope::new(file).read::<Woff2Font<'_>>().map_err(|e| format!("{:?}", e))?;
            for (t, d) in &exp.tables {
                if exp.transformed.contains(t) {
                    continue;
                }
                match f.read_table(*t, index) {
                    Ok(Some(b)) if b.scope().data() == &d[..] => {}
                    o => return Err(format!("read_table({}) = {:?}", tag_str(*t), o.map(|x| x.map(|b| b.scope().data().len())))),
                }
            }
            Ok(())
        });
        match r {
            Ok(Ok(())) => {}
            Ok(Err(e)) => ctx.violation("C11:read_table:stored-table-differs", || witness(file, index, exp, &what(), json!({"error": e}))),
            Err(p) => ctx.violation(&format!("C11:panic:{}", site(&p)), || witness(file, index, exp, &what(), json!({"seam": "read_table", "panic": p.msg}))),
        }
    }
    out.get()
}

/// Encode a single font with the given choices, decode, compare.
fn run_single(ctx: &Ctx, m: &Model, ch: &EncCh, meta: bool, private: bool, what: &dyn Fn() -> Value) {
    let orig = orig_tables(m);
    let (entries, transformed) = encode_entries(m, &orig, ch);
    let file = enc::build_woff2(m.flavor, &entries, None, if meta { Some(&b"<metadata/>"[..]) } else { None }, if private { Some(&[9, 8, 7][..]) } else { None });
    let exp = expect_of(m, &orig, &transformed);
    let len = Lenient { hmtx_without_glyf_transform: ch.hmtx_flags != 0 && !ch.glyf_transform };
    let o = check_font(ctx, &file, 0, &exp, len, what);
    let h = H::new().bytes(&file).get();
    if !transformed.is_empty() {
        ctx.mark_nontrivial(h);
    }
    ctx.mark_outcome(o);
    FONT_OUTCOMES.lock().unwrap().insert(o);
    ctx.sample(h, || {
        json!({"case": what(), "transformed": transformed.iter().map(|t| tag_str(*t)).collect::<Vec<_>>(), "file_bytes": file.len(),
               "directory": entries.iter().map(|e| format!("{} v{} orig={} stored={}", tag_str(e.tag), e.version, e.orig_len, e.stored.len())).collect::<Vec<_>>()})
    });
}

// ------------------------------------------------------------------------------------------------ family 1: variable length integers

fn run_varints(ctx: &Ctx) {
    // 255UInt16: all 65536 values x every valid encoding; a sentinel byte behind the encoding checks that
    // exactly the encoding was consumed
    let n: u64 = (0..=65535u32)
        .into_par_iter()
        .map(|v| {
            let v = v as u16;
            let mut k = 0;
            for e in enc::enc_255_all(v) {
                let mut b = e.clone();
                b.push(0xA5);
                let r = guard(|| {
                    let mut c = ReadScope::new(&b).ctxt();
                    let x = c.read::<PackedU16>();
                    let s = c.read_u8();
                    (x.map_err(|e| format!("{:?}", e)), s.ok(), c.bytes_available())
                });
                match r {
                    Ok((Ok(x), Some(0xA5), false)) if x == v => {}
                    Ok(o) => ctx.violation("C11:255UInt16:value", || json!({"kind": "255UInt16", "bytes": mcx::hex(&e), "expected": v, "got": format!("{:?}", o)})),
                    Err(p) => ctx.violation(&format!("C11:255UInt16:panic:{}", site(&p)), || json!({"kind": "255UInt16", "bytes": mcx::hex(&e), "expected": v, "panic": p.msg})),
                }
                ctx.mark_outcome(H::new().str("255").u64(v as u64).get());
                if e.len() > 1 {
                    ctx.mark_nontrivial(H::new().str("255").bytes(&e).get());
                }
                k += 1;
            }
            k
        })
        .sum();
    ctx.evals(n);
    ctx.add_states(n);
    ctx.set("u255_encodings_checked", json!(n));

    // UIntBase128: every terminated byte string of length 1..=3 (1..=4 in thorough; continuation bit on all bytes
    // but the last, 7 free bits each), and for the longer lengths up to 6 every string over a boundary menu of 7-bit groups.
    let full_len = if ctx.tier.thorough() { 4 } else { 3 };
    let check = |b: &[u8], mark: bool| {
        let want = enc::dec_base128(&b[..b.len() - 1]);
        let r = guard(|| {
            let mut c = ReadScope::new(b).ctxt();
            let x = c.read::<U32Base128>();
            let s = c.read_u8();
            (x.map_err(|e| format!("{:?}", e)), s.ok(), c.bytes_available())
        });
        let wit = |got: String| json!({"kind": "UIntBase128", "bytes": mcx::hex(&b[..b.len() - 1]), "expected": format!("{:?}", want), "got": got});
        match (&want, r) {
            (Ok((v, _)), Ok((Ok(x), Some(0xA5), false))) if x == *v => {
                if mark {
                    ctx.mark_outcome(H::new().str("128").u64(*v as u64).get());
                    if b.len() > 2 {
                        ctx.mark_nontrivial(H::new().str("128").bytes(b).get());
                    }
                }
            }
            (Ok(_), Ok((Ok(x), s, more))) => ctx.violation("C11:UIntBase128:value", || wit(format!("{} sentinel={:?} more={}", x, s, more))),
            (Ok(_), Ok((Err(e), _, _))) => ctx.violation("C11:UIntBase128:valid-encoding-rejected", || wit(e)),
            (Err(_), Ok((Err(_), _, _))) => {
                if mark {
                    ctx.mark_outcome(H::new().str("128-rejected").get());
                }
            }
            (Err(why), Ok((Ok(x), _, _))) => ctx.violation(&format!("C11:UIntBase128:mandated-rejection-accepted:{}", why.replace(' ', "-")), || wit(format!("{}", x))),
            (_, Err(p)) => ctx.violation(&format!("C11:UIntBase128:panic:{}", site(&p)), || wit(p.msg.clone())),
        }
    };
    let mut total = 0u64;
    for len in 1..=full_len {
        let count = 1u32 << (7 * len);
        (0..count).into_par_iter().for_each(|v| {
            let mut b = [0u8; 5];
            for k in 0..len {
                b[len - 1 - k] = ((v >> (7 * k)) & 0x7f) as u8 | if k > 0 { 0x80 } else { 0 };
            }
            b[len] = 0xA5;
            check(&b[..=len], len <= 3);
        });
        total += count as u64;
    }
    let menu: [u8; 7] = [0x00, 0x01, 0x0f, 0x10, 0x3f, 0x40, 0x7f];
    let mut strings: Vec<Vec<u8>> = Vec::new();
    for len in (full_len + 1)..=6usize {
        let mut idx = vec![0usize; len];
        'outer: loop {
            let mut b: Vec<u8> = (0..len).map(|k| menu[idx[k]] | if k + 1 < len { 0x80 } else { 0 }).collect();
            b.push(0xA5);
            strings.push(b);
            let mut k = len;
            loop {
                if k == 0 {
                    break 'outer;
                }
                k -= 1;
                idx[k] += 1;
                if idx[k] < menu.len() {
                    break;
                }
                idx[k] = 0;
            }
        }
    }
    // the boundary values named in the design, in their only valid encoding
    for v in [0u32, 1, 127, 128, 16383, 16384, 0x1F_FFFF, 0x20_0000, 0x0FFF_FFFF, 0x1000_0000, 0x7FFF_FFFF, 0x8000_0000, u32::MAX] {
        let mut b = enc::enc_base128(v);
        b.push(0xA5);
        strings.push(b);
    }
    total += strings.len() as u64;
    strings.par_iter().for_each(|b| check(b, true));
    ctx.evals(total);
    ctx.add_states(total);
    ctx.set("uintbase128_strings_checked", json!(total));
}

// ------------------------------------------------------------------------------------------------ family 2: triplet table

/// magnitudes of one axis of a row that are tested: the ends of its range (plus inner values in thorough); for the
/// 16-bit rows also 32767, 32768 and 40000 (steps wider than an int16 delta, which glyf stores modulo 2^16)
fn axis_values(bits: u8, d0: u16, neg: bool, thorough: bool) -> Vec<i32> {
    if bits == 0 {
        return vec![0];
    }
    let lo = d0 as i32;
    // the 16-bit rows reach 65535: the step between two int16 coordinates (e.g. -32768 -> 32767)
    let hi = lo + (1i32 << bits) - 1;
    let mut v = vec![lo, hi];
    if bits == 16 {
        // the edges of what a glyf delta holds without wrapping, and the first values beyond
        v.extend_from_slice(&[32767, 32768, 40000]);
    }
    if thorough {
        v.extend_from_slice(&[lo + 1, hi - 1, (lo + hi) / 2]);
    }
    v.sort();
    v.dedup();
    v.into_iter().map(|m| if neg { -m } else { m }).collect()
}

fn run_triplets(ctx: &Ctx) {
    let thorough = ctx.tier.thorough();
    let mut deltas: BTreeSet<(i32, i32)> = BTreeSet::new();
    for ri in 0..128 {
        let r = enc::row(ri);
        for dx in axis_values(r.xbits, r.dx0, r.xneg, thorough) {
            for dy in axis_values(r.ybits, r.dy0, r.yneg, thorough) {
                deltas.insert((dx, dy));
            }
        }
    }
    let deltas: Vec<(i32, i32)> = deltas.into_iter().collect();
    let rows_used = std::sync::Mutex::new(BTreeSet::new());
    let cases: u64 = deltas
        .par_iter()
        .map(|&(dx, dy)| {
            let mut k = 0u64;
            // a step wider than int16 is written as the true difference or as the wrapped int16 delta of the glyf table
            let wide = !(-32768..=32767).contains(&dx) || !(-32768..=32767).contains(&dy);
            let mut variants: Vec<(bool, u8)> = enc::admissible_rows(dx, dy).into_iter().map(|r| (false, r)).collect();
            if wide {
                variants.extend(enc::admissible_rows(enc::wrap16(dx), enc::wrap16(dy)).into_iter().map(|r| (true, r)));
            }
            for (wrap, ri) in variants {
                rows_used.lock().unwrap().insert(ri);
                // position 0: the delta is the first point (relative to the origin); position 1: second point
                for pos in 0..2 {
                    for on in [true, false] {
                        // a start coordinate that keeps start and start + d inside int16
                        let start = |d: i32| -> i32 { 37.clamp(-32768 - d.min(0), 32767 - d.max(0)) };
                        let (pts, target) = if pos == 0 {
                            if wide {
                                continue;
                            }
                            (vec![pt(dx as i16, dy as i16, on), pt((dx / 2) as i16, (dy / 3) as i16, !on)], 0)
                        } else {
                            let (sx, sy) = (start(dx), start(dy));
                            (vec![pt(sx as i16, sy as i16, true), pt((sx + dx) as i16, (sy + dy) as i16, on), pt((sx + dx - dx / 2) as i16, (sy + dy - dy / 3) as i16, false)], 1)
                        };
                        let glyphs = vec![Glyph::Empty, Glyph::simple(vec![pts], vec![0x4B])];
                        let m = ttf_model(glyphs, 2, 3, true);
                        let mut ch = EncCh::plain(&m);
                        ch.gc.rows.push((1, target, ri));
                        ch.gc.wrap_deltas = wrap;
                        run_single(ctx, &m, &ch, false, false, &|| json!({"family": "triplet", "delta": [dx, dy], "row": ri, "position": pos, "on_curve": on, "written_as_wrapped_int16_delta": wrap}));
                        k += 1;
                    }
                }
            }
            k
        })
        .sum();
    ctx.add_states(cases);
    ctx.add_transitions(cases);
    let used = rows_used.into_inner().unwrap();
    ctx.set("triplet_deltas", json!(deltas.len()));
    ctx.set("triplet_rows_exercised", json!(used.len()));
    ctx.set("triplet_fonts", json!(cases));
    if used.len() != 128 {
        ctx.not_exhaustive("not every row of the triplet table was exercised");
    }
}

// ------------------------------------------------------------------------------------------------ family 3: glyph sets x encoder choices

fn comp(extra_flags: u16, gid: u16, args: Args, scale: Scale) -> Component {
    Component { extra_flags, gid, args, scale }
}

/// 0: mixed set (empty, 1-3 contours, instructions, loose bbox, boxes that do not enclose the outline, composites with and without instructions, single point)
fn set_basic() -> Vec<Glyph> {
    vec![
        Glyph::Empty,
        Glyph::simple(vec![vec![pt(10, 0, true), pt(300, 700, false), pt(590, 0, true)]], vec![]),
        Glyph::simple(
            vec![vec![pt(-20, -10, true), pt(100, 900, true), pt(250, -10, false), pt(250, -300, true)], vec![pt(50, 50, false), pt(60, 60, false)]],
            vec![0xB0, 0x01, 0x2B],
        ),
        Glyph::Empty,
        Glyph::Simple {
            bbox: [-100, -200, 1200, 1300],
            contours: vec![vec![pt(33, 44, true), pt(1100, 44, true), pt(1100, 1250, false)], vec![pt(-90, 0, false)], vec![pt(5, -150, true), pt(6, -149, true)]],
            instr: vec![],
            overlap: false,
        },
        Glyph::composite(
            [-7, -10, 600, 900],
            vec![comp(enc::ROUND_XY_TO_GRID, 1, Args::Xy8(5, -7), Scale::None), comp(enc::USE_MY_METRICS, 2, Args::Xy16(300, -400), Scale::One(0x2000))],
            Some(vec![1, 2, 3, 4, 5]),
        ),
        Glyph::composite(
            [5, 5, 6, 6],
            vec![comp(0, 1, Args::Pt8(1, 2), Scale::Four([0x4000, -0x1000, 0x0800, 0x3fff])), comp(enc::OVERLAP_COMPOUND, 4, Args::Pt16(258, 3), Scale::Two(0x7fff, -0x8000))],
            None,
        ),
        Glyph::simple(vec![vec![pt(0, 0, true)]], vec![0xFF]),
        Glyph::Simple { bbox: [3, 4, 900, 901], contours: vec![vec![pt(3, 4, true), pt(900, 901, false)]], instr: vec![], overlap: true },
        // a header box tighter than the outline and one that lies beside it: whatever box the font declares is what an explicit
        // bounding box carries, and the decoder must hand it back unchanged
        Glyph::Simple { bbox: [120, 0, 280, 380], contours: vec![vec![pt(100, 0, true), pt(300, 400, true), pt(150, 200, false)]], instr: vec![], overlap: false },
        Glyph::Simple { bbox: [1000, 1000, 1001, 1001], contours: vec![vec![pt(0, 0, true), pt(50, 60, true), pt(20, 10, true)]], instr: vec![0x01], overlap: false },
    ]
}

/// 1: composites with every argument form x every scale form, with and without instructions
fn set_composites() -> Vec<Glyph> {
    let mut g = vec![Glyph::simple(vec![vec![pt(12, 0, true), pt(40, 80, true), pt(70, 0, true)]], vec![]), Glyph::Empty];
    let args = [Args::Xy8(-128, 127), Args::Xy16(-32768, 32767), Args::Pt8(0, 255), Args::Pt16(65535, 256)];
    let scales = [Scale::None, Scale::One(-0x4000), Scale::Two(0x1234, 0x0001), Scale::Four([1, -2, 3, -4])];
    let extras = [0u16, enc::ROUND_XY_TO_GRID | enc::SCALED_COMPONENT_OFFSET, enc::UNSCALED_COMPONENT_OFFSET, enc::USE_MY_METRICS | enc::OVERLAP_COMPOUND];
    for (ai, a) in args.iter().enumerate() {
        // one composite per argument form: four components, one per scale form
        let comps: Vec<Component> = scales.iter().enumerate().map(|(si, s)| comp(extras[(ai + si) % 4], (si % 2) as u16, *a, *s)).collect();
        g.push(Glyph::composite(
            [-(ai as i16) - 30, 2 * ai as i16, 1000 + ai as i16, 77],
            comps,
            match ai {
                0 => None,
                1 => Some(vec![]),
                2 => Some(vec![0xAA; 3]),
                _ => Some((0..300u32).map(|i| i as u8).collect()),
            },
        ));
    }
    for (si, s) in scales.iter().enumerate() {
        // single component composites
        g.push(Glyph::composite([si as i16 + 1, -5, 10, 10], vec![comp(0, 0, args[si], *s)], if si % 2 == 0 { Some(vec![si as u8 + 1]) } else { None }));
    }
    g
}

/// 2: every on/off-curve pattern of 1..=4 points (30 glyphs), distinct xMin per glyph
fn set_onoff() -> Vec<Glyph> {
    let mut g = vec![Glyph::Empty];
    for n in 1..=4usize {
        for mask in 0..(1u32 << n) {
            let base = (g.len() as i16) * 3 - 40;
            let pts: Vec<Pt> = (0..n).map(|i| pt(base + (i as i16) * 20 * if i % 2 == 0 { 1 } else { 3 }, (i as i16) * (mask as i16 + 1) - 10, mask & (1 << i) != 0)).collect();
            g.push(Glyph::simple(vec![pts], if mask % 3 == 0 { vec![mask as u8] } else { vec![] }));
        }
    }
    g
}

/// 3: contour counts 0..=3 with contour sizes around the 255UInt16 code boundaries, long instructions
fn set_contours() -> Vec<Glyph> {
    let contour = |n: usize, ox: i16, oy: i16| -> Vec<Pt> { (0..n).map(|i| pt(ox + (i % 50) as i16 * 3, oy + (i / 50) as i16 * 2 - (i % 7) as i16, i % 3 != 1)).collect() };
    vec![
        Glyph::Empty,
        Glyph::simple(vec![contour(252, 1, 0)], vec![]),
        Glyph::simple(vec![contour(253, -2, 0), contour(1, 7, 7)], (0..253u32).map(|i| i as u8).collect()),
        Glyph::simple(vec![contour(506, 3, -30), contour(2, 0, 0), contour(255, -4, 9)], (0..506u32).map(|i| (i * 7) as u8).collect()),
        Glyph::simple(vec![contour(509, 0, 5)], (0..762u32).map(|i| (i * 3) as u8).collect()),
        Glyph::Empty,
        Glyph::simple(vec![contour(762, -6, 1), contour(508, 2, 2), contour(3, 1, 1)], (0..509u32).map(|i| i as u8).collect()),
    ]
}

/// one composite with instructions whose WE_HAVE_INSTRUCTIONS bit sits on exactly the components in `mask`
fn flagged_composite(ncomp: usize, mask: u32, k: usize) -> Glyph {
    let forms = [Args::Xy8(3, -4), Args::Xy16(300, -2), Args::Pt8(1, 0)];
    let comps: Vec<Component> = (0..ncomp)
        .map(|i| comp(if mask & (1 << i) != 0 { enc::WE_HAVE_INSTRUCTIONS } else { 0 } | if i == 1 { enc::ROUND_XY_TO_GRID } else { 0 }, (i % 2) as u16, forms[(i + k) % 3], if i == 2 { Scale::One(0x3000) } else { Scale::None }))
        .collect();
    Glyph::composite([k as i16 - 9, -3, 500 + k as i16, 600], comps, Some((0..(1 + k % 5) as u8).map(|j| 0x40 + (k as u8) * 7 + j).collect()))
}

/// every non-empty placement of WE_HAVE_INSTRUCTIONS over the components of a 1, 2 or 3 component composite
fn flag_placements() -> Vec<(usize, u32)> {
    let mut v = Vec::new();
    for ncomp in 1..=3usize {
        for mask in 1..(1u32 << ncomp) {
            v.push((ncomp, mask));
        }
    }
    v
}

/// 4: hinted composites with every placement of WE_HAVE_INSTRUCTIONS (first only, middle only, last only, all, first+last, ..),
/// each followed by a simple glyph with points and instructions and, further on, by more composites with instructions, so that a
/// decoder that loses track of the glyph / instruction streams is seen in the later glyphs
fn set_instruction_flag_placement() -> Vec<Glyph> {
    let mut g = vec![Glyph::simple(vec![vec![pt(1, 2, true), pt(30, 40, false), pt(50, 2, true)]], vec![0x11]), Glyph::simple(vec![vec![pt(-5, 0, true), pt(7, 9, true)]], vec![])];
    for (k, (ncomp, mask)) in flag_placements().into_iter().enumerate() {
        g.push(flagged_composite(ncomp, mask, k));
        let o = k as i16;
        g.push(Glyph::simple(vec![vec![pt(o - 20, o, true), pt(o + 100, 200 - o, k % 2 == 0), pt(o + 3, -o - 7, true)]], vec![0x80 + k as u8, 0x81, k as u8]));
    }
    g.push(Glyph::composite([0, 0, 9, 9], vec![comp(0, 0, Args::Xy8(1, 1), Scale::None), comp(0, 1, Args::Xy8(2, 2), Scale::None)], Some(vec![0xEE, 0xEF])));
    g.push(Glyph::simple(vec![vec![pt(4, 4, true), pt(8, 8, false)]], vec![0x99]));
    g
}

const SET_NAMES: [&str; 5] = ["basic", "composites", "on-off-patterns", "contour-and-instruction-sizes", "composite-instruction-flag-placement"];

fn glyph_set(i: usize) -> Vec<Glyph> {
    match i {
        0 => set_basic(),
        1 => set_composites(),
        2 => set_onoff(),
        3 => set_contours(),
        _ => set_instruction_flag_placement(),
    }
}

fn run_fonts(ctx: &Ctx) {
    let thorough = ctx.tier.thorough();
    let bound = if thorough { 4 } else { 2 };
    let sets: Vec<Vec<Glyph>> = (0..SET_NAMES.len()).map(glyph_set).collect();
    let s = explore_par(bound, 3, |c: &mut Chooser<'_>| {
        let si = c.pick(sets.len());
        let glyphs = sets[si].clone();
        let n = glyphs.len();
        // free choices: the hmtx story
        let nhm = *c.of(&[1usize, n / 2, n]);
        let pattern = c.pick(4) as u8; // which side bearing arrays equal xMin
        let permitted: Vec<u8> = (0..=3u8).filter(|f| f & !pattern == 0).collect(); // 0 = null transform
        let hmtx_flags = *c.of(&permitted);
        // deviations: everything else
        let glyf_transform = c.dev(2) == 0;
        let long_loca = c.dev(2) == 1;
        let bbox_mode = c.dev(3); // 0 = computed where possible, 1 = all explicit, 2 = every other glyph explicit
        let default_row = c.dev(2) as u8;
        let u255 = U255_MODES[c.dev(3)];
        let explicit_tags = c.dev(2) == 1;
        let order = c.dev(3) as u8;
        let extra = c.dev(3); // 0 none, 1 an arbitrary-tag table, 2 two of them (one empty)
        let overlap_bitmap = c.dev(2) == 1;
        let blocks = c.dev(4); // metadata / private block
        let true_flavor = c.dev(2) == 1;

        let mut m = ttf_model(glyphs, nhm, pattern, long_loca);
        if true_flavor {
            m.flavor = sfnt::TRUE;
        }
        if extra >= 1 {
            m.extra.push((tag(b"zzzz"), (0..37u8).collect()));
        }
        if extra >= 2 {
            m.extra.push((tag(b"A b "), vec![]));
        }
        let mut ch = EncCh::plain(&m);
        ch.glyf_transform = glyf_transform;
        ch.hmtx_flags = hmtx_flags;
        ch.gc.default_row = default_row;
        ch.gc.u255 = u255;
        ch.gc.overlap_bitmap = overlap_bitmap;
        ch.gc.explicit_bbox = (0..n).map(|i| bbox_mode == 1 || (bbox_mode == 2 && i % 2 == 1)).collect();
        ch.explicit_tags = explicit_tags;
        ch.order = order;
        let what = || {
            json!({"family": "fonts", "glyph_set": SET_NAMES[si], "numGlyphs": n, "numberOfHMetrics": m.nhm, "lsb_equal_xmin_pattern": pattern, "hmtx_flags": hmtx_flags,
                   "glyf_transform": glyf_transform, "long_loca": long_loca, "bbox_mode": bbox_mode, "default_row": default_row, "u255": format!("{:?}", u255),
                   "explicit_tags": explicit_tags, "order": order, "extra_tables": extra, "overlap_bitmap": overlap_bitmap, "blocks": blocks, "flavor_true": true_flavor})
        };
        run_single(ctx, &m, &ch, blocks & 1 != 0, blocks & 2 != 0, &what);
    });
    ctx.add_states(s.states);
    ctx.add_transitions(s.transitions);
    ctx.set("fonts_family_executions", json!(s.executions));
    ctx.set("fonts_family_deviation_bound", json!(bound));
}

// ------------------------------------------------------------------------------------------------ family 4: collections

struct Member {
    model: Model,
    glyf_transform: bool,
    hmtx_flags: u8,
}

/// Build a collection file. `share_glyf`: identical glyf+loca pairs are stored once; `share_other`: other identical
/// tables are stored once. Returns the file and, per font, the expectation.
fn build_collection(members: &[Member], share_glyf: bool, share_other: bool, version: u32, u255: U255Mode, explicit_tags: bool) -> (Vec<u8>, Vec<Expect>) {
    let mut entries: Vec<Entry> = Vec::new();
    let mut fonts: Vec<CollectionFont> = Vec::new();
    let mut expects = Vec::new();
    let same = |a: &Entry, b: &Entry| a.tag == b.tag && a.version == b.version && a.orig_len == b.orig_len && a.stored == b.stored;
    for mb in members {
        let m = &mb.model;
        let orig = orig_tables(m);
        let mut ch = EncCh::plain(m);
        ch.glyf_transform = mb.glyf_transform;
        ch.hmtx_flags = mb.hmtx_flags;
        ch.gc.u255 = u255;
        ch.explicit_tags = explicit_tags;
        let (es, transformed) = encode_entries(m, &orig, &ch);
        let mut idx: Vec<(u32, u16)> = Vec::new();
        let loca = es.iter().find(|e| e.tag == LOCA).cloned();
        for e in es.iter().filter(|e| e.tag != LOCA) {
            if e.tag == GLYF {
                // glyf and its loca form a pair: loca directly follows glyf in the directory
                let l = loca.as_ref().expect("glyf without loca");
                let found = if share_glyf { (0..entries.len().saturating_sub(1)).find(|&k| same(&entries[k], e) && same(&entries[k + 1], l)) } else { None };
                let k = match found {
                    Some(k) => k,
                    None => {
                        entries.push(e.clone());
                        entries.push(l.clone());
                        entries.len() - 2
                    }
                };
                idx.push((GLYF, k as u16));
                idx.push((LOCA, k as u16 + 1));
            } else {
                let found = if share_other { (0..entries.len()).find(|&k| same(&entries[k], e)) } else { None };
                let k = match found {
                    Some(k) => k,
                    None => {
                        entries.push(e.clone());
                        entries.len() - 1
                    }
                };
                idx.push((e.tag, k as u16));
            }
        }
        idx.sort();
        fonts.push(CollectionFont { flavor: m.flavor, tables: idx.iter().map(|x| x.1).collect() });
        expects.push(expect_of(m, &orig, &transformed));
    }
    // every tag that occurs anywhere in the file is probed for absence in the members that lack it
    let all_tags: Vec<u32> = entries.iter().map(|e| e.tag).collect();
    for e in expects.iter_mut() {
        e.probe_absent = absent_for(&e.tables, &all_tags);
    }
    let coll = Collection { version, fonts, u255 };
    (enc::build_woff2(enc::TTCF, &entries, Some(&coll), None, None), expects)
}

/// Members with different table sets: 0 = TrueType with `cvt `, `GDEF` and an arbitrary-tag table; 1 = the same outlines
/// (glyf/loca shareable) without those three but with `fpgm`; 2 = an OTTO/CFF member (no glyf/loca) with the same head, cmap,
/// post and GDEF bytes as member 0 (shareable); 3 = TrueType with its own outlines and another `cvt `
fn mixed_member(kind: usize, glyf_transform: bool, hmtx_elide: bool) -> Member {
    let gdef: Vec<u8> = vec![0, 1, 0, 0, 0, 0, 0, 0, 0, 0, 0, 0];
    match kind {
        0 | 1 => {
            let glyphs = set_basic();
            let n = glyphs.len();
            let mut model = ttf_model(glyphs, n / 2, 1, true);
            if kind == 0 {
                model.extra = vec![(tag(b"cvt "), vec![0, 1, 0, 2, 0, 3]), (tag(b"GDEF"), gdef), (tag(b"zzzz"), vec![0xAB; 5])];
            } else {
                model.extra = vec![(tag(b"fpgm"), vec![0xB0, 0x00, 0x2C])];
                model.flavor = sfnt::TRUE;
            }
            Member { model, glyf_transform, hmtx_flags: if glyf_transform && hmtx_elide { 1 } else { 0 } }
        }
        2 => {
            let n = 9usize;
            let nhm = 4usize;
            let metrics: Vec<(u16, i16)> = (0..n).map(|i| (700 + i.min(nhm - 1) as u16, i as i16 - 3)).collect();
            let model = Model { flavor: sfnt::OTTO, glyphs: Vec::new(), cff: Some((0..90u32).map(|i| (i * 7 + 3) as u8).collect()), num_glyphs: n, metrics, nhm, long_loca: true, extra: vec![(tag(b"GDEF"), gdef)] };
            Member { model, glyf_transform: false, hmtx_flags: 0 }
        }
        _ => {
            let glyphs = set_instruction_flag_placement();
            let n = glyphs.len();
            let mut model = ttf_model(glyphs, n, 3, true);
            model.extra = vec![(tag(b"cvt "), vec![9, 9])];
            Member { model, glyf_transform, hmtx_flags: if glyf_transform && hmtx_elide { 3 } else { 0 } }
        }
    }
}

/// every ordered selection of 2 or 3 different member kinds
fn mixed_selections() -> Vec<Vec<usize>> {
    let mut v = Vec::new();
    for a in 0..4usize {
        for b in 0..4usize {
            if a == b {
                continue;
            }
            v.push(vec![a, b]);
            for c in 0..4usize {
                if c != a && c != b {
                    v.push(vec![a, b, c]);
                }
            }
        }
    }
    v
}

fn run_mixed_collections(ctx: &Ctx) {
    let sels = mixed_selections();
    let s = explore_par(if ctx.tier.thorough() { 3 } else { 1 }, 1, |c: &mut Chooser<'_>| {
        let sel = c.of(&sels).clone();
        let share_glyf = c.flag();
        let share_other = c.flag();
        let glyf_transform = c.flag();
        let hmtx_elide = c.dev(2) == 0;
        let version = *c.dev_of(&[0x0001_0000u32, 0x0002_0000]);
        let u255 = U255_MODES[c.dev(3)];
        let explicit_tags = c.dev(2) == 1;
        let members: Vec<Member> = sel.iter().map(|&k| mixed_member(k, glyf_transform, hmtx_elide)).collect();
        let (file, expects) = build_collection(&members, share_glyf, share_other, version, u255, explicit_tags);
        let what = |k: usize| {
            json!({"family": "mixed-collection", "member_kinds": sel, "font": k, "share_glyf": share_glyf, "share_other": share_other, "glyf_transform": glyf_transform,
                   "hmtx_elide": hmtx_elide, "version": version, "u255": format!("{:?}", u255), "explicit_tags": explicit_tags,
                   "member_tags": expects.iter().map(|e| e.tables.iter().map(|t| tag_str(t.0)).collect::<Vec<_>>()).collect::<Vec<_>>()})
        };
        let h = H::new().bytes(&file).get();
        let mut o = H::new();
        for (k, exp) in expects.iter().enumerate() {
            o = o.u64(check_font(ctx, &file, k, exp, Lenient::default(), &|| what(k)));
        }
        ctx.mark_nontrivial(h);
        ctx.mark_outcome(o.get());
        FONT_OUTCOMES.lock().unwrap().insert(o.get());
        ctx.sample(h, || json!({"case": what(0), "file_bytes": file.len()}));
    });
    ctx.add_states(s.states);
    ctx.add_transitions(s.transitions);
    ctx.set("mixed_collection_family_executions", json!(s.executions));
}

fn run_collections(ctx: &Ctx) {
    let thorough = ctx.tier.thorough();
    let basic = set_basic();
    let onoff = set_onoff();
    let s = explore_par(if thorough { 4 } else { 2 }, 2, |c: &mut Chooser<'_>| {
        let nfonts = 1 + c.pick(3);
        let share_glyf = c.flag();
        let share_other = c.flag();
        // member 0: basic glyphs; member 1: the same outlines with other advances (can share glyf/loca);
        // member 2: another glyph set
        let mut members = Vec::new();
        for k in 0..nfonts {
            let pattern = if k == 1 { 1 + c.pick(3) as u8 } else { 3 };
            let glyphs = if k == 2 { onoff.clone() } else { basic.clone() };
            let n = glyphs.len();
            let nhm = if k == 1 { n / 2 } else { *c.dev_of(&[n / 2, 1, n]) };
            let mut model = ttf_model(glyphs, nhm, pattern, k != 2);
            if k == 1 {
                for mt in model.metrics.iter_mut() {
                    mt.0 += 3;
                }
                // keep "glyphs beyond numberOfHMetrics repeat the last advance"
                let last = model.metrics[model.nhm - 1].0;
                for mt in model.metrics[model.nhm..].iter_mut() {
                    mt.0 = last;
                }
                model.flavor = sfnt::TRUE;
            }
            // members 0 and 1 share outlines, therefore they take the same glyf decision
            let glyf_transform = if k == 1 { members.first().map(|m: &Member| m.glyf_transform).unwrap_or(true) } else { c.dev(2) == 0 };
            let permitted: Vec<u8> = (0..=3u8).rev().filter(|f| f & !pattern == 0).collect(); // default: elide as much as allowed
            let hmtx_flags = if glyf_transform { *c.dev_of(&permitted) } else { 0 };
            members.push(Member { model, glyf_transform, hmtx_flags });
        }
        let version = *c.dev_of(&[0x0001_0000u32, 0x0002_0000]);
        let u255 = U255_MODES[c.dev(3)];
        let explicit_tags = c.dev(2) == 1;
        let (file, expects) = build_collection(&members, share_glyf, share_other, version, u255, explicit_tags);
        let what = |k: usize| {
            json!({"family": "collection", "fonts": nfonts, "font": k, "share_glyf": share_glyf, "share_other": share_other, "version": version, "u255": format!("{:?}", u255),
                   "explicit_tags": explicit_tags,
                   "members": members.iter().map(|m| json!({"numGlyphs": m.model.num_glyphs, "numberOfHMetrics": m.model.nhm, "glyf_transform": m.glyf_transform, "hmtx_flags": m.hmtx_flags})).collect::<Vec<_>>()})
        };
        let h = H::new().bytes(&file).get();
        let mut o = H::new();
        for (k, exp) in expects.iter().enumerate() {
            o = o.u64(check_font(ctx, &file, k, exp, Lenient::default(), &|| what(k)));
        }
        // one past the last font: an error, never a panic
        for seam in 0..2u8 {
            ctx.evals(1);
            if let Err(p) = decode(&file, nfonts, seam, &[]) {
                ctx.violation("C11:collection:font-index-out-of-range:panic", || json!({"kind": "font-index", "what": what(nfonts), "index": nfonts, "panic": p.msg, "file_hex": mcx::hex(&file)}));
            }
        }
        ctx.mark_nontrivial(h);
        ctx.mark_outcome(o.get());
        FONT_OUTCOMES.lock().unwrap().insert(o.get());
        ctx.sample(h, || json!({"case": what(0), "file_bytes": file.len()}));
    });
    ctx.add_states(s.states);
    ctx.add_transitions(s.transitions);
    ctx.set("collection_family_executions", json!(s.executions));
}

// ------------------------------------------------------------------------------------------------ family 5: boundary fonts

/// `n` glyphs, mostly empty for large n, with simple (tight / loose bbox) and composite glyphs spread over the bitmap positions
fn sparse_set(n: usize) -> Vec<Glyph> {
    let make = |i: usize, k: usize| -> Glyph {
        let o = (i % 1000) as i16;
        match k {
            0 => Glyph::Simple { bbox: [-o - 1, -2, o + 50, 99], contours: vec![vec![pt(-o, 0, true), pt(o + 40, 90, false)]], instr: vec![], overlap: false },
            1 => Glyph::simple(vec![vec![pt(o + 2, 1, true), pt(o + 9, 7, true), pt(o + 5, -3, false)]], vec![i as u8]),
            2 => Glyph::composite([o + 1, o, 300, 400], vec![comp(0, 0, Args::Xy8(1, 1), Scale::None)], None),
            _ => Glyph::Empty,
        }
    };
    (0..n)
        .map(|i| {
            if n <= 300 {
                if i > 0 && i % 5 == 4 {
                    make(i, 2)
                } else {
                    make(i, i % 3)
                }
            } else if i == 0 || i == n - 1 {
                make(i, 0)
            } else if i == 1 || i == n / 2 {
                make(i, 1)
            } else if i == n - 2 || i == 65503 || i == 65504 {
                make(i, 2)
            } else {
                Glyph::Empty
            }
        })
        .collect()
}

fn run_boundaries(ctx: &Ctx) {
    let thorough = ctx.tier.thorough();
    // (a) numGlyphs around the bbox bitmap word boundaries and at the top of the range
    let mut counts: Vec<usize> = vec![1, 2, 7, 8, 9, 31, 32, 33, 63, 64, 65, 255, 256, 257, 65504, 65505, 65535];
    if thorough {
        counts.extend(34..63);
        counts.extend([95, 96, 97, 127, 128, 129, 1023, 1024, 1025, 32767, 32768, 65503]);
    }
    counts.sort();
    let (small, large): (Vec<usize>, Vec<usize>) = counts.iter().partition(|&&n| n < 30000);
    let one = |n: usize| {
        let glyphs = sparse_set(n);
        for nhm in [1usize, n] {
            for flags in [3u8, 0] {
                for bbox_all in [false, true] {
                    let m = ttf_model(glyphs.clone(), nhm, 3, true);
                    let mut ch = EncCh::plain(&m);
                    ch.hmtx_flags = flags;
                    ch.gc.explicit_bbox = vec![bbox_all; n];
                    run_single(ctx, &m, &ch, false, false, &|| json!({"family": "numGlyphs", "numGlyphs": n, "numberOfHMetrics": nhm, "hmtx_flags": flags, "all_bboxes_explicit": bbox_all}));
                    ctx.add_states(1);
                }
            }
        }
    };
    small.par_iter().for_each(|&n| one(n));
    for n in large {
        one(n);
    }
    // (b) reconstructed glyf around the 131070 byte limit of the short loca format (65535-byte class instructions)
    let sizes: [(usize, usize); 4] = [(65516, 65515), (65516, 65516), (65516, 65518), (100, 200)];
    sizes.par_iter().for_each(|&(la, lb)| {
        for long_loca in [false, true] {
            let g = |l: usize, x: i16| Glyph::simple(vec![vec![pt(x, 0, true)]], (0..l).map(|i| (i * 11) as u8).collect());
            let m = ttf_model(vec![g(la, 0), g(lb, 0)], 2, 3, long_loca);
            let ch = EncCh::plain(&m);
            run_single(ctx, &m, &ch, false, false, &|| json!({"family": "loca-format", "instruction_lengths": [la, lb], "original_long_loca": long_loca}));
            ctx.add_states(1);
        }
    });
    // (c) every known tag, as index and as explicit tag, one per font and all together; near-miss arbitrary tags
    let base_tags: Vec<u32> = orig_tables(&ttf_model(set_basic(), 4, 3, true)).iter().map(|t| t.0).collect();
    let mut sweeps: Vec<Vec<u32>> = Vec::new();
    let spare: Vec<u32> = enc::KNOWN_TAGS.iter().map(|k| tag(k)).filter(|t| !base_tags.contains(t)).collect();
    for t in &spare {
        sweeps.push(vec![*t]);
    }
    sweeps.push(spare.clone());
    sweeps.push(vec![tag(b"Cmap"), tag(b"GLYF"), tag(b"Loca"), tag(b"hmtX"), tag(b"feat"), tag(b"Feat"), tag(b"FEAT"), tag(b"zapf"), tag(b"SVG1"), tag(b"CFF2")]);
    ctx.set("known_tags_swept", json!(spare.len() + base_tags.len()));
    sweeps.par_iter().for_each(|tags| {
        for explicit in [false, true] {
            for order in 0..3u8 {
                for glyf_transform in [true, false] {
                    let mut m = ttf_model(set_basic(), 4, 3, true);
                    for (k, t) in tags.iter().enumerate() {
                        m.extra.push((*t, (0..(k % 7 + if tags.len() == 1 { 129 } else { 0 })).map(|j| (j * 5 + k) as u8 ^ (*t as u8)).collect()));
                    }
                    let mut ch = EncCh::plain(&m);
                    ch.explicit_tags = explicit;
                    ch.order = order;
                    ch.glyf_transform = glyf_transform;
                    ch.hmtx_flags = if glyf_transform { 3 } else { 0 };
                    run_single(ctx, &m, &ch, false, false, &|| json!({"family": "tags", "extra_tags": tags.iter().map(|t| tag_str(*t)).collect::<Vec<_>>(), "explicit": explicit, "order": order, "glyf_transform": glyf_transform}));
                    ctx.add_states(1);
                }
            }
        }
    });
    // (e) one font per placement of WE_HAVE_INSTRUCTIONS over the components of a hinted composite; the composite is followed by
    // a simple glyph with points and instructions, a second hinted composite (flag on the last component) and a last simple glyph
    let placements = flag_placements();
    ctx.set("composite_instruction_flag_placements", json!(placements.len()));
    placements.par_iter().enumerate().for_each(|(k, &(ncomp, mask))| {
        for glyf_transform in [true, false] {
            for u255 in U255_MODES {
                let glyphs = vec![
                    Glyph::simple(vec![vec![pt(0, 0, true), pt(10, 20, false), pt(20, 0, true)]], vec![]),
                    Glyph::simple(vec![vec![pt(2, 2, true), pt(4, 9, true)]], vec![0x01]),
                    flagged_composite(ncomp, mask, k),
                    Glyph::simple(vec![vec![pt(-3, 1, true), pt(55, 66, false), pt(9, -9, true)]], vec![0xA0, 0xA1, 0xA2]),
                    Glyph::composite([1, 1, 2, 2], vec![comp(0, 0, Args::Xy8(1, 1), Scale::None), comp(0, 1, Args::Xy16(256, 0), Scale::None)], Some(vec![0xB0, 0xB1])),
                    Glyph::simple(vec![vec![pt(7, 7, false), pt(8, 9, true)]], vec![0xC0]),
                ];
                let m = ttf_model(glyphs, 3, 3, true);
                let mut ch = EncCh::plain(&m);
                ch.glyf_transform = glyf_transform;
                ch.gc.u255 = u255;
                ch.hmtx_flags = if glyf_transform { 3 } else { 0 };
                run_single(ctx, &m, &ch, false, false, &|| json!({"family": "composite-instruction-flag", "components": ncomp, "we_have_instructions_on_components_mask": mask, "glyf_transform": glyf_transform, "u255": format!("{:?}", u255)}));
                ctx.add_states(1);
            }
        }
    });
    // (f) steps wider than int16 between consecutive points, with coordinates at the int16 edges: per axis one of
    // {no wide step, -32768 -> 32767, 32767 -> -32768, -20000 -> 20000, 20000 -> -20000, -16384 -> 16384, 16384 -> -16384};
    // the wide step is the second or the third point (the first point sits at the start coordinate, i.e. for the edge
    // cases the first step from the origin is -32768 or +32767); explicit / computed bbox; on/off curve; true difference vs
    // wrapped int16 delta; narrowest vs widest admissible row. Expected: the original points (int16 sums modulo 2^16).
    let axis: [(i32, i32); 7] = [(37, 45), (-32768, 32767), (32767, -32768), (-20000, 20000), (20000, -20000), (-16384, 16384), (16384, -16384)];
    let mut wide_cases: Vec<(usize, usize)> = Vec::new();
    for xi in 0..axis.len() {
        for yi in 0..axis.len() {
            if xi != 0 || yi != 0 {
                wide_cases.push((xi, yi));
            }
        }
    }
    ctx.set("wide_step_axis_combinations", json!(wide_cases.len()));
    wide_cases.par_iter().for_each(|&(xi, yi)| {
        let (x0, x1) = axis[xi];
        let (y0, y1) = axis[yi];
        for pos in 1..3usize {
            for onmask in [0b101u32, 0b010] {
                for explicit in [false, true] {
                    for wrap in [false, true] {
                        for default_row in 0..2u8 {
                            let near = |v: i32| if v > 0 { v - 3 } else { v + 3 };
                            let mut pts = Vec::new();
                            if pos == 2 {
                                pts.push(pt(near(x0) as i16, near(y0) as i16, onmask & 4 != 0));
                            }
                            pts.push(pt(x0 as i16, y0 as i16, onmask & 1 != 0));
                            pts.push(pt(x1 as i16, y1 as i16, onmask & 2 != 0));
                            pts.push(pt(near(x1) as i16, near(y1) as i16, onmask & 4 != 0));
                            // a zigzag over all four corners and back through the origin, then a plain glyph behind it
                            let zig = vec![pt(-32768, -32768, true), pt(32767, 32767, false), pt(-32768, 32767, true), pt(32767, -32768, false), pt(0, 0, true), pt(-32768, 0, true), pt(32767, 1, true)];
                            let glyphs = vec![
                                Glyph::Empty,
                                Glyph::simple(vec![pts], vec![0x10]),
                                Glyph::simple(vec![zig[..4].to_vec(), zig[4..].to_vec()], vec![]),
                                Glyph::simple(vec![vec![pt(1, 2, true), pt(30, 40, false), pt(5, -6, true)]], vec![0x20, 0x21]),
                            ];
                            let m = ttf_model(glyphs, 2, 3, true);
                            let mut ch = EncCh::plain(&m);
                            ch.hmtx_flags = 1;
                            ch.gc.wrap_deltas = wrap;
                            ch.gc.default_row = default_row;
                            ch.gc.explicit_bbox = vec![explicit; 4];
                            run_single(ctx, &m, &ch, false, false, &|| {
                                json!({"family": "wide-steps", "x_step": [x0, x1], "y_step": [y0, y1], "wide_step_is_point": pos, "on_curve_mask": onmask, "explicit_bbox": explicit,
                                       "written_as_wrapped_int16_delta": wrap, "default_row": default_row})
                            });
                            ctx.add_states(1);
                        }
                    }
                }
            }
        }
    });
    // (d) CFF flavoured fonts: nothing can be transformed, every table comes back as stored
    for (clen, n) in [(0usize, 1usize), (1, 3), (333, 5), (70000, 9)] {
        for explicit in [false, true] {
            for order in 0..3u8 {
                for nhm in [1, n] {
                    let metrics: Vec<(u16, i16)> = (0..n).map(|i| (600 + i.min(nhm - 1) as u16, i as i16 - 2)).collect();
                    let m = Model {
                        flavor: sfnt::OTTO,
                        glyphs: Vec::new(),
                        cff: Some((0..clen).map(|i| (i * 13 + 1) as u8).collect()),
                        num_glyphs: n,
                        metrics,
                        nhm,
                        long_loca: false,
                        extra: vec![(tag(b"VORG"), vec![0, 1, 0, 0, 3, 0x70, 0, 0])],
                    };
                    let mut ch = EncCh::plain(&m);
                    ch.glyf_transform = false;
                    ch.explicit_tags = explicit;
                    ch.order = order;
                    run_single(ctx, &m, &ch, order == 1, explicit, &|| json!({"family": "cff", "cff_bytes": clen, "numGlyphs": n, "numberOfHMetrics": nhm, "explicit": explicit, "order": order}));
                    ctx.add_states(1);
                }
            }
        }
    }
}

// ------------------------------------------------------------------------------------------------ driver

pub fn run(ctx: &Ctx) {
    let thorough = ctx.tier.thorough();
    ctx.set_rule(
        "case = one WOFF2 file written by the independent encoder (otmodel::woff2enc) from a model font and one complete assignment of encoder choices, \
         decoded by allsorts through Woff2Font and FontData and compared table by table with the model; families: (1) 255UInt16 all values x all encodings and \
         UIntBase128 byte strings read directly, (2) one font per (delta, admissible triplet row, point position, on-curve bit) for the deltas at the ends of every \
         row's range, (3) five glyph sets x numberOfHMetrics x lsb pattern x hmtx flags (full product) x deviations in the remaining encoder choices, \
         (4) collections of 1-3 fonts x sharing patterns x per-font choices, and collections of 2-3 members with different table sets (TrueType with cvt/GDEF/arbitrary tag, TrueType without them, OTTO/CFF, TrueType with own outlines; every ordered selection) where every member must be handed exactly its own tag set and tables, (5) boundary fonts (steps wider than int16 between consecutive points with coordinates at the int16 edges, numGlyphs, loca format switch, known tags, CFF, every placement of WE_HAVE_INSTRUCTIONS over 1-3 components). \
         non-trivial = at least one table is stored transformed (fonts) / the encoding is longer than one byte (integers)",
    );
    ctx.assume("brotli stream consists of uncompressed meta-blocks only (no compressor offline); the decompressor crate is trusted");
    ctx.assume("table directory order is the encoder's choice for a single font as long as loca directly follows glyf (google/woff2 and fontTools read any order)");
    ctx.assume("a known tag may also be written in the explicit form (flag 63 + tag); an explicit bbox may be written for a simple glyph whose bbox could be computed");
    ctx.assume("head: checkSumAdjustment and indexToLocFormat may be rewritten by the decoder when a transform was applied; all other head bytes must survive");
    ctx.assume("reconstructed glyf is compared glyph by glyph through an independent parser (flag packing / padding may differ); an empty glyph may be a zero-length record or a record with numberOfContours = 0");
    ctx.assume("the OVERLAP_SIMPLE bit carried by overlapSimpleBitmap is not part of the property statement: its loss is counted (note_overlap_simple_bit_*) but not reported");
    ctx.assume("version 1 hmtx next to an untransformed glyf (fontTools decodes it, google/woff2 rejects it): a correct reconstruction or a clean error are both accepted, a panic is not");
    ctx.assume("consecutive points may be up to 65535 apart per axis (int16 coordinates); glyf stores such a step modulo 2^16; the WOFF2 encoder writes either the true difference (16-bit triplet rows) or the wrapped int16 delta; either way the expected point is the original int16 coordinate");
    ctx.assume("table_tags is compared as a set; the sfnt flavour is not checked here (C10)");
    run_varints(ctx);
    run_triplets(ctx);
    run_fonts(ctx);
    run_collections(ctx);
    run_mixed_collections(ctx);
    run_boundaries(ctx);
    ctx.set("font_distinct_outcomes", json!(FONT_OUTCOMES.lock().unwrap().len()));
    ctx.set(
        "bounds",
        json!({
            "u255": "all 65536 values x all valid encodings",
            "uintbase128": if thorough { "all terminated strings of 1-4 bytes; 5-6 bytes over the 7-bit menu {00,01,0f,10,3f,40,7f}; 13 named boundary values" } else { "all terminated strings of 1-3 bytes; 4-6 bytes over the 7-bit menu {00,01,0f,10,3f,40,7f}; 13 named boundary values" },
            "triplets": if thorough { "every row x {min, min+1, mid, max-1, max} per axis (16-bit rows also 32767, 32768, 40000; max = 65535) x every admissible row x 2 positions x on/off x {true difference, wrapped int16 delta} for wide steps" } else { "every row x {min, max} per axis (16-bit rows also 32767, 32768, 40000; max = 65535) x every admissible row x 2 positions x on/off x {true difference, wrapped int16 delta} for wide steps" },
            "fonts": {"glyph_sets": SET_NAMES, "deviation_bound": if thorough { 4 } else { 2 }, "free": "set x numberOfHMetrics{1,n/2,n} x lsb pattern{4} x permitted hmtx flags"},
            "collections": {"fonts": "1..=3", "deviation_bound": if thorough { 4 } else { 2 }},
            "numGlyphs": if thorough { "1,2,7-9,31-65,95-97,127-129,255-257,1023-1025,32767,32768,65503-65505,65535" } else { "1,2,7-9,31-33,63-65,255-257,65504,65505,65535" },
        }),
    );
}

// ------------------------------------------------------------------------------------------------ corpus for C09

/// WOFF2 files for C09 (every font the library reconstructs is a valid, self-consistent sfnt): a deterministic slice of the
/// space above. Each entry is (description, WOFF2 file bytes, indices of the fonts in the file to reconstruct and validate —
/// `[0]` for a single font, the TrueType members for a collection; CFF members are left out because their `CFF ` table is
/// filler bytes). hmtx is stored untransformed or with flags = 1 (lsb[] elided) only: every file whose hmtx flags have bit 1
/// (leftSideBearing[] elided) runs into the known hmtx defect (the reconstructed table has a side bearing for every glyph,
/// also when numberOfHMetrics == numGlyphs) and is therefore not produced.
pub fn corpus_for_c09(thorough: bool) -> Vec<(String, Vec<u8>, Vec<usize>)> {
    let mut out: Vec<(String, Vec<u8>, Vec<usize>)> = Vec::new();
    let single = |m: &Model, ch: &EncCh| -> Vec<u8> {
        let orig = orig_tables(m);
        let (entries, _) = encode_entries(m, &orig, ch);
        enc::build_woff2(m.flavor, &entries, None, None, None)
    };
    // (a) reconstructed glyf of 131070 / 131072 / 131074 bytes (and a small one) from a short and from a long loca original
    for (la, lb) in [(65516usize, 65515usize), (65516, 65516), (65516, 65518), (100, 200)] {
        for long_loca in [false, true] {
            let g = |l: usize| Glyph::simple(vec![vec![pt(0, 0, true)]], (0..l).map(|i| (i * 11) as u8).collect());
            let m = ttf_model(vec![g(la), g(lb)], 2, 3, long_loca);
            for flags in [0u8, 1] {
                let mut ch = EncCh::plain(&m);
                ch.hmtx_flags = flags;
                out.push((format!("c11 loca-format: two glyphs with {} and {} instruction bytes, original loca {}, hmtx flags {}", la, lb, if long_loca { "long" } else { "short" }, flags), single(&m, &ch), vec![0]));
            }
        }
    }
    // (b) glyph-count boundaries
    let mut counts: Vec<usize> = vec![1, 2, 7, 8, 9, 31, 32, 33, 64, 65, 255, 256, 257, 65504, 65505, 65535];
    if thorough {
        counts.extend([63, 95, 96, 97, 127, 128, 129, 1023, 1024, 1025, 32767, 32768, 65503]);
    }
    for n in counts {
        let glyphs = sparse_set(n);
        for (nhm, flags) in [(1usize, 1u8), (n, 1), (n / 2 + 1, 0)] {
            for bbox_all in [false, true] {
                if bbox_all && n > 300 && !thorough {
                    continue;
                }
                let m = ttf_model(glyphs.clone(), nhm, 3, true);
                let mut ch = EncCh::plain(&m);
                ch.hmtx_flags = flags;
                ch.gc.explicit_bbox = vec![bbox_all; n];
                out.push((format!("c11 numGlyphs {}: numberOfHMetrics {}, hmtx flags {}, explicit bboxes {}", n, m.nhm, flags, bbox_all), single(&m, &ch), vec![0]));
            }
        }
    }
    // (c) the five glyph sets under numberOfHMetrics / hmtx flags / loca format / bbox / transform choices
    for si in 0..SET_NAMES.len() {
        let glyphs = glyph_set(si);
        let n = glyphs.len();
        for nhm in [1usize, n / 2, n] {
            for long_loca in [false, true] {
                for flags in [0u8, 1] {
                    for bbox_mode in 0..2usize {
                        for u255 in if thorough { &U255_MODES[..] } else { &U255_MODES[..1] } {
                            let m = ttf_model(glyphs.clone(), nhm, 3, long_loca);
                            let mut ch = EncCh::plain(&m);
                            ch.hmtx_flags = flags;
                            ch.gc.u255 = *u255;
                            ch.gc.explicit_bbox = vec![bbox_mode == 1; n];
                            out.push((
                                format!("c11 glyph set {}: numberOfHMetrics {}, original loca {}, hmtx flags {}, bbox mode {}, 255UInt16 {:?}", SET_NAMES[si], m.nhm, if long_loca { "long" } else { "short" }, flags, bbox_mode, u255),
                                single(&m, &ch),
                                vec![0],
                            ));
                        }
                    }
                }
                // glyf/loca stored untransformed
                let m = ttf_model(glyphs.clone(), nhm, 3, long_loca);
                let mut ch = EncCh::plain(&m);
                ch.glyf_transform = false;
                out.push((format!("c11 glyph set {}: numberOfHMetrics {}, original loca {}, null transform", SET_NAMES[si], m.nhm, if long_loca { "long" } else { "short" }), single(&m, &ch), vec![0]));
            }
        }
    }
    // (d) collections: members with the same and with different table sets, shared and unshared tables
    for (k, sel) in mixed_selections().into_iter().enumerate() {
        if !thorough && k % 3 != 0 {
            continue;
        }
        for share in 0..4usize {
            if !thorough && share != k % 4 {
                continue;
            }
            let mut members: Vec<Member> = sel.iter().map(|&kind| mixed_member(kind, true, true)).collect();
            for mb in members.iter_mut() {
                mb.hmtx_flags &= 1;
            }
            let (file, _) = build_collection(&members, share & 1 != 0, share & 2 != 0, 0x0001_0000, U255Mode::Shortest, false);
            let fonts: Vec<usize> = (0..sel.len()).filter(|&i| sel[i] != 2).collect();
            out.push((format!("c11 collection of member kinds {:?} (2 = CFF, not validated), share glyf/loca {}, share other tables {}", sel, share & 1 != 0, share & 2 != 0), file, fonts));
        }
    }
    out
}

// ------------------------------------------------------------------------------------------------ replay

fn tag_of(name: &str) -> u32 {
    let mut t = [b' '; 4];
    for (i, b) in name.bytes().take(4).enumerate() {
        t[i] = b;
    }
    u32::from_be_bytes(t)
}

/// Re-execute one stored witness without the explorer.
pub fn replay(w: &Value) -> Result<(), String> {
    match w["kind"].as_str().unwrap_or("") {
        "255UInt16" => {
            let b = mcx::unhex(w["bytes"].as_str().ok_or("no bytes")?);
            let want = w["expected"].as_u64().ok_or("no expected")? as u16;
            match guard(|| ReadScope::new(&b).read::<PackedU16>()) {
                Ok(Ok(v)) if v == want => Ok(()),
                o => Err(format!("255UInt16 {:02x?} reads as {:?}, expected {}", b, o.map(|r| r.map_err(|e| format!("{:?}", e))).map_err(|p| p.msg), want)),
            }
        }
        "UIntBase128" => {
            let b = mcx::unhex(w["bytes"].as_str().ok_or("no bytes")?);
            let want = enc::dec_base128(&b);
            match (guard(|| ReadScope::new(&b).read::<U32Base128>()), &want) {
                (Ok(Ok(v)), Ok((x, _))) if v == *x => Ok(()),
                (Ok(Err(_)), Err(_)) => Ok(()),
                (o, _) => Err(format!("UIntBase128 {:02x?} reads as {:?}, reference says {:?}", b, o.map(|r| r.map_err(|e| format!("{:?}", e))).map_err(|p| p.msg), want)),
            }
        }
        "font-index" => {
            let file = mcx::unhex(w["file_hex"].as_str().ok_or("no file_hex")?);
            let index = w["index"].as_u64().ok_or("no index")? as usize;
            for seam in 0..2 {
                if let Err(p) = decode(&file, index, seam, &[]) {
                    return Err(format!("font index {} beyond the collection panics at {}: {}", index, p.loc(), p.msg));
                }
            }
            Ok(())
        }
        "font" => {
            let file = mcx::unhex(w["file_hex"].as_str().ok_or("no file_hex")?);
            let index = w["index"].as_u64().unwrap_or(0) as usize;
            let mut tbl: Vec<(u32, Vec<u8>)> = w["orig_tables"].as_object().ok_or("no orig_tables")?.iter().map(|(k, v)| (tag_of(k), mcx::unhex(v.as_str().unwrap_or("")))).collect();
            tbl.sort_by_key(|t| t.0);
            let transformed: Vec<u32> = w["transformed"].as_array().map(|a| a.iter().filter_map(|x| x.as_str()).map(tag_of).collect()).unwrap_or_default();
            let n = w["numGlyphs"].as_u64().ok_or("no numGlyphs")? as usize;
            let nhm = w["numberOfHMetrics"].as_u64().ok_or("no numberOfHMetrics")? as usize;
            let find = |t: u32| tbl.iter().find(|x| x.0 == t).map(|x| &x.1);
            // the model is recovered from the original tables with the independent readers
            let mut glyphs = Vec::new();
            if let (Some(glyf), Some(loca), Some(head)) = (find(GLYF), find(LOCA), find(HEAD)) {
                let long = head[51] == 1;
                let offs = loca_offsets(loca, n as u16, long).ok_or("original loca unreadable")?;
                for i in 0..n {
                    glyphs.push(enc::parse_glyph(&glyf[offs[i] as usize..offs[i + 1] as usize])?);
                }
            }
            let metrics = hmtx_metrics(find(HMTX).ok_or("no hmtx")?, n as u16, nhm as u16).ok_or("original hmtx unreadable")?;
            let absent: Vec<u32> = match w["absent_probe"].as_array() {
                Some(a) => a.iter().filter_map(|x| x.as_str()).map(tag_of).collect(),
                None => absent_for(&tbl, &[]),
            };
            let exp = Expect { tables: tbl.clone(), transformed: transformed.clone(), glyphs, metrics, num_glyphs: n, nhm, probe_absent: absent };
            let lenient = transformed.contains(&HMTX) && !transformed.contains(&GLYF);
            let tags: Vec<u32> = exp.tables.iter().map(|t| t.0).collect();
            for seam in 0..2 {
                match decode(&file, index, seam, &tags) {
                    Err(p) => return Err(format!("seam {}: panic at {}: {}", seam, p.loc(), p.msg)),
                    Ok(Err(e)) => {
                        if !lenient {
                            return Err(format!("seam {}: conforming file rejected: {}", seam, e));
                        }
                    }
                    Ok(Ok(got)) => {
                        let mut notes = Notes::default();
                        if let Some((k, d)) = compare(&got, &exp, &mut notes).into_iter().next() {
                            return Err(format!("seam {}: {}: {}", seam, k, d));
                        }
                    }
                }
            }
            match probe_absent(&file, index, &exp.probe_absent) {
                Err(p) => return Err(format!("absent probe: panic at {}: {}", p.loc(), p.msg)),
                Ok(bad) => {
                    if let Some(b) = bad.first() {
                        return Err(format!("a table the font does not have is served: {}", b));
                    }
                }
            }
            Ok(())
        }
        k => Err(format!("unknown witness kind {:?}", k)),
    }
}
